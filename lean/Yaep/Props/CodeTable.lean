import Yaep.Model.CodeTable
/-!
# Token code lookup: defined (no overflow, no out-of-bounds read) and exact — for every `int`

Theorems about `Model/CodeTable.lean` (C15: a token code is accepted iff it is a declared
terminal code, also for unused codes between the smallest and the largest declared code; C12:
no signed overflow and no out-of-bounds access whatever the codes are).  `d29_witness` is the
repaired defect D29 as a test on the historic version of the range computation.
-/
namespace Yaep.CT

def step (p : Int × Int) (x : Int) : Int × Int := (if p.1 > x then x else p.1, if p.2 < x then x else p.2)

theorem minMax_cons (c : Int) (rest : List Int) : minMax (c :: rest) = rest.foldl step (c, c) := rfl

theorem step_facts (p : Int × Int) (y : Int) :
    ((step p y).1 = y ∨ (step p y).1 = p.1) ∧ (step p y).1 ≤ p.1 ∧ (step p y).1 ≤ y ∧
    ((step p y).2 = y ∨ (step p y).2 = p.2) ∧ p.2 ≤ (step p y).2 ∧ y ≤ (step p y).2 := by
  simp only [step]
  refine ⟨?_, ?_, ?_, ?_, ?_, ?_⟩ <;> split <;> omega

theorem fold_spec (rest : List Int) : ∀ (p : Int × Int),
    ((rest.foldl step p).1 = p.1 ∨ (rest.foldl step p).1 ∈ rest) ∧
    ((rest.foldl step p).2 = p.2 ∨ (rest.foldl step p).2 ∈ rest) ∧
    (rest.foldl step p).1 ≤ p.1 ∧ p.2 ≤ (rest.foldl step p).2 ∧
    ∀ x ∈ rest, (rest.foldl step p).1 ≤ x ∧ x ≤ (rest.foldl step p).2 := by
  induction rest with
  | nil => intro p; simp
  | cons y ys ih =>
    intro p
    simp only [List.foldl_cons]
    obtain ⟨h1, h2, h3, h4, h5⟩ := ih (step p y)
    obtain ⟨s1, s2, s3, s4, s5, s6⟩ := step_facts p y
    refine ⟨?_, ?_, by omega, by omega, ?_⟩
    · rcases h1 with h1 | h1
      · rcases s1 with s1 | s1
        · right; rw [h1, s1]; exact List.mem_cons_self
        · left; rw [h1, s1]
      · right; exact List.mem_cons_of_mem _ h1
    · rcases h2 with h2 | h2
      · rcases s4 with s4 | s4
        · right; rw [h2, s4]; exact List.mem_cons_self
        · left; rw [h2, s4]
      · right; exact List.mem_cons_of_mem _ h2
    · intro x hx
      rcases List.mem_cons.mp hx with rfl | hx
      · constructor <;> omega
      · exact h5 x hx

/-- `min_code` and `max_code` are declared codes and bound every declared code -/
theorem minMax_spec {codes : List Int} (hne : codes ≠ []) :
    (minMax codes).1 ∈ codes ∧ (minMax codes).2 ∈ codes ∧
    ∀ x ∈ codes, (minMax codes).1 ≤ x ∧ x ≤ (minMax codes).2 := by
  cases codes with
  | nil => exact absurd rfl hne
  | cons c rest =>
    rw [minMax_cons]
    obtain ⟨h1, h2, h3, h4, h5⟩ := fold_spec rest (c, c)
    simp only at h1 h2 h3 h4
    refine ⟨?_, ?_, ?_⟩
    · rcases h1 with h | h
      · rw [h]; exact List.mem_cons_self
      · exact List.mem_cons_of_mem _ h
    · rcases h2 with h | h
      · rw [h]; exact List.mem_cons_self
      · exact List.mem_cons_of_mem _ h
    · intro x hx
      rcases List.mem_cons.mp hx with rfl | hx
      · exact ⟨h3, h4⟩
      · exact h5 x hx

theorem fits_iff (x : Int) : fits x = true ↔ -2147483648 ≤ x ∧ x ≤ 2147483647 := by
  unfold fits INT_MIN INT_MAX
  simp only [Bool.and_eq_true, decide_eq_true_eq]

theorem isub_some {a b : Int} (h : -2147483648 ≤ a - b ∧ a - b ≤ 2147483647) : isub a b = some (a - b) := by
  unfold isub; rw [if_pos ((fits_iff _).mpr h)]

theorem iadd_some {a b : Int} (h : -2147483648 ≤ a + b ∧ a + b ≤ 2147483647) : iadd a b = some (a + b) := by
  unfold iadd; rw [if_pos ((fits_iff _).mpr h)]

theorem termOfCode_none {codes : List Int} {code : Int} (h : code ∉ codes) : termOfCode codes code = none := by
  unfold termOfCode
  have : codes.findIdx (· == code) = codes.length := by
    apply List.findIdx_eq_length.mpr
    intro x hx
    cases hb : (x == code)
    · rfl
    · exact absurd ((beq_iff_eq.mp hb) ▸ hx) h
  simp [this]

theorem buildVect_length (codes : List Int) (start : Int) (len : Nat) : (buildVect codes start len).length = len := by
  simp [buildVect]

theorem buildVect_getD (codes : List Int) (start : Int) (len i : Nat) (hi : i < len) :
    (buildVect codes start len).getD i none = termOfCode codes (start + i) := by
  simp [buildVect, List.getD_eq_getElem?_getD, hi]

/-- the situation `symb_finish_adding_terms` is called in: every code is an `int`, the `error`
terminal (code −2) has been added, the threshold is the extracted constant or any other value
below 2³¹ -/
structure Pre (size : Nat) (codes : List Int) : Prop where
  fit : ∀ c ∈ codes, fits c = true
  err : (-2 : Int) ∈ codes
  size : size ≤ 2147483647

/-- facts about `min_code` / `max_code` under `Pre` -/
theorem pre_bounds {size : Nat} {codes : List Int} (h : Pre size codes) :
    (minMax codes).1 ≤ -2 ∧ -2147483648 ≤ (minMax codes).1 ∧ (minMax codes).1 ≤ (minMax codes).2 ∧
    (minMax codes).2 ≤ 2147483647 ∧ ∀ x ∈ codes, (minMax codes).1 ≤ x ∧ x ≤ (minMax codes).2 := by
  have hne : codes ≠ [] := by intro e; rw [e] at h; exact absurd h.err (by simp)
  obtain ⟨hmn, hmx, hb⟩ := minMax_spec hne
  have fmn := (fits_iff _).mp (h.fit _ hmn)
  have fmx := (fits_iff _).mp (h.fit _ hmx)
  have herr := hb _ h.err
  have := hb _ hmx
  refine ⟨by omega, by omega, by omega, by omega, hb⟩

/-- what `symb_finish_adding_terms` computes, in closed form: in particular it is *defined* -/
theorem finish_eq {size : Nat} {codes : List Int} (h : Pre size codes) :
    finish size codes =
      if ((minMax codes).2 - (minMax codes).1).toNat < size then
        some (some { start := (minMax codes).1, stop := (minMax codes).2 + 1,
                     vect := buildVect codes (minMax codes).1 ((minMax codes).2 - (minMax codes).1 + 1).toNat })
      else some none := by
  obtain ⟨b1, b2, b3, b4, _⟩ := pre_bounds h
  have hsz := h.size
  unfold finish
  generalize minMax codes = p at *
  obtain ⟨mn, mx⟩ := p
  simp only at *
  have hd : usub mx mn = (mx - mn).toNat := by
    unfold usub; congr 1; omega
  rw [hd]
  by_cases hlt : (mx - mn).toNat < size
  · rw [if_pos hlt, if_pos hlt]
    rw [iadd_some (by omega), isub_some (by omega)]
    simp only
    rw [iadd_some (by omega)]
  · rw [if_neg hlt, if_neg hlt]

/-- **no undefined behaviour in `symb_finish_adding_terms`**: neither the range test, nor
`max_code + 1`, nor the size of the vector overflows, whatever the declared codes are -/
theorem finish_defined {size : Nat} {codes : List Int} (h : Pre size codes) :
    ∃ t, finish size codes = some t := by
  rw [finish_eq h]; split <;> exact ⟨_, rfl⟩

/-- the vector is never longer than the threshold -/
theorem finish_vect_bound {size : Nat} {codes : List Int} (h : Pre size codes) {t : Table}
    (ht : finish size codes = some (some t)) : t.vect.length ≤ size := by
  obtain ⟨b1, b2, b3, b4, _⟩ := pre_bounds h
  rw [finish_eq h] at ht
  split at ht
  · rename_i hlt
    simp only [Option.some.injEq] at ht
    rw [← ht]; simp only [buildVect_length]; omega
  · simp at ht

/-- **`symb_find_by_code` is defined and exact for every `int`**: no overflow in
`code - start`, no read outside the vector, and the result is the terminal declared with that
code — `none` for every other code, in particular for unused codes between the smallest and
the largest declared code (C15: `YAEP_INVALID_TOKEN_CODE` iff not a declared code) -/
theorem find_spec {size : Nat} {codes : List Int} (h : Pre size codes) {t : Option Table}
    (ht : finish size codes = some t) (code : Int) (hc : fits code = true) :
    find codes t code = some (termOfCode codes code) := by
  obtain ⟨b1, b2, b3, b4, hb⟩ := pre_bounds h
  have fc := (fits_iff _).mp hc
  have hsz := h.size
  rw [finish_eq h] at ht
  generalize minMax codes = p at *
  obtain ⟨mn, mx⟩ := p
  simp only at *
  split at ht
  · rename_i hlt
    simp only [Option.some.injEq] at ht
    subst ht
    unfold find
    simp only
    by_cases hout : code < mn ∨ code ≥ mx + 1
    · have hcond : (decide (code < mn) || decide (code ≥ mx + 1)) = true := by
        rcases hout with h' | h' <;> simp [h']
      rw [if_pos hcond]
      have hnot : code ∉ codes := by
        intro hin; have := hb _ hin; omega
      rw [termOfCode_none hnot]
    · have hcond : ¬ ((decide (code < mn) || decide (code ≥ mx + 1)) = true) := by
        simp only [Bool.or_eq_true, decide_eq_true_eq]; exact hout
      rw [if_neg hcond]
      rw [isub_some (by omega)]
      unfold vectGet
      simp only [buildVect_length]
      have hlt2 : 0 ≤ code - mn ∧ (code - mn).toNat < (mx - mn + 1).toNat := by omega
      rw [if_pos hlt2]
      rw [buildVect_getD _ _ _ _ hlt2.2]
      congr 2
      omega
  · simp only [Option.some.injEq] at ht; subst ht; rfl

/-- where the historic range test does not overflow it takes the same decision as the repaired
one (the repair changes nothing else) -/
theorem finishHistoric_eq_finish {size : Nat} {codes : List Int} (h : Pre size codes)
    (hno : isub (minMax codes).2 (minMax codes).1 ≠ none) :
    finishHistoric size codes = finish size codes := by
  obtain ⟨b1, b2, b3, b4, _⟩ := pre_bounds h
  have hsz := h.size
  rw [finish_eq h]
  unfold finishHistoric
  generalize minMax codes = p at *
  obtain ⟨mn, mx⟩ := p
  simp only at *
  have hfit : fits (mx - mn) = true := by
    unfold isub at hno; by_cases hf : fits (mx - mn) = true
    · exact hf
    · rw [if_neg hf] at hno; exact absurd rfl hno
  have fd := (fits_iff _).mp hfit
  rw [isub_some fd]
  simp only
  by_cases hlt : mx - mn < (size : Int)
  · have hlt' : (mx - mn).toNat < size := by omega
    rw [if_pos hlt, if_pos hlt']
    rw [iadd_some (by omega), iadd_some (by omega)]
  · have hlt' : ¬ (mx - mn).toNat < size := by omega
    rw [if_neg hlt, if_neg hlt']

/-- D29 (TEST, by evaluation): with a terminal code of `INT_MAX` the historic range test is a
signed overflow (undefined behaviour; the C code then took the dense branch with a wrapped
difference and `yaep_read_grammar` returned `YAEP_NO_MEMORY`), the repaired one is defined and
chooses the hash table, and the lookup is exact -/
theorem d29_witness :
    finishHistoric 10000 [97, -2, -1, 2147483647] = none ∧
    finish 10000 [97, -2, -1, 2147483647] = some none ∧
    find [97, -2, -1, 2147483647] none 2147483647 = some (some 3) ∧
    find [97, -2, -1, 2147483647] none 2147483646 = some none := by decide

/-! non-vacuity: a dense table with a gap (codes 10 and 20 declared, 15 is not) -/
example : Pre 10000 [10, 20, -2, -1] := ⟨by decide, by decide, by decide⟩
example : ∃ t, finish 10000 [10, 20, -2, -1] = some (some t) ∧ t.vect.length = 23 ∧
    find [10, 20, -2, -1] (some t) 15 = some none ∧ find [10, 20, -2, -1] (some t) 20 = some (some 1) := by
  refine ⟨_, rfl, ?_, ?_, ?_⟩ <;> decide

end Yaep.CT
