import Yaep.Lemmas.RecoveredCostFlag
import Yaep.Lemmas.RecoveredCostTransfer
import Yaep.Props.RecoveredParse
import Yaep.Props.MakeParseFlag
/-!
# C04 / C05 for the models after an error recovery: the cost flag and the ambiguity flag

Setting of `Props/RecoveredParse.lean`: `parseWithRecovery g la rmatch w sfuel` (model of `build_pl`
with error recovery) ends with a parse list `pl`; `RP.word pl` is the repaired input (`error` an
ordinary terminal), `RP.tokNums pl` are the token numbers `pl_toks`, `RP.fix pl` maps a position of
the repaired input to the token number of its list element, `RP.SameSets pl S` says that `S` holds
the sets of `pl` with the situations of every set in any order **and any multiplicity**.

## 1. The ambiguity flag (`res.amb` of `MP.makeParse g S (RP.tokNums pl) one fuel`)

* **Soundness** — `recovered_amb_sound_of` (either mode, no hypothesis on the grammar): if the flag is
  set, the repaired input has two different derivations, *provided* a completed situation that a set
  of `S` holds twice stands for two derivations (`RC.DupsOK`).  This cannot be dropped: `RP.SameSets`
  allows any multiplicity and a duplicated completed situation sets the flag (`DupEx`, a
  counterexample to the statement with `RP.SameSets` alone).  It holds when no set of `S` repeats a
  situation (`recovered_amb_sound_nodup`), in particular for the model's own list
  (`recovered_amb_sound_model`).  (For the C set cores the multiplicity fact is a theorem about the
  step model `BS.buildPLC` of the set construction *without* recovery, `dupOK_plSets`; the recovery
  model builds abstract sets, so after a recovery it is a hypothesis.)
* **Completeness** — `recovered_amb_complete_one_of`, `recovered_amb_complete_all_of`: if the repaired
  input has two derivations with different translations, the flag is set; in fact
  (`recovered_one_unambiguous_of`, `recovered_all_unambiguous_of`) a run that leaves the flag off
  returns the renamed translation of *every* derivation of the repaired input.  Hypothesis: all
  derivations of the repaired input start with the same rule (`MP.RootUniq`), which holds unless the
  repaired input is `error $eof` (`recovered_rootUniq`: total loss).
  **Finding** (`TotalLossEx`): for the total-loss repair `error $eof` and a grammar whose start symbol
  derives `error` alone (`S : 'a' # p(0) | error # x`, input `a a`) the repaired input has the two
  derivations `$S : S $eof` (translation `x()`) and `$S : error $eof` (translation `nil`), the flag
  stays off in both modes and the tree returned is `nil`.  The C library does the same (REPORT-L20).
* Capstones: `recovered_amb_flag` (a run that returned `.ok`, either mode), `recovered_amb_flag_one`,
  `recovered_amb_flag_all` (with the existence of the runs, for every grammar `readGrammar` accepts).

## 2. The cost flag (`make_parse` in all-parses mode, then `PC.findMinimalTranslation`)

* **`recovered_cost_parse`** (`recovered_cost_parse_of`, `recovered_cost_parse_state_of`): the
  all-parses run on the final list succeeds, its tree memory is a `PC.WfHeap`, and `RC.CostSpec` holds:
  the model of `find_minimal_translation` does not run out of fuel; every tree of the forest is
  `(translate g pt).mapAttr (RP.fix pl)` for a derivation `pt` of the repaired input; the final heap
  denotes exactly the trees of minimal total cost of that forest with accumulated cost fields (all of
  them / exactly one for one parse); the freed cells are exactly those that became unreachable, each
  once; the cost fields of the final heap add up.  `recovered_cost_trees`: every tree returned is
  `((translate g pt).mapAttr (RP.fix pl)).accum` for a derivation `pt` of the repaired input whose
  translation has minimal total cost in the forest.
  As without recovery, minimality is relative to the forest `make_parse` built (finding D9).
* `recovered_cost_parse_tables_of`: the same on the two node tables the harness prints.
* **`recovered_prune_outcome`** (transfer principle): the whole pipeline with the token numbers of the
  list is the pipeline with the token numbers `j - 1` (the setting of `accepted_cost_parse`) with the
  TERM attributes renamed — `PC.findMinimalTranslation` commutes with the renaming
  (`RC.findMinimalTranslation_rcH`): same root, cost, `parse_free` calls, cleared flags.
-/
namespace Yaep

/-! ## 1. the ambiguity flag -/

/-- **The ambiguity flag after a recovery is sound** (one parse or all parses, any grammar): if
`make_parse` sets `*ambiguous_p` on the final list of a recovering parse, the repaired input has two
different derivations — provided every completed situation that a set of `S` holds twice stands
for two derivations (`RC.DupsOK`; see `DupEx` for why `RP.SameSets` alone is not enough). -/
theorem recovered_amb_sound_of {g : Grammar} {la rmatch : Nat} {w : List Nat} {sfuel : Nat}
    (hok : (parseWithRecovery g la rmatch w sfuel).ok = true)
    {S : Array (Array Item)} (hS : RP.SameSets (parseWithRecovery g la rmatch w sfuel).pl S)
    (hdup : RC.DupsOK g (RP.word (parseWithRecovery g la rmatch w sfuel).pl) S)
    {one : Bool} {fuel : Nat} {res : MP.Result}
    (hm : MP.makeParse g S (RP.tokNums (parseWithRecovery g la rmatch w sfuel).pl) one fuel = .ok res)
    (hamb : res.amb = true) :
    ∃ pt1 pt2, PT.IsDerivation g (RP.word (parseWithRecovery g la rmatch w sfuel).pl) pt1 ∧
      PT.IsDerivation g (RP.word (parseWithRecovery g la rmatch w sfuel).pl) pt2 ∧ pt1 ≠ pt2 :=
  RC.final_amb_sound (RP.final_of_ok hok) hS hdup hm hamb

/-- … when no set of `S` repeats a situation -/
theorem recovered_amb_sound_nodup {g : Grammar} {la rmatch : Nat} {w : List Nat} {sfuel : Nat}
    (hok : (parseWithRecovery g la rmatch w sfuel).ok = true)
    {S : Array (Array Item)} (hS : RP.SameSets (parseWithRecovery g la rmatch w sfuel).pl S)
    (hnd : ∀ j, (S.getD j #[]).toList.Nodup)
    {one : Bool} {fuel : Nat} {res : MP.Result}
    (hm : MP.makeParse g S (RP.tokNums (parseWithRecovery g la rmatch w sfuel).pl) one fuel = .ok res)
    (hamb : res.amb = true) :
    ∃ pt1 pt2, PT.IsDerivation g (RP.word (parseWithRecovery g la rmatch w sfuel).pl) pt1 ∧
      PT.IsDerivation g (RP.word (parseWithRecovery g la rmatch w sfuel).pl) pt2 ∧ pt1 ≠ pt2 :=
  recovered_amb_sound_of hok hS (RC.dupsOK_of_nodup hnd) hm hamb

/-- … on the sets of the model's own final list: no hypothesis at all -/
theorem recovered_amb_sound_model {g : Grammar} {la rmatch : Nat} {w : List Nat} {sfuel : Nat}
    (hok : (parseWithRecovery g la rmatch w sfuel).ok = true)
    {one : Bool} {fuel : Nat} {res : MP.Result}
    (hm : MP.makeParse g (RP.sets (parseWithRecovery g la rmatch w sfuel).pl)
      (RP.tokNums (parseWithRecovery g la rmatch w sfuel).pl) one fuel = .ok res)
    (hamb : res.amb = true) :
    ∃ pt1 pt2, PT.IsDerivation g (RP.word (parseWithRecovery g la rmatch w sfuel).pl) pt1 ∧
      PT.IsDerivation g (RP.word (parseWithRecovery g la rmatch w sfuel).pl) pt2 ∧ pt1 ≠ pt2 :=
  recovered_amb_sound_of hok (RP.sameSets_sets _) (RC.dupsOK_sets hok _) hm hamb

/-- … in the form the judge checks it: the enumeration of the derivations of the repaired input has
at least two entries -/
theorem recovered_amb_sound_count {g : Grammar} (hcyc : ¬ Cyclic g) (hsr : g.symsInRange = true)
    {la rmatch : Nat} {w : List Nat} {sfuel : Nat}
    (hok : (parseWithRecovery g la rmatch w sfuel).ok = true)
    {S : Array (Array Item)} (hS : RP.SameSets (parseWithRecovery g la rmatch w sfuel).pl S)
    (hdup : RC.DupsOK g (RP.word (parseWithRecovery g la rmatch w sfuel).pl) S)
    {one : Bool} {fuel : Nat} {res : MP.Result}
    (hm : MP.makeParse g S (RP.tokNums (parseWithRecovery g la rmatch w sfuel).pl) one fuel = .ok res)
    (hamb : res.amb = true) :
    2 ≤ (derivations g (RP.word (parseWithRecovery g la rmatch w sfuel).pl)).length := by
  obtain ⟨p, q, h1, h2, hne⟩ := recovered_amb_sound_of hok hS hdup hm hamb
  exact (two_le_length_derivations_acyclic hcyc hsr).mpr ⟨p, q, hne, h1, h2⟩

/-- all derivations of the repaired input start with rule 0, unless the repair is the total loss
`error $eof` -/
theorem recovered_rootUniq {g : Grammar} (hwf : g.WF) {pl : List PSet}
    (hne : RP.word pl ≠ [g.errT, g.eofT]) : MP.RootUniq g (RP.word pl) :=
  RC.rootUniq_of_word hwf hne

/-- **A one-parse run after a recovery that leaves `*ambiguous_p` off returns the translation of
every derivation of the repaired input** (TERM attributes renamed to token numbers).  Hypotheses on
the grammar as without recovery (`WF`, `mpWF`, `symsInRange`: every accepted grammar); all
derivations of the repaired input start with the same rule (`recovered_rootUniq`). -/
theorem recovered_one_unambiguous_of {g : Grammar} (hwf : g.WF) (hg : g.mpWF = true)
    (hsr : g.symsInRange = true) {la rmatch : Nat} {w : List Nat} {sfuel : Nat}
    (hok : (parseWithRecovery g la rmatch w sfuel).ok = true)
    {S : Array (Array Item)} (hS : RP.SameSets (parseWithRecovery g la rmatch w sfuel).pl S)
    (hroot : MP.RootUniq g (RP.word (parseWithRecovery g la rmatch w sfuel).pl))
    {fuel : Nat} {res : MP.Result}
    (hm : MP.makeParse g S (RP.tokNums (parseWithRecovery g la rmatch w sfuel).pl) true fuel = .ok res)
    (hamb : res.amb = false) {pt : PT}
    (hpt : PT.IsDerivation g (RP.word (parseWithRecovery g la rmatch w sfuel).pl) pt) :
    denote (unfoldAt res.tab res.root) =
      [(translate g pt).mapAttr (RP.fix (parseWithRecovery g la rmatch w sfuel).pl)] ∧
    (denoteTab res.tab).getD res.root [] =
      [(translate g pt).mapAttr (RP.fix (parseWithRecovery g la rmatch w sfuel).pl)] :=
  RC.final_one_unamb (RP.final_of_ok hok) hS (MP.grOK_of_mpWF hg) hsr (RC.okDer_of_ok hwf hsr hok)
    hroot hm hamb hpt

/-- **The ambiguity flag after a recovery is complete (one parse)**: if the repaired input has two
derivations with different translations, `make_parse` sets `*ambiguous_p`. -/
theorem recovered_amb_complete_one_of {g : Grammar} (hwf : g.WF) (hg : g.mpWF = true)
    (hsr : g.symsInRange = true) {la rmatch : Nat} {w : List Nat} {sfuel : Nat}
    (hok : (parseWithRecovery g la rmatch w sfuel).ok = true)
    {S : Array (Array Item)} (hS : RP.SameSets (parseWithRecovery g la rmatch w sfuel).pl S)
    (hroot : MP.RootUniq g (RP.word (parseWithRecovery g la rmatch w sfuel).pl))
    {fuel : Nat} {res : MP.Result}
    (hm : MP.makeParse g S (RP.tokNums (parseWithRecovery g la rmatch w sfuel).pl) true fuel = .ok res)
    {pt1 pt2 : PT} (h1 : PT.IsDerivation g (RP.word (parseWithRecovery g la rmatch w sfuel).pl) pt1)
    (h2 : PT.IsDerivation g (RP.word (parseWithRecovery g la rmatch w sfuel).pl) pt2)
    (hne : translate g pt1 ≠ translate g pt2) : res.amb = true := by
  cases hamb : res.amb with
  | true => rfl
  | false =>
    exact absurd (RC.final_one_unamb_eq (RP.final_of_ok hok) hS (MP.grOK_of_mpWF hg) hsr
      (RC.okDer_of_ok hwf hsr hok) hroot hm hamb h1 h2) hne

/-- if the all-parses run on the final list leaves the flag off, so does the one-parse run -/
theorem recovered_all_unamb_one_of {g : Grammar} (hg : g.mpWF = true) (hcyc : ¬ Cyclic g)
    (hsr : g.symsInRange = true) {la rmatch : Nat} {w : List Nat} {sfuel : Nat}
    (hok : (parseWithRecovery g la rmatch w sfuel).ok = true)
    {S : Array (Array Item)} (hS : RP.SameSets (parseWithRecovery g la rmatch w sfuel).pl S)
    {fuel fuel1 : Nat} {res res1 : MP.Result}
    (hm : MP.makeParse g S (RP.tokNums (parseWithRecovery g la rmatch w sfuel).pl) false fuel = .ok res)
    (hamb : res.amb = false)
    (hm1 : MP.makeParse g S (RP.tokNums (parseWithRecovery g la rmatch w sfuel).pl) true fuel1 = .ok res1) :
    res1.amb = false :=
  RC.final_all_unamb_one (RP.final_of_ok hok) hS (MP.grOK_of_mpWF hg) hcyc hsr hm hamb hm1

/-- **The ambiguity flag after a recovery is complete (all parses)**. -/
theorem recovered_amb_complete_all_of {g : Grammar} (hwf : g.WF) (hg : g.mpWF = true)
    (hcyc : ¬ Cyclic g) (hsr : g.symsInRange = true) {la rmatch : Nat} {w : List Nat} {sfuel : Nat}
    (hok : (parseWithRecovery g la rmatch w sfuel).ok = true)
    {S : Array (Array Item)} (hS : RP.SameSets (parseWithRecovery g la rmatch w sfuel).pl S)
    (hroot : MP.RootUniq g (RP.word (parseWithRecovery g la rmatch w sfuel).pl))
    {fuel : Nat} {res : MP.Result}
    (hm : MP.makeParse g S (RP.tokNums (parseWithRecovery g la rmatch w sfuel).pl) false fuel = .ok res)
    {pt1 pt2 : PT} (h1 : PT.IsDerivation g (RP.word (parseWithRecovery g la rmatch w sfuel).pl) pt1)
    (h2 : PT.IsDerivation g (RP.word (parseWithRecovery g la rmatch w sfuel).pl) pt2)
    (hne : translate g pt1 ≠ translate g pt2) : res.amb = true := by
  cases hamb : res.amb with
  | true => rfl
  | false =>
    obtain ⟨res1, hm1⟩ := recovered_parse_one_total_of hwf hg hcyc hsr hok hS (Nat.le_refl _)
    have hamb1 := recovered_all_unamb_one_of hg hcyc hsr hok hS hm hamb hm1
    have := recovered_amb_complete_one_of hwf hg hsr hok hS hroot hm1 h1 h2 hne
    rw [hamb1] at this
    cases this

/-- an all-parses run after a recovery that leaves the flag off returns a forest all of whose trees
are the (renamed) translation of every derivation of the repaired input -/
theorem recovered_all_unambiguous_of {g : Grammar} (hwf : g.WF) (hg : g.mpWF = true)
    (hcyc : ¬ Cyclic g) (hsr : g.symsInRange = true) {la rmatch : Nat} {w : List Nat} {sfuel : Nat}
    (hok : (parseWithRecovery g la rmatch w sfuel).ok = true)
    {S : Array (Array Item)} (hS : RP.SameSets (parseWithRecovery g la rmatch w sfuel).pl S)
    (hroot : MP.RootUniq g (RP.word (parseWithRecovery g la rmatch w sfuel).pl))
    {fuel : Nat} {res : MP.Result}
    (hm : MP.makeParse g S (RP.tokNums (parseWithRecovery g la rmatch w sfuel).pl) false fuel = .ok res)
    (hamb : res.amb = false) {pt : PT}
    (hpt : PT.IsDerivation g (RP.word (parseWithRecovery g la rmatch w sfuel).pl) pt) :
    ∀ t ∈ (denoteTab res.tab).getD res.root [],
      t = (translate g pt).mapAttr (RP.fix (parseWithRecovery g la rmatch w sfuel).pl) := by
  intro t ht
  obtain ⟨pt', hpt', rfl⟩ := (recovered_parse_all_sound_of hg hcyc hsr hok hS hm).1 t ht
  obtain ⟨res1, hm1⟩ := recovered_parse_one_total_of hwf hg hcyc hsr hok hS (Nat.le_refl _)
  have hamb1 := recovered_all_unamb_one_of hg hcyc hsr hok hS hm hamb hm1
  rw [RC.final_one_unamb_eq (RP.final_of_ok hok) hS (MP.grOK_of_mpWF hg) hsr
    (RC.okDer_of_ok hwf hsr hok) hroot hm1 hamb1 hpt' hpt]

/-- **C05 after a recovery, for a run that returned `.ok`, one parse or all parses, every accepted
grammar**: the flag is set only if the repaired input has two different derivations (given the
multiplicity fact `RC.DupsOK` about `S`), and — unless the repair is the total loss `error $eof` —
it is set whenever the repaired input has two derivations with different translations. -/
theorem recovered_amb_flag {raw : RawGrammar} {g : Grammar} (h : readGrammar raw = .ok g)
    {la rmatch : Nat} {w : List Nat} {sfuel : Nat}
    (hok : (parseWithRecovery g la rmatch w sfuel).ok = true)
    {S : Array (Array Item)} (hS : RP.SameSets (parseWithRecovery g la rmatch w sfuel).pl S)
    {one : Bool} {fuel : Nat} {res : MP.Result}
    (hm : MP.makeParse g S (RP.tokNums (parseWithRecovery g la rmatch w sfuel).pl) one fuel = .ok res) :
    (RC.DupsOK g (RP.word (parseWithRecovery g la rmatch w sfuel).pl) S → res.amb = true →
      ∃ pt1 pt2, PT.IsDerivation g (RP.word (parseWithRecovery g la rmatch w sfuel).pl) pt1 ∧
        PT.IsDerivation g (RP.word (parseWithRecovery g la rmatch w sfuel).pl) pt2 ∧ pt1 ≠ pt2) ∧
    (RP.word (parseWithRecovery g la rmatch w sfuel).pl ≠ [g.errT, g.eofT] →
      ∀ pt1 pt2, PT.IsDerivation g (RP.word (parseWithRecovery g la rmatch w sfuel).pl) pt1 →
        PT.IsDerivation g (RP.word (parseWithRecovery g la rmatch w sfuel).pl) pt2 →
        translate g pt1 ≠ translate g pt2 → res.amb = true) := by
  have hwf := readGrammar_wf h
  refine ⟨fun hdup hamb => recovered_amb_sound_of hok hS hdup hm hamb, ?_⟩
  intro hne pt1 pt2 h1 h2 hd
  cases one with
  | true =>
    exact recovered_amb_complete_one_of hwf (readGrammar_mpWF h) (readGrammar_symsInRange h) hok hS
      (recovered_rootUniq hwf hne) hm h1 h2 hd
  | false =>
    exact recovered_amb_complete_all_of hwf (readGrammar_mpWF h) (readGrammar_semOK h).1
      (readGrammar_symsInRange h) hok hS (recovered_rootUniq hwf hne) hm h1 h2 hd

/-- **C05 after a recovery, one parse, with the existence of the runs**: for every grammar
`readGrammar` accepts, every token sequence, lookahead level and `recovery_match`, with enough
search fuel the recovering parse succeeds, the one-parse run of `make_parse` on its final list
(sets `S` in any order, fuel `MP.mpFuel`) returns `.ok res`, and `res.amb` is sound (given
`RC.DupsOK`) and complete (unless the repair is `error $eof`). -/
theorem recovered_amb_flag_one {raw : RawGrammar} {g : Grammar} (h : readGrammar raw = .ok g)
    (la rmatch : Nat) (w : List Nat) :
    ∃ F, ∀ sfuel, F ≤ sfuel →
      (parseWithRecovery g la rmatch w sfuel).ok = true ∧
      ∀ S, RP.SameSets (parseWithRecovery g la rmatch w sfuel).pl S → ∀ fuel,
        MP.mpFuel g (RP.word (parseWithRecovery g la rmatch w sfuel).pl).length ≤ fuel →
        ∃ res,
          MP.makeParse g S (RP.tokNums (parseWithRecovery g la rmatch w sfuel).pl) true fuel = .ok res ∧
          (RC.DupsOK g (RP.word (parseWithRecovery g la rmatch w sfuel).pl) S → res.amb = true →
            ∃ pt1 pt2, PT.IsDerivation g (RP.word (parseWithRecovery g la rmatch w sfuel).pl) pt1 ∧
              PT.IsDerivation g (RP.word (parseWithRecovery g la rmatch w sfuel).pl) pt2 ∧ pt1 ≠ pt2) ∧
          (RP.word (parseWithRecovery g la rmatch w sfuel).pl ≠ [g.errT, g.eofT] →
            ∀ pt1 pt2, PT.IsDerivation g (RP.word (parseWithRecovery g la rmatch w sfuel).pl) pt1 →
              PT.IsDerivation g (RP.word (parseWithRecovery g la rmatch w sfuel).pl) pt2 →
              translate g pt1 ≠ translate g pt2 → res.amb = true) := by
  have hwf := readGrammar_wf h
  refine ⟨recoveryFuel (w.length + 1) rmatch, fun sfuel hf => ?_⟩
  have hok := parseWithRecovery_ok (readGrammar_hasTotalLoss h) la rmatch w hf
  refine ⟨hok, ?_⟩
  intro S hS fuel hfuel
  obtain ⟨res, hm⟩ := recovered_parse_one_total_of hwf (readGrammar_mpWF h) (readGrammar_semOK h).1
    (readGrammar_symsInRange h) hok hS hfuel
  exact ⟨res, hm, recovered_amb_flag h hok hS hm⟩

/-- **C05 after a recovery, all parses, with the existence of the runs** (fuel `MP.mpAllFuelC`) -/
theorem recovered_amb_flag_all {raw : RawGrammar} {g : Grammar} (h : readGrammar raw = .ok g)
    (la rmatch : Nat) (w : List Nat) :
    ∃ F, ∀ sfuel, F ≤ sfuel →
      (parseWithRecovery g la rmatch w sfuel).ok = true ∧
      ∀ S, RP.SameSets (parseWithRecovery g la rmatch w sfuel).pl S → ∀ fuel,
        MP.mpAllFuelC g (RP.word (parseWithRecovery g la rmatch w sfuel).pl).length
          (MP.plMaxSize S) ≤ fuel →
        ∃ res,
          MP.makeParse g S (RP.tokNums (parseWithRecovery g la rmatch w sfuel).pl) false fuel = .ok res ∧
          (RC.DupsOK g (RP.word (parseWithRecovery g la rmatch w sfuel).pl) S → res.amb = true →
            ∃ pt1 pt2, PT.IsDerivation g (RP.word (parseWithRecovery g la rmatch w sfuel).pl) pt1 ∧
              PT.IsDerivation g (RP.word (parseWithRecovery g la rmatch w sfuel).pl) pt2 ∧ pt1 ≠ pt2) ∧
          (RP.word (parseWithRecovery g la rmatch w sfuel).pl ≠ [g.errT, g.eofT] →
            ∀ pt1 pt2, PT.IsDerivation g (RP.word (parseWithRecovery g la rmatch w sfuel).pl) pt1 →
              PT.IsDerivation g (RP.word (parseWithRecovery g la rmatch w sfuel).pl) pt2 →
              translate g pt1 ≠ translate g pt2 → res.amb = true) := by
  have hwf := readGrammar_wf h
  refine ⟨recoveryFuel (w.length + 1) rmatch, fun sfuel hf => ?_⟩
  have hok := parseWithRecovery_ok (readGrammar_hasTotalLoss h) la rmatch w hf
  refine ⟨hok, ?_⟩
  intro S hS fuel hfuel
  obtain ⟨res, hm⟩ := recovered_parse_all_total_of hwf (readGrammar_mpWF h) (readGrammar_semOK h).1
    (readGrammar_symsInRange h) hok hS hfuel
  exact ⟨res, hm, recovered_amb_flag h hok hS hm⟩

/-! ## 2. the cost flag -/

/-- **The cost-flag parse after a recovery** (grammar hypotheses explicit): if the all-parses run of
the model of `make_parse` on the final list (sets `S` in any order, token numbers of the list) ends
with `.ok res`, its final machine state `s` and result cell `r` export to `res`, the tree memory is
a `PC.WfHeap`, and `RC.CostSpec` holds: `find_minimal_translation (r)` (model) never runs out of
fuel, every tree of the forest is the renamed translation of a derivation of the repaired input,
the final heap denotes exactly the minimal-cost trees of the forest with accumulated cost fields
(all / one), the freed cells are exactly the cells that became unreachable (each once), and the
cost fields of the final heap add up. -/
theorem recovered_cost_parse_of {g : Grammar} (hg : g.mpWF = true) (hcyc : ¬ Cyclic g)
    (hsr : g.symsInRange = true) {la rmatch : Nat} {w : List Nat} {sfuel : Nat}
    (hok : (parseWithRecovery g la rmatch w sfuel).ok = true)
    {S : Array (Array Item)} (hS : RP.SameSets (parseWithRecovery g la rmatch w sfuel).pl S)
    {fuel : Nat} {res : MP.Result}
    (hm : MP.makeParse g S (RP.tokNums (parseWithRecovery g la rmatch w sfuel).pl) false fuel = .ok res) :
    ∃ s r, MP.makeParseSt (MP.mkCtx g S (RP.tokNums (parseWithRecovery g la rmatch w sfuel).pl) false)
        fuel = some s ∧
      s.bad = false ∧ s.result = some r ∧
      MP.exportTable s.heap r = some (res.tab, res.root) ∧
      (∃ rk hd, PC.WfHeap (PC.ofHeap s.heap) rk hd ∧ r < (PC.ofHeap s.heap).size ∧ hd r = r) ∧
      RC.CostSpec g (RP.word (parseWithRecovery g la rmatch w sfuel).pl)
        (RP.fix (parseWithRecovery g la rmatch w sfuel).pl) s r := by
  obtain ⟨s, r, h1, h2, h3, hx⟩ := makeParse_ok_state hm
  obtain ⟨h5, h6⟩ := RC.final_cost_spec (RP.final_of_ok hok) hS (MP.grOK_of_mpWF hg) hcyc hsr h1 h2 h3
  exact ⟨s, r, h1, h2, h3, hx, h5, h6⟩

/-- the same from the machine state: a finished, unflagged all-parses run with a result cell — its
outcome is then `.ok` (the exporter meets no cycle) -/
theorem recovered_cost_parse_state_of {g : Grammar} (hg : g.mpWF = true) (hcyc : ¬ Cyclic g)
    (hsr : g.symsInRange = true) {la rmatch : Nat} {w : List Nat} {sfuel : Nat}
    (hok : (parseWithRecovery g la rmatch w sfuel).ok = true)
    {S : Array (Array Item)} (hS : RP.SameSets (parseWithRecovery g la rmatch w sfuel).pl S)
    {fuel : Nat} {s : MP.St} {r : Nat}
    (hm : MP.makeParseSt (MP.mkCtx g S (RP.tokNums (parseWithRecovery g la rmatch w sfuel).pl) false)
      fuel = some s) (hb : s.bad = false) (hres : s.result = some r) :
    (∃ res, MP.makeParse g S (RP.tokNums (parseWithRecovery g la rmatch w sfuel).pl) false fuel = .ok res ∧
      MP.exportTable s.heap r = some (res.tab, res.root)) ∧
    (∃ rk hd, PC.WfHeap (PC.ofHeap s.heap) rk hd ∧ r < (PC.ofHeap s.heap).size ∧ hd r = r) ∧
    RC.CostSpec g (RP.word (parseWithRecovery g la rmatch w sfuel).pl)
      (RP.fix (parseWithRecovery g la rmatch w sfuel).pl) s r := by
  obtain ⟨res, h1, h2, _⟩ := RC.final_ok_of_state (RP.final_of_ok hok) hS (MP.grOK_of_mpWF hg) hcyc hsr
    hm hb hres
  obtain ⟨h5, h6⟩ := RC.final_cost_spec (RP.final_of_ok hok) hS (MP.grOK_of_mpWF hg) hcyc hsr hm hb hres
  exact ⟨⟨res, h1, h2⟩, h5, h6⟩

/-- **C04 for the models after a recovery, end to end, no hypothesis left**: for every grammar
`readGrammar` accepts, every token sequence `w`, lookahead level and `recovery_match`, with enough
search fuel: the recovering parse succeeds, and for every `S` holding the sets of its final list and
fuel `MP.mpAllFuelC` the all-parses run of the model of `make_parse` ends with `.ok res`; the final
machine state `s`, result cell `r` export to `res`, the tree memory is a `PC.WfHeap`, and
`RC.CostSpec` holds (see `recovered_cost_parse_of`). -/
theorem recovered_cost_parse {raw : RawGrammar} {g : Grammar} (h : readGrammar raw = .ok g)
    (la rmatch : Nat) (w : List Nat) :
    ∃ F, ∀ sfuel, F ≤ sfuel →
      (parseWithRecovery g la rmatch w sfuel).ok = true ∧
      ∀ S, RP.SameSets (parseWithRecovery g la rmatch w sfuel).pl S → ∀ fuel,
        MP.mpAllFuelC g (RP.word (parseWithRecovery g la rmatch w sfuel).pl).length
          (MP.plMaxSize S) ≤ fuel →
        ∃ res s r,
          MP.makeParse g S (RP.tokNums (parseWithRecovery g la rmatch w sfuel).pl) false fuel = .ok res ∧
          MP.makeParseSt (MP.mkCtx g S (RP.tokNums (parseWithRecovery g la rmatch w sfuel).pl) false)
            fuel = some s ∧
          s.bad = false ∧ s.result = some r ∧
          MP.exportTable s.heap r = some (res.tab, res.root) ∧
          (∃ rk hd, PC.WfHeap (PC.ofHeap s.heap) rk hd ∧ r < (PC.ofHeap s.heap).size ∧ hd r = r) ∧
          RC.CostSpec g (RP.word (parseWithRecovery g la rmatch w sfuel).pl)
            (RP.fix (parseWithRecovery g la rmatch w sfuel).pl) s r := by
  have hwf := readGrammar_wf h
  refine ⟨recoveryFuel (w.length + 1) rmatch, fun sfuel hf => ?_⟩
  have hok := parseWithRecovery_ok (readGrammar_hasTotalLoss h) la rmatch w hf
  refine ⟨hok, ?_⟩
  intro S hS fuel hfuel
  obtain ⟨res, hm⟩ := recovered_parse_all_total_of hwf (readGrammar_mpWF h) (readGrammar_semOK h).1
    (readGrammar_symsInRange h) hok hS hfuel
  obtain ⟨s, r, h1, h2, h3, h4, h5, h6⟩ := recovered_cost_parse_of (readGrammar_mpWF h)
    (readGrammar_semOK h).1 (readGrammar_symsInRange h) hok hS hm
  exact ⟨res, s, r, hm, h1, h2, h3, h4, h5, h6⟩

/-- what `RC.CostSpec` says about the trees returned in all-parses mode: each is the translation of
a derivation of the repaired input, TERM attributes renamed to token numbers, cost fields
accumulated, and its total cost is minimal among the trees of the forest `make_parse` built -/
theorem recovered_cost_trees {g : Grammar} {wd : List Nat} {fx : Int → Int} {s : MP.St} {r : Nat}
    (hspec : RC.CostSpec g wd fx s r) (free : Bool) (nameBlk : Nat → Nat) {fuel' f : Nat}
    (hf : s.heap.size ≤ fuel') (hfu : s.heap.size ≤ f) :
    ∀ t' ∈ denote (PC.unfoldC
        (PC.findMinimalTranslation fuel' (PC.ofHeap s.heap) r false free nameBlk s.nilUsed s.errUsed).heap f
        (PC.findMinimalTranslation fuel' (PC.ofHeap s.heap) r false free nameBlk s.nilUsed s.errUsed).root),
      ∃ pt, PT.IsDerivation g wd pt ∧ t' = ((translate g pt).mapAttr fx).accum ∧
        ((translate g pt).mapAttr fx).accum = ((translate g pt).accum).mapAttr fx ∧
        ∀ u ∈ denote (PC.unfoldC (PC.ofHeap s.heap) f r), (translate g pt).totalCost ≤ u.totalCost := by
  intro t' ht'
  obtain ⟨_, h2, h3, _⟩ := hspec free nameBlk fuel' f hf hfu
  obtain ⟨t, ⟨htm, hmin⟩, rfl⟩ := (h3 t').mp ht'
  obtain ⟨pt, hpt, rfl⟩ := h2 t htm
  refine ⟨pt, hpt, rfl, RC.accum_mapAttr fx _, ?_⟩
  intro u hu
  have := hmin u hu
  rw [RC.totalCost_mapAttr] at this
  exact this

/-- **the same on what the harness prints**: `res.tab`, `res.root` the node table of the forest
`make_parse` built on the final list, `tabO`, `rO` the table of the tree `find_minimal_translation`
returns: the output table denotes exactly the trees of `prune` (`Spec/Forest.lean`, C04) applied to
the unfolded input table — the same list for one parse —, and every tree the input table denotes is
the renamed translation of a derivation of the repaired input -/
theorem recovered_cost_parse_tables_of {g : Grammar} (hg : g.mpWF = true) (hcyc : ¬ Cyclic g)
    (hsr : g.symsInRange = true) {la rmatch : Nat} {w : List Nat} {sfuel : Nat}
    (hok : (parseWithRecovery g la rmatch w sfuel).ok = true)
    {S : Array (Array Item)} (hS : RP.SameSets (parseWithRecovery g la rmatch w sfuel).pl S)
    {fuel : Nat} {res : MP.Result}
    (hm : MP.makeParse g S (RP.tokNums (parseWithRecovery g la rmatch w sfuel).pl) false fuel = .ok res) :
    ∃ s r, MP.makeParseSt (MP.mkCtx g S (RP.tokNums (parseWithRecovery g la rmatch w sfuel).pl) false)
        fuel = some s ∧ s.result = some r ∧
      (∀ t ∈ (denoteTab res.tab).getD res.root [],
        ∃ pt, PT.IsDerivation g (RP.word (parseWithRecovery g la rmatch w sfuel).pl) pt ∧
          t = (translate g pt).mapAttr (RP.fix (parseWithRecovery g la rmatch w sfuel).pl)) ∧
      ∀ (one free : Bool) (nameBlk : Nat → Nat) (fuel' : Nat), s.heap.size ≤ fuel' →
        ∀ (tabO : Array NodeRec) (rO : Nat),
          MP.exportTable (PC.toHeap (PC.findMinimalTranslation fuel' (PC.ofHeap s.heap) r one free nameBlk
              s.nilUsed s.errUsed).heap)
            (PC.findMinimalTranslation fuel' (PC.ofHeap s.heap) r one free nameBlk
              s.nilUsed s.errUsed).root = some (tabO, rO) →
          (∀ t, t ∈ (denoteTab tabO).getD rO [] ↔
            t ∈ denote (prune (!one) (unfoldAt res.tab res.root)).1) ∧
          (one = true → (denoteTab tabO).getD rO [] =
            denote (prune (!one) (unfoldAt res.tab res.root)).1) :=
  RC.final_cost_tables (RP.final_of_ok hok) hS (MP.grOK_of_mpWF hg) hcyc hsr hm

/-- **Transfer principle for the cost-flag pipeline.**  `make_parse` (all parses) followed by
`find_minimal_translation` on the final list with its token numbers `pl_toks` is the same pipeline
on the same sets with the token numbers `j - 1` of a parse list without recovery (`RP.idToks`, the
setting of `accepted_cost_parse` / `CostParseSpec`), with the attribute of every TERM cell renamed
by `RP.fix`: the final machine state `s0` of the reference run has the same result cell, the tree
memory of the recovered run is the renamed tree memory (`RC.rcH`), `find_minimal_translation` returns
the renamed heap and the same root, cost, `parse_free` calls, cleared flags (`RC.resLift` changes
the field `heap` only), and the trees denoted before and after the pruning are the renamed trees. -/
theorem recovered_prune_outcome {g : Grammar} (hg : g.mpWF = true) (hcyc : ¬ Cyclic g)
    (hsr : g.symsInRange = true) {la rmatch : Nat} {w : List Nat} {sfuel : Nat}
    (hok : (parseWithRecovery g la rmatch w sfuel).ok = true)
    {S : Array (Array Item)} (hS : RP.SameSets (parseWithRecovery g la rmatch w sfuel).pl S)
    {fuel : Nat} {s : MP.St} {r : Nat}
    (hm : MP.makeParseSt (MP.mkCtx g S (RP.tokNums (parseWithRecovery g la rmatch w sfuel).pl) false)
      fuel = some s) (hb : s.bad = false) (hres : s.result = some r) :
    ∃ s0, MP.makeParseSt (MP.mkCtx g S (RP.idToks (parseWithRecovery g la rmatch w sfuel).pl.length) false)
        fuel = some s0 ∧ s0.bad = false ∧ s0.result = some r ∧
      PC.ofHeap s.heap = RC.rcH (RP.fix (parseWithRecovery g la rmatch w sfuel).pl) (PC.ofHeap s0.heap) ∧
      (∀ (fuel' : Nat) (one free : Bool) (nameBlk : Nat → Nat),
        PC.findMinimalTranslation fuel' (PC.ofHeap s.heap) r one free nameBlk s.nilUsed s.errUsed =
          RC.resLift (RP.fix (parseWithRecovery g la rmatch w sfuel).pl)
            (PC.findMinimalTranslation fuel' (PC.ofHeap s0.heap) r one free nameBlk s0.nilUsed s0.errUsed)) ∧
      (∀ (f : Nat), denote (PC.unfoldC (PC.ofHeap s.heap) f r) =
          (denote (PC.unfoldC (PC.ofHeap s0.heap) f r)).map
            (Tree.mapAttr (RP.fix (parseWithRecovery g la rmatch w sfuel).pl))) ∧
      (∀ (fuel' f : Nat) (one free : Bool) (nameBlk : Nat → Nat),
        denote (PC.unfoldC
            (PC.findMinimalTranslation fuel' (PC.ofHeap s.heap) r one free nameBlk s.nilUsed s.errUsed).heap f
            (PC.findMinimalTranslation fuel' (PC.ofHeap s.heap) r one free nameBlk s.nilUsed s.errUsed).root) =
          (denote (PC.unfoldC
            (PC.findMinimalTranslation fuel' (PC.ofHeap s0.heap) r one free nameBlk s0.nilUsed s0.errUsed).heap f
            (PC.findMinimalTranslation fuel' (PC.ofHeap s0.heap) r one free nameBlk s0.nilUsed s0.errUsed).root)).map
            (Tree.mapAttr (RP.fix (parseWithRecovery g la rmatch w sfuel).pl))) :=
  RC.final_prune_transfer (RP.final_of_ok hok) hS (MP.grOK_of_mpWF hg) hcyc hsr hm hb hres

/-! ## non-vacuity and counterexamples -/

/-! ### the finding: total loss, the start symbol derives `error` -/
namespace TotalLossEx

/-- `S : 'a' # p(0) | error # x` as the callbacks deliver it -/
def raw : RawGrammar :=
  ⟨[("a", 97)],
   [⟨"S", ["a"], some "p", 0, some [0]⟩,
    ⟨"S", ["error"], some "x", 0, some []⟩], false⟩

/-- terminals: `a` 0, `error` 1, `$eof` 2; nonterminals: `S` 0, `$S` 1 -/
def g : Grammar :=
  { rules := [
      { lhs := 1, rhs := [.n 0, .t 2], transLen := 1, order := [some 0, none] },
      { lhs := 0, rhs := [.t 0], anode := some "p", transLen := 1, order := [some 0] },
      { lhs := 0, rhs := [.t 1], anode := some "x", transLen := 0, order := [none] },
      { lhs := 1, rhs := [.t 1, .t 2], order := [none, none] } ],
    termNames := ["a", "error", "$eof"], termCodes := [97, -2, -1],
    ntNames := ["S", "$S"], errT := 1, eofT := 2, axiomN := 1, startN := 0 }

theorem raw_ok : readGrammar raw = .ok g := by rfl

/-- the input `a a` (user tokens): the second `a` is a syntax error, the recovery ends in the total
loss: the repaired input is `error $eof` -/
theorem run : (parseWithRecovery g 1 1 [0, 0] 100).ok = true ∧
    RP.word (parseWithRecovery g 1 1 [0, 0] 100).pl = [g.errT, g.eofT] ∧
    RP.pairs (parseWithRecovery g 1 1 [0, 0] 100).pl = [(1, none), (2, some 2)] ∧
    (parseWithRecovery g 1 1 [0, 0] 100).calls = [(1, 0, 2)] := by decide

/-- the two derivations of the repaired input and their translations -/
theorem ders :
    PT.IsDerivation g [g.errT, g.eofT] (.node 0 [.node 2 [.leaf 1 0], .leaf 2 1]) ∧
    PT.IsDerivation g [g.errT, g.eofT] (.node 3 [.leaf 1 0, .leaf 2 1]) ∧
    translate g (.node 0 [.node 2 [.leaf 1 0], .leaf 2 1]) = .anode "x" 0 [] ∧
    translate g (.node 3 [.leaf 1 0, .leaf 2 1]) = .nil :=
  ⟨.node (r := 0) rfl rfl (.cons (.node (r := 2) rfl rfl (.cons (.leaf rfl) .nil)) (.cons (.leaf rfl) .nil)),
   .node (r := 3) rfl rfl (.cons (.leaf rfl) (.cons (.leaf rfl) .nil)), by rfl, by rfl⟩

/-- both modes: the flag stays off and the tree returned is `nil` -/
theorem flag_off :
    (∃ res, MP.makeParse g (RP.sets (parseWithRecovery g 1 1 [0, 0] 100).pl)
        (RP.tokNums (parseWithRecovery g 1 1 [0, 0] 100).pl) true 100 = .ok res ∧
      res.amb = false ∧ res.tab = #[.nil] ∧ res.root = 0) ∧
    (∃ res, MP.makeParse g (RP.sets (parseWithRecovery g 1 1 [0, 0] 100).pl)
        (RP.tokNums (parseWithRecovery g 1 1 [0, 0] 100).pl) false 100 = .ok res ∧
      res.amb = false ∧ res.tab = #[.nil] ∧ res.root = 0) :=
  ⟨⟨_, rfl, rfl, rfl, rfl⟩, ⟨_, rfl, rfl, rfl, rfl⟩⟩


/-- **the finding**: the repaired input has two derivations with different translations, both runs
of `make_parse` succeed, the flag is off — the hypothesis "the repair is not `error $eof`" of
`recovered_amb_flag` (i.e. `MP.RootUniq`) cannot be dropped -/
theorem not_complete :
    ∃ res pt1 pt2, MP.makeParse g (RP.sets (parseWithRecovery g 1 1 [0, 0] 100).pl)
        (RP.tokNums (parseWithRecovery g 1 1 [0, 0] 100).pl) true 100 = .ok res ∧
      PT.IsDerivation g (RP.word (parseWithRecovery g 1 1 [0, 0] 100).pl) pt1 ∧
      PT.IsDerivation g (RP.word (parseWithRecovery g 1 1 [0, 0] 100).pl) pt2 ∧
      translate g pt1 ≠ translate g pt2 ∧ res.amb = false := by
  obtain ⟨res, hm, ha, _⟩ := flag_off.1
  refine ⟨res, .node 0 [.node 2 [.leaf 1 0], .leaf 2 1], .node 3 [.leaf 1 0, .leaf 2 1], hm, ?_, ?_,
    ?_, ha⟩
  · rw [run.2.1]; exact ders.1
  · rw [run.2.1]; exact ders.2.1
  · rw [ders.2.2.1, ders.2.2.2]; intro h; cases h

/-- soundness still applies (vacuously: the flag is off); the capstones apply -/
example := recovered_amb_flag raw_ok run.1 (RP.sameSets_sets _) flag_off.1.choose_spec.1
example := recovered_amb_flag_one raw_ok 1 1 [0, 0]

end TotalLossEx

/-! ### `RP.SameSets` allows multiplicities that set the flag -/
namespace DupEx

/-- the sets of `Rec.sets` with the completed situation `S : error 'b' .` of set 2 repeated -/
def sets : Array (Array Item) := #[
  #[⟨3, 0, 0⟩, ⟨0, 0, 0⟩, ⟨2, 0, 0⟩, ⟨1, 0, 0⟩],
  #[⟨3, 1, 0⟩, ⟨2, 1, 0⟩],
  #[⟨2, 2, 0⟩, ⟨0, 1, 0⟩, ⟨2, 2, 0⟩],
  #[⟨0, 2, 0⟩]]

theorem same : RP.SameSets (parseWithRecovery Rec.g 1 1 RecEx.w 100).pl sets :=
  RP.sameSets_of_check (by decide)

/-- both modes set the flag … -/
theorem flag_on :
    (∃ res, MP.makeParse Rec.g sets (RP.tokNums (parseWithRecovery Rec.g 1 1 RecEx.w 100).pl) true 100 =
        .ok res ∧ res.amb = true) ∧
    (∃ res, MP.makeParse Rec.g sets (RP.tokNums (parseWithRecovery Rec.g 1 1 RecEx.w 100).pl) false 100 =
        .ok res ∧ res.amb = true) := by
  rw [RecEx.run.2.2.2.2]
  exact ⟨⟨_, rfl, rfl⟩, ⟨_, rfl, rfl⟩⟩

/-- … but the repaired input `error b $eof` has one derivation only -/
theorem one_derivation :
    ¬ ∃ pt1 pt2, PT.IsDerivation Rec.g (RP.word (parseWithRecovery Rec.g 1 1 RecEx.w 100).pl) pt1 ∧
      PT.IsDerivation Rec.g (RP.word (parseWithRecovery Rec.g 1 1 RecEx.w 100).pl) pt2 ∧ pt1 ≠ pt2 := by
  rw [RecEx.run.2.2.2.1]
  intro ⟨p, q, h1, h2, hne⟩
  have hcyc : ¬ Cyclic Rec.g := fun hc => loopSet_ne_nil_of_cyclic Rec.g hc (by decide)
  have := (two_le_length_derivations_acyclic (toks := [2, 1, 3]) hcyc (by decide)).mpr ⟨p, q, hne, h1, h2⟩
  revert this
  decide


/-- **`RP.SameSets` alone does not give soundness of the flag**: `S` holds the sets of the final list
(with a completed situation twice), both runs set the flag, the repaired input is unambiguous -/
theorem not_sound :
    ∃ res, MP.makeParse Rec.g sets (RP.tokNums (parseWithRecovery Rec.g 1 1 RecEx.w 100).pl) true 100 =
        .ok res ∧ res.amb = true ∧
      ¬ ∃ pt1 pt2, PT.IsDerivation Rec.g (RP.word (parseWithRecovery Rec.g 1 1 RecEx.w 100).pl) pt1 ∧
        PT.IsDerivation Rec.g (RP.word (parseWithRecovery Rec.g 1 1 RecEx.w 100).pl) pt2 ∧ pt1 ≠ pt2 := by
  obtain ⟨res, hm, ha⟩ := flag_on.1
  exact ⟨res, hm, ha, one_derivation⟩

/-- so `RC.DupsOK` fails for these sets -/
example : ¬ RC.DupsOK Rec.g (RP.word (parseWithRecovery Rec.g 1 1 RecEx.w 100).pl) sets := by
  intro hd
  obtain ⟨res, hm, ha, hn⟩ := not_sound
  exact hn (recovered_amb_sound_of RecEx.run.1 same hd hm ha)

end DupEx

/-! ### an ambiguous grammar with costs after a recovery -/
namespace CostEx

/-- `S : S S # c 1 (0 1) | S S # d 2 (0 1) | 'a' # 0 | error 'b' # e 3 (1)` -/
def raw : RawGrammar :=
  ⟨[("a", 97), ("b", 98)],
   [⟨"S", ["S", "S"], some "c", 1, some [0, 1]⟩,
    ⟨"S", ["S", "S"], some "d", 2, some [0, 1]⟩,
    ⟨"S", ["a"], none, 0, some [0]⟩,
    ⟨"S", ["error", "b"], some "e", 3, some [1]⟩], false⟩

/-- terminals: `a` 0, `b` 1, `error` 2, `$eof` 3; nonterminals: `S` 0, `$S` 1 -/
def g : Grammar :=
  { rules := [
      { lhs := 1, rhs := [.n 0, .t 3], transLen := 1, order := [some 0, none] },
      { lhs := 0, rhs := [.n 0, .n 0], anode := some "c", cost := 1, transLen := 2, order := [some 0, some 1] },
      { lhs := 0, rhs := [.n 0, .n 0], anode := some "d", cost := 2, transLen := 2, order := [some 0, some 1] },
      { lhs := 0, rhs := [.t 0], transLen := 1, order := [some 0] },
      { lhs := 0, rhs := [.t 2, .t 1], anode := some "e", cost := 3, transLen := 1, order := [none, some 0] },
      { lhs := 1, rhs := [.t 2, .t 3], order := [none, none] } ],
    termNames := ["a", "b", "error", "$eof"], termCodes := [97, 98, -2, -1],
    ntNames := ["S", "$S"], errT := 2, eofT := 3, axiomN := 1, startN := 0 }

theorem raw_ok : readGrammar raw = .ok g := by rfl

/-- the input `b a a`: `b` is a syntax error at token 0; `error` is shifted and `b` (token 0) kept:
the repaired input is `error b a a $eof`, nothing is ignored; list position `j` of the repaired
input carries the token number `j - 1` -/
theorem run : (parseWithRecovery g 1 1 [1, 0, 0] 100).ok = true ∧
    (parseWithRecovery g 1 1 [1, 0, 0] 100).calls = [(0, 0, 0)] ∧
    RP.word (parseWithRecovery g 1 1 [1, 0, 0] 100).pl = [2, 1, 0, 0, 3] ∧
    RP.tokNums (parseWithRecovery g 1 1 [1, 0, 0] 100).pl = #[-1, -1, 0, 1, 2, 3] := by decide


theorem acyclic : ¬ Cyclic g := fun hc => loopSet_ne_nil_of_cyclic g hc (by decide)

/-- the all-parses run of `make_parse` on the final list succeeds (and sets the ambiguity flag) -/
theorem mp_ok : ∃ res, MP.makeParse g (RP.sets (parseWithRecovery g 1 1 [1, 0, 0] 100).pl)
    (RP.tokNums (parseWithRecovery g 1 1 [1, 0, 0] 100).pl) false 200 = .ok res ∧ res.amb = true :=
  ⟨_, rfl, rfl⟩

/-- `recovered_cost_parse_of` applies: `WfHeap` and the whole `RC.CostSpec` for this run -/
example : ∃ s r, MP.makeParseSt (MP.mkCtx g (RP.sets (parseWithRecovery g 1 1 [1, 0, 0] 100).pl)
      (RP.tokNums (parseWithRecovery g 1 1 [1, 0, 0] 100).pl) false) 200 = some s ∧
    s.result = some r ∧
    (∃ rk hd, PC.WfHeap (PC.ofHeap s.heap) rk hd ∧ r < (PC.ofHeap s.heap).size ∧ hd r = r) ∧
    RC.CostSpec g [2, 1, 0, 0, 3] (RP.fix (parseWithRecovery g 1 1 [1, 0, 0] 100).pl) s r := by
  obtain ⟨res, hm, _⟩ := mp_ok
  obtain ⟨s, r, h1, _, h3, _, h5, h6⟩ :=
    recovered_cost_parse_of (by decide) acyclic (by decide) run.1 (RP.sameSets_sets _) hm
  rw [run.2.2.1] at h6
  exact ⟨s, r, h1, h3, h5, h6⟩

/-- the tree memory the all-parses run leaves behind; the TERM cells 13, 14, 16 carry the token
numbers 2, 1, 0 (list positions 4, 3, 2) -/
def H : Array PC.Cell := #[
  .nil, .err, .anode "$result" 0 #[some 22],
  .anode "c" 1 #[some 25, some 13, none], .anode "d" 2 #[some 19, some 13, none],
  .alt 4 (some 6), .alt 3 none, .anode "d" 2 #[some 15, some 11, none],
  .alt 7 (some 5), .anode "c" 1 #[some 14, some 13, none],
  .anode "d" 2 #[some 14, some 13, none], .alt 10 (some 12), .alt 9 none,
  .term 97 2, .term 97 1, .anode "e" 3 #[some 16, none], .term 98 0,
  .anode "c" 1 #[some 15, some 14, none], .anode "d" 2 #[some 15, some 14, none],
  .alt 18 (some 20), .alt 17 none, .anode "c" 1 #[some 15, some 23, none],
  .alt 21 (some 8), .alt 10 (some 24), .alt 9 none,
  .alt 18 (some 26), .alt 17 none]

theorem H_is_make_parse_list :
    (MP.makeParseSt (MP.mkCtx g (RP.sets (parseWithRecovery g 1 1 [1, 0, 0] 100).pl)
      (RP.tokNums (parseWithRecovery g 1 1 [1, 0, 0] 100).pl) false) 200).map
      (fun s => (s.heap.toList.map PC.ofMNode, s.result)) = some (H.toList, some 22) := by
  rfl

theorem H_is_make_parse :
    ∃ s, MP.makeParseSt (MP.mkCtx g (RP.sets (parseWithRecovery g 1 1 [1, 0, 0] 100).pl)
      (RP.tokNums (parseWithRecovery g 1 1 [1, 0, 0] 100).pl) false) 200 = some s ∧
      PC.ofHeap s.heap = H ∧ s.result = some 22 := by
  have h := H_is_make_parse_list
  cases hs : MP.makeParseSt (MP.mkCtx g (RP.sets (parseWithRecovery g 1 1 [1, 0, 0] 100).pl)
      (RP.tokNums (parseWithRecovery g 1 1 [1, 0, 0] 100).pl) false) 200 with
  | none => rw [hs] at h; cases h
  | some s =>
    rw [hs] at h
    simp only [Option.map_some, Option.some.injEq, Prod.mk.injEq] at h
    refine ⟨s, rfl, ?_, h.2⟩
    apply Array.toList_inj.1
    rw [← h.1]
    simp [PC.ofHeap]

/-- what is computed: the forest of `make_parse` has 8 trees (two bracketings, `c` or `d` at each of
the two inner nodes), the TERM attributes are token numbers (`b@0 a@1 a@2`; list positions 1, 2, 3);
`find_minimal_translation` keeps the two trees of total cost 5, cost fields accumulated
(all parses) / the first of them (one parse) -/
example : (denote (PC.unfoldC H 27 22)).length = 8 ∧
    (denote (PC.unfoldC H 27 22)).map Tree.totalCost = [6, 5, 7, 6, 7, 6, 6, 5] := ⟨by rfl, by rfl⟩
example : denote (PC.unfoldC (PC.findMinimalTranslation 27 H 22 false true id).heap 27
      (PC.findMinimalTranslation 27 H 22 false true id).root) =
    [.anode "c" 5 [.anode "c" 4 [.anode "e" 3 [.term 98 0], .term 97 1], .term 97 2],
     .anode "c" 5 [.anode "e" 3 [.term 98 0], .anode "c" 1 [.term 97 1, .term 97 2]]] := by rfl
example : denote (PC.unfoldC (PC.findMinimalTranslation 27 H 22 true true id).heap 27
      (PC.findMinimalTranslation 27 H 22 true true id).root) =
    [.anode "c" 5 [.anode "e" 3 [.term 98 0], .anode "c" 1 [.term 97 1, .term 97 2]]] := by rfl


/-- the flag is set in this run (`mp_ok`), soundly: `recovered_amb_sound_model` gives two derivations
of `error b a a $eof`; and completeness applies since the repair is not `error $eof` -/
example : ∃ pt1 pt2, PT.IsDerivation g [2, 1, 0, 0, 3] pt1 ∧ PT.IsDerivation g [2, 1, 0, 0, 3] pt2 ∧
    pt1 ≠ pt2 := by
  obtain ⟨res, hm, ha⟩ := mp_ok
  have := recovered_amb_sound_model run.1 hm ha
  rw [run.2.2.1] at this
  exact this
example : RP.word (parseWithRecovery g 1 1 [1, 0, 0] 100).pl ≠ [g.errT, g.eofT] := by
  rw [run.2.2.1]; decide
example := recovered_cost_parse raw_ok 1 1 [1, 0, 0]
example := recovered_amb_flag_all raw_ok 1 1 [1, 0, 0]

end CostEx

/-! ### `RecEx` (`Props/RecoveredParse.lean`): `S : 'a' 'b' # p(0 1) | error 'b' # e(0 - 1)` on `b b a b` -/

/-- the cost-flag theorem applied to the run `Rec.run_all` on the C dump `Rec.sets` of the final
list (situations in the order of the C set cores) -/
example : ∃ s r, MP.makeParseSt (MP.mkCtx Rec.g Rec.sets Rec.plToks false) 100 = some s ∧
    s.result = some r ∧
    (∃ rk hd, PC.WfHeap (PC.ofHeap s.heap) rk hd ∧ r < (PC.ofHeap s.heap).size ∧ hd r = r) ∧
    RC.CostSpec Rec.g [2, 1, 3] (RP.fix (parseWithRecovery Rec.g 1 1 RecEx.w 100).pl) s r := by
  have hm := Rec.run_all
  rw [← RecEx.run.2.2.2.2] at hm
  obtain ⟨s, r, h1, _, h3, _, h5, h6⟩ := recovered_cost_parse_of (by decide)
    (fun hc => loopSet_ne_nil_of_cyclic Rec.g hc (by decide)) (by decide) RecEx.run.1 RecEx.same.1 hm
  rw [RecEx.run.2.2.2.2] at h1
  rw [RecEx.run.2.2.2.1] at h6
  exact ⟨s, r, h1, h3, h5, h6⟩

example := recovered_cost_parse RecEx.raw_ok 1 1 RecEx.w
example := recovered_amb_flag_one RecEx.raw_ok 1 1 RecEx.w

end Yaep
