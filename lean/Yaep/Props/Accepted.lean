import Yaep.Props.C01
import Yaep.Props.C02
import Yaep.Props.C09Lookahead
import Yaep.Props.C10
/-!
# Capstone: the hypotheses of the C01–C09 theorems hold for every grammar the definition
functions accept

The property theorems are stated for grammars with `WF`, `symsInRange`, `¬ Cyclic`.  Every
grammar returned by `readGrammar` (the model of `yaep_read_grammar`, tied to the C code by the
C10 correspondence) has them, so the theorems apply to exactly the grammars the properties
quantify over: "every grammar the definition functions accept".
-/
namespace Yaep

/-- tokens are declared terminals of the user: neither `$eof` nor `error` -/
def UserTokens (g : Grammar) (w : List Nat) : Prop := ∀ a ∈ w, a ≠ g.eofT ∧ a ≠ g.errT

/-- C01 for accepted grammars: at every lookahead level the model of `yaep_parse` accepts
exactly the sentences -/
theorem accepted_accepts_iff_sentence {raw : RawGrammar} {g : Grammar} {w : List Nat}
    (h : readGrammar raw = .ok g) (htok : UserTokens g w) :
    (accepts g 0 w = true ↔ Sentence g w) ∧ (accepts g 1 w = true ↔ Sentence g w) ∧
    (accepts2 g w = true ↔ Sentence g w) :=
  ⟨accepts_iff_sentence (readGrammar_wf h) (readGrammar_symsInRange h) htok (Nat.zero_le 1),
   accepts_iff_sentence (readGrammar_wf h) (readGrammar_symsInRange h) htok (Nat.le_refl 1),
   accepts2_iff_sentence (readGrammar_wf h) (readGrammar_symsInRange h) htok⟩

/-- C09 (verdict part) for accepted grammars -/
theorem accepted_verdict_indep_of_la {raw : RawGrammar} {g : Grammar} {w : List Nat}
    (h : readGrammar raw = .ok g) (htok : UserTokens g w) :
    accepts g 0 w = accepts2 g w ∧ accepts g 1 w = accepts2 g w :=
  verdict_indep_of_la012 (readGrammar_wf h) (readGrammar_symsInRange h) htok

/-- C02/C03/C05 for accepted grammars: the enumerator the judge runs lists exactly the
derivations of the input (no depth hypothesis left: accepted grammars are acyclic) -/
theorem accepted_derivations_exact {raw : RawGrammar} {g : Grammar} (toks : List Nat)
    (h : readGrammar raw = .ok g) (pt : PT) :
    pt ∈ derivationsP g toks ↔ PT.IsDerivation g toks pt :=
  derivationsP_complete (readGrammar_semOK h).1 (readGrammar_symsInRange h) pt

end Yaep
