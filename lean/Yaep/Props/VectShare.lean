import Yaep.Lemmas.VectShareRun
/-!
# The sharing of equal transition / reduce vectors keeps what every triple denotes

See `VectShare.REPORT.md`.  `c ti w` is the list of elements added to vector `w` of triple `ti`.
-/
namespace Yaep.VS

/-! ## 2. share_immutable (complete, for every sequence of operations) -/

/-- **share_immutable**: whatever operations are run (any sequence, in any order, even one that
violates the protocol, as long as it does not stop with an error), the permanent store only
grows by appending: every array stored before is still there, at the same index, unchanged. -/
theorem share_immutable {s s' : State} {ops : List Op} (h : run s ops = .ok s') :
    (∃ ext, s'.heap = s.heap ++ ext) ∧ ∀ (j : Nat) (a : List Int), s.heap[j]? = some a → s'.heap[j]? = some a := by
  rw [← runWith_std] at h
  have := runWith_ext _ _ ops h
  exact ⟨this, fun j a hj => this.get hj⟩

/-- the same for a single `process_core_symb_vect_el` -/
theorem processEl_immutable {s s' : State} {ti : Nat} {w : Which} (h : processEl s ti w = .ok s') :
    ∀ (j : Nat) (a : List Int), s.heap[j]? = some a → s'.heap[j]? = some a :=
  fun _ _ hj => (processElWith_ext _ _ h).get hj

def ops0 : List Op :=
  [.find 0 1, .new 0 1, .addT 0 5, .addT 0 7, .addR 0 2, .new 0 2, .addT 1 5, .addT 1 7, .allStop,
   .new 1 1, .addT 2 5, .addT 2 7, .addR 2 9, .new 1 0, .addT 3 6, .addT 3 8, .allStop, .find 0 1, .find 12 0]

/-- non-vacuity: a run with three equal transition vectors in two different sets -/
example : (run (init 3) ops0).toOption.map (·.heap) = some [[5, 7], [2], [9], [6, 8]] := by decide
example : (run (init 3) (ops0.take 9)).toOption.map (·.heap) = some [[5, 7], [2]] := by decide

/-! ## 1. share_sound -/

/-- reading a vector through `els`/`len` gives exactly the elements added to it — in every state
satisfying the invariant, also while the triple is being formed -/
theorem share_sound_inv {s : State} {c : Content} (hI : Inv' s c) {ti : Nat} {T : Triple} (w : Which)
    (hT : s.triples[ti]? = some T) : readVect s (T.get w) = some (c ti w) := by
  have hV := hI.vec ti T w hT
  unfold readVect
  by_cases h0 : (T.get w).len = 0
  · have : c ti w = [] := List.eq_nil_of_length_eq_zero (by rw [← hV.len]; exact h0)
    simp [h0, this]
  · simp only [h0, ↓reduceIte]
    cases hk : (T.get w).intern with
    | some k =>
      obtain ⟨a1, a2, a3⟩ := hV.forming k hk
      simp [a2, arr, a1, a3, hV.len]
    | none =>
      obtain ⟨j, _, _, a1, a2, _⟩ := hV.fin hk h0
      simp [a1, arr, a2, hV.len]

/-- **share_sound, the `core_symb_vect_new_all_stop` step**: from a state satisfying the invariant
`all_stop` does not fail; afterwards EVERY triple (old or new) is finished, none of its `els`
points into the scratch region, reading it yields exactly the elements added to it, and the
invariant holds again with an empty scratch region. -/
theorem share_sound_allStop {s : State} {c : Content} (hI : Inv s c) :
    ∃ s', allStop s = .ok s' ∧ Inv s' c ∧ s'.vloLen = 0 ∧ s'.newTriples = [] ∧
      ∀ (ti : Nat) (T : Triple) (w : Which), s'.triples[ti]? = some T →
        readVect s' (T.get w) = some (c ti w) ∧ (T.get w).intern = none ∧ ∀ k, (T.get w).els ≠ .scratch k := by
  obtain ⟨s', p, I, a, b, nof⟩ := allStop_inv hI
  refine ⟨s', p, I, b, a, ?_⟩
  intro ti T w hT
  refine ⟨share_sound_inv I.toInv' w hT, nof ti T w hT, ?_⟩
  intro k hk
  have hV := I.vec ti T w hT
  by_cases h0 : (T.get w).len = 0
  · rw [hV.fin0 (nof ti T w hT) h0] at hk; cases hk
  · obtain ⟨j, _, _, a1, _⟩ := hV.fin (nof ti T w hT) h0
    rw [a1] at hk; cases hk

/-- a finished vector does not depend on the scratch region at all: whatever later operations do
to `vlo_array` (`vlos`, `vloLen`), reading it gives the same list as long as the heap is only
extended (which `share_immutable` guarantees) -/
theorem finished_read_stable {s s' : State} {c : Content} (hI : Inv' s c) {ti : Nat} {T : Triple} (w : Which)
    (hT : s.triples[ti]? = some T) (hf : (T.get w).intern = none)
    (hext : ∃ ext, s'.heap = s.heap ++ ext) : readVect s' (T.get w) = some (c ti w) := by
  have hV := hI.vec ti T w hT
  have hr := share_sound_inv hI w hT
  unfold readVect at hr ⊢
  by_cases h0 : (T.get w).len = 0
  · simpa [h0] using hr
  · obtain ⟨j, _, _, a1, a2, _⟩ := hV.fin hf h0
    have : s'.heap[j]? = some (c ti w) := Ext.get hext a2
    simp [a1, arr, this, hV.len]

/-- the invariant holds initially (with nothing added) -/
theorem inv_init (width : Nat) : Inv (init width) (fun _ _ => []) := by
  refine ⟨⟨?_, ?_, Nat.le_refl _, ?_, ?_, ?_, fun _ _ _ => rfl⟩, List.nodup_nil, ?_, ?_⟩
  · intro ti T w h; simp [init] at h
  · intro ti tj Ti Tj w w' k h; simp [init] at h
  · intro w e h; cases w <;> simp [init, State.tab] at h
  · intro w; cases w <;> simp [init, State.tab]
  · intro w; cases w <;> simp [init, State.tab, State.nVects, State.nVectsLen]
  · intro ti h; simp [init] at h
  · intro ti T w k h; simp [init] at h

/-- non-vacuity of `share_sound_allStop`: reading through the shared pointers after the run -/
example : (run (init 3) ops0).toOption.map (fun s => (List.range 4).map fun t => (s.read t .tr, s.read t .re, s.ptr t .tr, s.ptr t .re))
    = some [(some [5, 7], some [2], some (.perm 0), some (.perm 1)),
            (some [5, 7], some [], some (.perm 0), some .null),
            (some [5, 7], some [9], some (.perm 0), some (.perm 2)),
            (some [6, 8], some [], some (.perm 3), some .null)] := by rfl
example : (List.range 4).map (fun t => (added ops0 t .tr, added ops0 t .re))
    = [([5, 7], [2]), ([5, 7], []), ([5, 7], [9]), ([6, 8], [])] := by decide

/-! ## 3. share_canonical -/

theorem pairwise_inj {α β : Type} {f : α → β} : ∀ {l : List α}, l.Pairwise (fun a b => f a ≠ f b) →
    ∀ {a b : α}, a ∈ l → b ∈ l → f a = f b → a = b := by
  intro l
  induction l with
  | nil => intro _ a b h; cases h
  | cons x rest ih =>
    intro hp a b ha hb hab
    rw [List.pairwise_cons] at hp
    rcases List.mem_cons.mp ha with ea | ha' <;> rcases List.mem_cons.mp hb with eb | hb'
    · rw [ea, eb]
    · subst ea; exact absurd hab (hp.1 b hb')
    · subst eb; exact absurd hab.symm (hp.1 a ha')
    · exact ih hp.2 ha' hb' hab

/-- **share_canonical**: two finished vectors (of the same kind) have the same non-NULL pointer
IFF their contents are equal and non-empty -/
theorem share_canonical_inv {s : State} {c : Content} (hI : Inv' s c) {t1 t2 : Nat} {T1 T2 : Triple} (w : Which)
    (h1 : s.triples[t1]? = some T1) (h2 : s.triples[t2]? = some T2)
    (f1 : (T1.get w).intern = none) (f2 : (T2.get w).intern = none) :
    ((T1.get w).els = (T2.get w).els ∧ (T1.get w).els ≠ .null) ↔ (c t1 w = c t2 w ∧ c t1 w ≠ []) := by
  have V1 := hI.vec t1 T1 w h1
  have V2 := hI.vec t2 T2 w h2
  constructor
  · rintro ⟨he, hn⟩
    have n1 : (T1.get w).len ≠ 0 := fun h => hn (V1.fin0 f1 h)
    have n2 : (T2.get w).len ≠ 0 := fun h => hn (he ▸ V2.fin0 f2 h)
    obtain ⟨j1, _, _, a1, a2, _⟩ := V1.fin f1 n1
    obtain ⟨j2, _, _, b1, b2, _⟩ := V2.fin f2 n2
    rw [a1, b1] at he
    cases he
    rw [a2] at b2
    refine ⟨Option.some.inj b2, ?_⟩
    intro h; rw [V1.len, h] at n1; exact n1 rfl
  · rintro ⟨he, hn⟩
    have n1 : (T1.get w).len ≠ 0 := by
      rw [V1.len]; intro h; exact hn (List.eq_nil_of_length_eq_zero h)
    have n2 : (T2.get w).len ≠ 0 := by
      rw [V2.len, ← he]; intro h; exact hn (List.eq_nil_of_length_eq_zero h)
    obtain ⟨j1, e1, E1, a1, _, a3, a4, a5, a6⟩ := V1.fin f1 n1
    obtain ⟨j2, e2, E2, b1, _, b3, b4, b5, b6⟩ := V2.fin f2 n2
    have : e1 = e2 := pairwise_inj (f := fun e => c e w) (hI.tabDistinct w) a3 b3 (show c e1 w = c e2 w by rw [a6, b6, he])
    subst this
    rw [a4] at b4; cases b4
    rw [a5] at b5; cases b5
    exact ⟨by rw [a1, b1], by rw [a1]; intro h; cases h⟩

/-- **the counters**: the table of kind `w` holds one finished non-empty vector per DISTINCT
non-empty content formed so far; `n_…_vects` is their number and `n_…_vect_len` the sum of their
lengths -/
theorem share_counters_inv {s : State} {c : Content} (hI : Inv' s c) (w : Which) :
    ((s.tab w).map (fun e => c e w)).Nodup ∧
    (∀ x, x ∈ (s.tab w).map (fun e => c e w) ↔
      x ≠ [] ∧ ∃ ti T, s.triples[ti]? = some T ∧ (T.get w).intern = none ∧ c ti w = x) ∧
    s.nVects w = ((s.tab w).map (fun e => c e w)).length ∧
    s.nVectsLen w = (((s.tab w).map (fun e => c e w)).map List.length).sum := by
  refine ⟨?_, ?_, by simpa using (hI.cnt w).1, by simpa [Function.comp_def] using (hI.cnt w).2⟩
  · rw [List.Nodup, List.pairwise_map]; exact hI.tabDistinct w
  · intro x
    constructor
    · intro hx
      obtain ⟨e, he, rfl⟩ := List.mem_map.mp hx
      obtain ⟨E, a1, a2, a3⟩ := hI.tabOk w e he
      refine ⟨?_, e, E, a1, a2, rfl⟩
      intro h; rw [(hI.vec e E w a1).len, h] at a3; exact a3 rfl
    · rintro ⟨hx, ti, T, a1, a2, rfl⟩
      have V := hI.vec ti T w a1
      have n : (T.get w).len ≠ 0 := by
        rw [V.len]; intro h; exact hx (List.eq_nil_of_length_eq_zero h)
      obtain ⟨j, e, E, _, _, b3, _, _, b6⟩ := V.fin a2 n
      exact List.mem_map.mpr ⟨e, b3, b6⟩

/-- non-vacuity: the counters of the run above: 2 distinct transition vectors of total length 4,
2 distinct reduce vectors of total length 2, 4 pairs, 10 elements added -/
example : (run (init 3) ops0).toOption.map (fun s => (s.nPairs, s.nVectLen, s.nT, s.nTLen, s.nR, s.nRLen, s.tabT, s.tabR))
    = some (4, 10, 2, 4, 2, 2, [0, 3], [0, 2]) := by rfl

/-! ## `process_core_symb_vect_el` and `all_stop` keep the invariant (restated) -/

theorem processEl_preserves {s : State} {c : Content} {ti : Nat} {w : Which} {T : Triple} {k : Nat}
    (hI : Inv' s c) (hT : s.triples[ti]? = some T) (hk : (T.get w).intern = some k) :
    ∃ s', processEl s ti w = .ok s' ∧ Inv' s' c := by
  obtain ⟨s', _, p, I, _⟩ := processEl_inv hI hT hk
  exact ⟨s', p, I⟩

/-! ## 4. the table `core_symb_table` (executable checks only; the general theorem is open) -/

/-- growth: ten rows when exactly one is missing, otherwise exactly the missing ones -/
example : ((run (init 3) [.find 0 0]).toOption.map (·.rows.length),
           (run (init 3) [.find 0 0, .find 10 2]).toOption.map (·.rows.length),
           (run (init 3) [.find 0 0, .find 14 2]).toOption.map (·.rows.length)) = (some 10, some 20, some 15) := by decide

theorem growBy_enough {have_ core : Nat} (h : have_ ≤ core) : core < have_ + growBy have_ core := by
  unfold growBy; simp only; split <;> omega

/-- the row asked for exists after the growth step, for ANY core number -/
theorem growRows_has_row (width : Nat) (rows : List (List (Option Nat))) (core : Nat) :
    core < (growRows width rows core).length := by
  unfold growRows
  split
  · assumption
  · simp only [List.length_append, List.length_replicate]; exact growBy_enough (by omega)

example : (find (init 3) 0 3).toOption = none := by decide     -- a symbol number outside the row is a fault
example : ((run (init 3) ops0).toOption.map fun s => ((find s 0 1).toOption.map (·.2), (find s 1 0).toOption.map (·.2),
    (find s 1 2).toOption.map (·.2), (find s 40 2).toOption.map (·.2)))
    = some (some (some 0), some (some 3), some none, some none) := by decide

/-! ## 5. historic mistake witnesses -/

def opsW : List Op :=
  [.new 0 1, .addT 0 5, .addT 0 7, .allStop, .new 1 1, .addT 1 6, .addT 1 8, .allStop]

/-- `vect_els_eq` comparing only the lengths: the second triple is given the first one's array,
so reading it does NOT yield what was added to it (the conclusion of `share_sound` fails) -/
example : ((runWith vectElsEqLenOnly false (init 3) opsW).toOption.bind (·.read 1 .tr), added opsW 1 .tr)
    = (some [5, 7], [6, 8]) := by decide
example : ((run (init 3) opsW).toOption.bind (·.read 1 .tr), added opsW 1 .tr) = (some [6, 8], [6, 8]) := by decide

/-- `process_core_symb_vect_el` keeping the scratch pointer of a new vector: after `all_stop` the
pointer of the finished triple is in the scratch region (dangling: the read is a fault) … -/
example : (runWith vectElsEq true (init 3) (opsW.take 4)).toOption.map (fun s => (s.ptr 0 .tr, s.read 0 .tr))
    = some (some (.scratch 0), none) := by decide
/-- … and once the next set reuses the scratch array, triple 0 reads the elements of triple 1 -/
example : (runWith vectElsEq true (init 3) (opsW.take 7)).toOption.map (fun s => (s.read 0 .tr, added opsW 0 .tr))
    = some (some [6, 8], [5, 7]) := by decide

/-! ## The theorems for ANY sequence of operations from `core_symb_vect_init` -/

/-- every run that does not stop with an error ends in a state satisfying the invariant, with
`added ops` (the elements the operations added to each vector) as content -/
theorem run_invariant {width : Nat} {ops : List Op} {s : State} (h : run (init width) ops = .ok s) :
    Inv s (added ops) := by
  have e : added [] = fun _ _ => [] := by funext t w; rfl
  have := run_inv ops [] (init width) s (by rw [e]; exact inv_init width) h
  simpa using this

/-- **share_sound**: after ANY sequence of operations (not stopped by an error), reading vector
`w` of ANY triple through its `els` and `len` yields exactly the elements added to it, in order;
and a triple that is not one of those being formed (`new_core_symb_vect_vlo`) is finished and
its `els` does not point into the scratch region. -/
theorem share_sound {width : Nat} {ops : List Op} {s : State} (h : run (init width) ops = .ok s)
    {ti : Nat} {T : Triple} (w : Which) (hT : s.triples[ti]? = some T) :
    readVect s (T.get w) = some (added ops ti w) ∧
    (ti ∉ s.newTriples → (T.get w).intern = none ∧ ∀ k, (T.get w).els ≠ .scratch k) := by
  have I := run_invariant h
  refine ⟨share_sound_inv I.toInv' w hT, ?_⟩
  intro hn
  have fin : (T.get w).intern = none := by
    cases hk : (T.get w).intern with
    | none => rfl
    | some k => exact absurd (I.formingNew ti T w k hT hk) hn
  refine ⟨fin, ?_⟩
  intro k hk
  have hV := I.vec ti T w hT
  by_cases h0 : (T.get w).len = 0
  · rw [hV.fin0 fin h0] at hk; cases hk
  · obtain ⟨j, _, _, a1, _⟩ := hV.fin fin h0
    rw [a1] at hk; cases hk

/-- `core_symb_vect_new_all_stop` never fails after a run, and after it NO triple is being formed
(so `share_sound` gives "finished, not in the scratch region" for every triple ever formed) -/
theorem share_sound_after_stop {width : Nat} {ops : List Op} {s : State} (h : run (init width) ops = .ok s) :
    ∃ s', run (init width) (ops ++ [.allStop]) = .ok s' ∧ s'.newTriples = [] ∧ s'.vloLen = 0 ∧
      ∀ (ti : Nat) (T : Triple) (w : Which), s'.triples[ti]? = some T →
        readVect s' (T.get w) = some (added ops ti w) ∧ (T.get w).intern = none ∧ ∀ k, (T.get w).els ≠ .scratch k := by
  obtain ⟨s', p, _, a, b, d⟩ := share_sound_allStop (run_invariant h)
  refine ⟨s', ?_, b, a, d⟩
  have : ∀ (l : List Op) (s0 : State), run s0 l = .ok s → run s0 (l ++ [.allStop]) = .ok s' := by
    intro l
    induction l with
    | nil => intro s0 h0; cases h0; simp [run, step, p]
    | cons op rest ih =>
      intro s0 h0
      simp only [run, List.cons_append] at h0 ⊢
      cases h1 : step s0 op with
      | error e => rw [h1] at h0; cases h0
      | ok s1 => rw [h1] at h0; exact ih s1 h0
  exact this ops _ h

/-- **share_canonical**: after any run, two finished vectors of the same kind have the same
non-NULL `els` IFF the lists added to them are equal and non-empty -/
theorem share_canonical {width : Nat} {ops : List Op} {s : State} (h : run (init width) ops = .ok s)
    {t1 t2 : Nat} {T1 T2 : Triple} (w : Which) (h1 : s.triples[t1]? = some T1) (h2 : s.triples[t2]? = some T2)
    (n1 : t1 ∉ s.newTriples) (n2 : t2 ∉ s.newTriples) :
    ((T1.get w).els = (T2.get w).els ∧ (T1.get w).els ≠ .null) ↔
      (added ops t1 w = added ops t2 w ∧ added ops t1 w ≠ []) :=
  share_canonical_inv (run_invariant h).toInv' w h1 h2 ((share_sound h w h1).2 n1).1 ((share_sound h w h2).2 n2).1

/-- **the counters** after any run: `n_transition_vects` (`n_reduce_vects`) is the number of
distinct non-empty lists among the finished transition (reduce) vectors, and
`n_transition_vect_len` (`n_reduce_vect_len`) the sum of their lengths -/
theorem share_counters {width : Nat} {ops : List Op} {s : State} (h : run (init width) ops = .ok s) (w : Which) :
    ∃ reps : List (List Int), reps.Nodup ∧
      (∀ x, x ∈ reps ↔ x ≠ [] ∧ ∃ ti T, s.triples[ti]? = some T ∧ (T.get w).intern = none ∧ added ops ti w = x) ∧
      s.nVects w = reps.length ∧ s.nVectsLen w = (reps.map List.length).sum :=
  ⟨_, share_counters_inv (run_invariant h).toInv' w⟩

/-- non-vacuity of the run-level theorems: `ops0` runs without error, triples 0, 1, 2 share their
transitions pointer, triple 3 does not -/
example : ∃ s, run (init 3) ops0 = .ok s ∧ s.newTriples = [] ∧
    s.ptr 0 .tr = s.ptr 2 .tr ∧ s.ptr 0 .tr ≠ s.ptr 3 .tr ∧ added ops0 0 .tr = added ops0 2 .tr := ⟨_, rfl, by decide⟩

end Yaep.VS
