import Yaep.Lemmas.Recovery
import Yaep.Lemmas.RecoveryTotal
import Yaep.Props.C06
/-!
# C07 — error recovery: the repaired parse list

Properties of the final parse list of `parseWithRecovery` (`Yaep/Model/Recovery.lean`), of the
lists built during the recovery search, and of the fuel of the outer loop.  All theorems
about the result assume `r.ok = true`.  Helper lemmas: `Yaep/Lemmas/Recovery.lean`.
-/
namespace Yaep

/-- example grammar: terminals `0 = error`, `1 = $eof`, `2 = a`; nonterminals `0 = $S`,
`1 = S`, `2 = A`; rules `$S : S $eof`, `S : A error`, `A : error a`, `$S : error $eof`. -/
def c07Grammar : Grammar :=
  { rules := [ { lhs := 0, rhs := [.n 1, .t 1] },
               { lhs := 1, rhs := [.n 2, .t 0] },
               { lhs := 2, rhs := [.t 0, .t 2] },
               { lhs := 0, rhs := [.t 0, .t 1] } ],
    termNames := ["error", "$eof", "a"], termCodes := [-1, -2, 97],
    ntNames := ["$S", "S", "A"], errT := 0, eofT := 1, axiomN := 0, startN := 1 }

/-! ## shape of the final list -/

/-- The final list is set 0 (no terminal, no token) followed by sets that are either `error`
sets (no token, terminal `error`) or sets shifted on an input token `k` whose terminal is
`w'[k]`; the token indices are strictly increasing and inside the input.  Hence the terminals
of the token sets are `w'` restricted to the kept indices: the repaired input is `w'` with
disjoint segments replaced by `error`. -/
theorem pl_shape {g : Grammar} {la rmatch : Nat} {w : List Nat} {sfuel : Nat}
    (hok : (parseWithRecovery g la rmatch w sfuel).ok = true) :
    ∃ s0 rest, (parseWithRecovery g la rmatch w sfuel).pl = s0 :: rest ∧
      s0.term = none ∧ s0.tok = none ∧
      (∀ s ∈ rest, (s.tok = none ∧ s.term = some g.errT) ∨
        ∃ k t, s.tok = some k ∧ s.term = some t ∧ (w ++ [g.eofT])[k]? = some t) ∧
      (rest.filterMap (·.tok)).Pairwise (· < ·) ∧
      (∀ k ∈ rest.filterMap (·.tok), k ≤ w.length) ∧
      (rest.filter fun s => s.tok.isSome).map (·.term) =
        (rest.filterMap (·.tok)).map fun k => (w ++ [g.eofT])[k]? := by
  obtain ⟨s0, rest, hpl, h1, h2, hseg, _⟩ := (parseWithRecovery_inv hok).pl_ok
  refine ⟨s0, rest, hpl, h1, h2, hseg.sets, hseg.sorted, ?_, terms_eq_tokens hseg.sets⟩
  intro k hk
  have := (hseg.bounds k hk).2
  rw [List.length_append, List.length_singleton] at this
  exact Nat.le_of_lt_succ this

example : (parseWithRecovery c07Grammar 0 1 [2, 2, 2] 100).ok = true ∧
    (parseWithRecovery c07Grammar 0 1 [2, 2, 2] 100).pl.map (fun s => (s.term, s.tok)) =
      [(none, none), (some 0, none), (some 2, some 1), (some 0, none), (some 1, some 3)] := by
  decide

/-! ## every token is kept or reported ignored exactly once -/

/-- If no input token is the `error` terminal: the tokens reported ignored by the calls plus
the sets shifted on a token add up to the token count (end marker included). -/
theorem ignored_count {g : Grammar} {la rmatch : Nat} {w : List Nat} {sfuel : Nat}
    (hok : (parseWithRecovery g la rmatch w sfuel).ok = true) (hno : g.errT ∉ w)
    (hne : g.errT ≠ g.eofT) :
    ((parseWithRecovery g la rmatch w sfuel).calls.map fun c => c.2.2 - c.2.1).sum +
      ((parseWithRecovery g la rmatch w sfuel).pl.filter fun s => !s.isErr g).length - 1 =
    w.length + 1 := by
  have hinv := parseWithRecovery_inv hok
  have hno' : g.errT ∉ w ++ [g.eofT] := by
    intro h
    rcases List.mem_append.mp h with h | h
    · exact hno h
    · exact hne (List.mem_singleton.mp h)
  have hacct := hinv.acct hno'
  obtain ⟨s0, rest, hpl, h1, h2, hseg, _⟩ := hinv.pl_ok
  rw [hpl] at hacct ⊢
  rw [← ignoredSum_eq_sum]
  have h3 : ((s0 :: rest).filter fun s => !s.isErr g).length = nonErr g rest + 1 := by
    have : s0.isErr g = false := by simp [PSet.isErr, h1]
    have hc := nonErr_cons g s0 rest
    unfold nonErr at hc ⊢
    rw [hc, this]; simp; omega
  rw [h3, nonErr_eq_cnt hno' hseg.sets]
  rw [cnt_cons_none _ h2, List.length_append, List.length_singleton] at hacct
  omega

/-- the same count with the sets counted by their token field -/
theorem ignored_count_tok {g : Grammar} {la rmatch : Nat} {w : List Nat} {sfuel : Nat}
    (hok : (parseWithRecovery g la rmatch w sfuel).ok = true) (hno : g.errT ∉ w)
    (hne : g.errT ≠ g.eofT) :
    ((parseWithRecovery g la rmatch w sfuel).calls.map fun c => c.2.2 - c.2.1).sum +
      ((parseWithRecovery g la rmatch w sfuel).pl.filterMap (·.tok)).length = w.length + 1 := by
  have hinv := parseWithRecovery_inv hok
  have hno' : g.errT ∉ w ++ [g.eofT] := by
    intro h
    rcases List.mem_append.mp h with h | h
    · exact hno h
    · exact hne (List.mem_singleton.mp h)
  have hacct := hinv.acct hno'
  rw [← ignoredSum_eq_sum]
  rw [List.length_append, List.length_singleton] at hacct
  exact hacct

example : (parseWithRecovery c07Grammar 0 1 [2, 2, 2] 100).ok = true ∧
    c07Grammar.errT ∉ [2, 2, 2] ∧
    (parseWithRecovery c07Grammar 0 1 [2, 2, 2] 100).calls = [(0, 0, 0), (1, 0, 1), (2, 2, 3)] ∧
    ((parseWithRecovery c07Grammar 0 1 [2, 2, 2] 100).pl.filter
      fun s => !s.isErr c07Grammar).length - 1 = 2 := by decide

/-! ## capacity -/

/-- The final list has at most `2 * (w.length + 1) + 1` sets (`w.length + 1` is the token
count with the end marker), hence fits the `2 * (toks_len + 1)` slots of `pl_create`. -/
theorem pl_capacity {g : Grammar} {la rmatch : Nat} {w : List Nat} {sfuel : Nat}
    (hok : (parseWithRecovery g la rmatch w sfuel).ok = true) :
    (parseWithRecovery g la rmatch w sfuel).pl.length ≤ 2 * (w.length + 1) + 1 := by
  have := (parseWithRecovery_inv hok).pl_ok.length_le
  rwa [List.length_append, List.length_singleton] at this

/-- The bound `2 * (w.length + 1)` does NOT hold: one token, five sets
(`set0, error, a, error, $eof`). -/
example : (parseWithRecovery c07Grammar 0 1 [2] 100).ok = true ∧
    (parseWithRecovery c07Grammar 0 1 [2] 100).pl.length = 5 ∧ ¬ (5 ≤ 2 * ([2].length + 1)) := by
  decide

/-- Every list the search works on obeys the same bound.  `SearchInv` holds for the initial
search state (`recoverAt_inv`) and is preserved by every iteration (`searchStepK_ind`,
`searchLoop_inv`); under it the list of every stacked state, with the `error` set the
iteration appends to it, has at most `2 * toks_len` sets … -/
theorem search_state_list_capacity {g : Grammar} {an : Analysis} {la : Nat} {full : List Nat}
    {orig : List PSet} {startTok startPl : Nat} (ctx : RCtx g an la full orig startTok startPl)
    {st : SearchSt} (hinv : SearchInv g an la full orig startTok startPl st) {s : RState}
    (hs : s ∈ st.stack) :
    (orig.take (s.last + 1) ++ s.tail ++ [errSetOf g (orig.take (s.last + 1) ++ s.tail)]).length ≤
      2 * full.length := by
  rw [List.length_append, List.length_singleton]
  exact state_list_bound ctx (hinv.states s hs).1

/-- … and every list of the matching loop that follows (they only grow, the result is the
longest) has at most `2 * toks_len + 1` sets. -/
theorem search_match_list_capacity {g : Grammar} {an : Analysis} {la rmatch : Nat} {full : List Nat}
    {orig : List PSet} {startTok startPl : Nat} (ctx : RCtx g an la full orig startTok startPl)
    {last cost ctok : Nat} (hlast : last ≤ startPl) {T : List PSet}
    (hT : TailInv g an la full orig startTok last cost T ctok) (fuel nm : Nat) :
    (matchLoop g an la rmatch full last cost fuel (orig.take (last + 1) ++ T) ctok nm []).cpl.length ≤
      2 * full.length + 1 := by
  obtain ⟨T', ls, hcpl, hT', _, _⟩ := matchLoop_spec (rmatch := rmatch) (startPl := startPl) last cost
    (ctx.take_length hlast) hlast fuel T ctok nm [] hT (fun s hs => absurd hs List.not_mem_nil)
  rw [hcpl]
  exact tail_list_bound ctx hT'

/-- the best state found by a search likewise -/
theorem search_best_list_capacity {g : Grammar} {an : Analysis} {la : Nat} {full : List Nat}
    {orig : List PSet} {startTok startPl : Nat} (ctx : RCtx g an la full orig startTok startPl)
    {st : SearchSt} (hinv : SearchInv g an la full orig startTok startPl st) {b : Best}
    (hb : st.best = some b) : (orig.take (b.last + 1) ++ b.tail).length ≤ 2 * full.length + 1 := by
  obtain ⟨_, _, hT⟩ := (hinv.best b hb).tail
  exact tail_list_bound ctx hT

/-! ## the final list is a run of the Earley construction on the repaired input -/

/-- Set 0 is `set0 g`; every `error` set is the unfiltered goto of the sets before it on
`error`; every set shifted on token `k` is `nextSet` of the sets before it on `w'[k]` with
lookahead `w'[k+1]`, and `w'[k]` had a transition in the preceding set. -/
theorem final_pl_sets {g : Grammar} {la rmatch : Nat} {w : List Nat} {sfuel : Nat}
    (hok : (parseWithRecovery g la rmatch w sfuel).ok = true) :
    RunOk g g.analysis la (w ++ [g.eofT]) (parseWithRecovery g la rmatch w sfuel).pl :=
  (parseWithRecovery_inv hok).run

/-- The last set was shifted on the end marker and contains a completed item of a rule for
`$S` (rule 0, or `$S : error $eof`). -/
theorem final_accepts {g : Grammar} {la rmatch : Nat} {w : List Nat} {sfuel : Nat} (hwf : g.WF)
    (hok : (parseWithRecovery g la rmatch w sfuel).ok = true) :
    ∃ s it rl, (parseWithRecovery g la rmatch w sfuel).pl.getLast? = some s ∧
      s.term = some g.eofT ∧ s.tok = some w.length ∧ it ∈ s.items ∧
      g.rules[it.rule]? = some rl ∧ rl.lhs = g.axiomN ∧ it.dot = rl.rhs.length ∧
      (it.rule = 0 ∨ rl.rhs = [Sym.t g.errT, Sym.t g.eofT]) :=
  (parseWithRecovery_inv hok).final_accepts hwf

example : c07Grammar.WF ∧ (parseWithRecovery c07Grammar 1 1 [2, 2] 100).ok = true := by decide

/-! ## the fuel of the outer loop -/

/-- Every iteration of `parseRecLoop` consumes at least one token, so the outer fuel
`full.length + 2` of `parseWithRecovery` is never the reason for `ok = false`: any larger
fuel gives the same result. -/
theorem outer_fuel_suffices (g : Grammar) (la rmatch : Nat) (w : List Nat) (sfuel extra : Nat) :
    parseRecLoop g g.analysis la rmatch (w ++ [g.eofT]) sfuel ((w ++ [g.eofT]).length + 2 + extra) 0
        [{ term := none, tok := none, items := set0 g }] [] 0 =
      parseWithRecovery g la rmatch w sfuel := by
  unfold parseWithRecovery
  exact parseRecLoop_fuel_irrel _ _ _ _ _ _ (outerInv_init g _ _ _) (by omega) (by omega)

example : parseRecLoop c07Grammar c07Grammar.analysis 0 1 [2, 1] 100 9 0
    [{ term := none, tok := none, items := set0 c07Grammar }] [] 0 =
    parseWithRecovery c07Grammar 0 1 [2] 100 :=
  outer_fuel_suffices c07Grammar 0 1 [2] 100 5

/-! ## with recovery on, the parse always succeeds

`Grammar.hasTotalLoss g`: the grammar contains the rule `$S : error $eof`, which
`yaep_read_grammar` always appends (`readGrammar_hasTotalLoss`); `Grammar.WF` alone does not
say so.  `recoveryFuel n rmatch = (2 n + 1) (rmatch + 2) ^ n` bounds the number of iterations
of one recovery search on an input of `n` tokens (end marker included). -/

/-- Termination of the search: under the search invariant the loop empties its stack as soon
as the fuel covers the measure `Σ (rmatch+2)^(n - stok) + bf · (rmatch+2)^n`, which every
iteration strictly decreases (`searchStepK_mu`). -/
theorem search_terminates {g : Grammar} {an : Analysis} {la rmatch : Nat} {full : List Nat}
    {orig : List PSet} {startTok startPl : Nat} (ctx : RCtx g an la full orig startTok startPl)
    (fuel : Nat) (st : SearchSt) (hinv : SearchInv g an la full orig startTok startPl st)
    (hf : searchMu (rmatch + 2) full.length st ≤ fuel) :
    (searchLoop g an la rmatch full orig startTok startPl fuel st).stack = [] :=
  searchLoop_terminates ctx fuel st hinv hf

/-- One call of `error_recovery` on a list of the outer loop: with the total-loss rule and
`sfuel ≥ recoveryFuel n rmatch` the search finishes and has found a recovery. -/
theorem recoverAt_total {g : Grammar} {an : Analysis} {la rmatch : Nat} {full : List Nat}
    {pl : List PSet} {tok : Nat} {calls : List (Nat × Nat × Nat)}
    (hloss : g.hasTotalLoss = true) (h : OuterInv g an la full tok pl calls) (ht : tok < full.length)
    (heof : full[full.length - 1]? = some g.eofT) {sfuel : Nat}
    (hf : recoveryFuel full.length rmatch ≤ sfuel) :
    (recoverAt g an la rmatch full pl tok sfuel).stack = [] ∧
    (recoverAt g an la rmatch full pl tok sfuel).best ≠ none :=
  recoverAt_ok hloss h.pl_ok h.run ht heof hf

/-- With error recovery on, the parse succeeds for EVERY token sequence (no hypothesis on the
tokens, the lookahead level or `recovery_match`), given the rule `$S : error $eof` and search
fuel `≥ (2 n + 1) (rmatch + 2) ^ n`, `n = w.length + 1`. -/
theorem recovery_total_explicit {g : Grammar} (hloss : g.hasTotalLoss = true) (la rmatch : Nat)
    (w : List Nat) {sfuel : Nat} (hf : recoveryFuel (w.length + 1) rmatch ≤ sfuel) :
    (parseWithRecovery g la rmatch w sfuel).ok = true :=
  parseWithRecovery_ok hloss la rmatch w hf

theorem recovery_total {g : Grammar} (hloss : g.hasTotalLoss = true) (la rmatch : Nat)
    (w : List Nat) : ∃ F, ∀ sfuel, F ≤ sfuel → (parseWithRecovery g la rmatch w sfuel).ok = true :=
  ⟨recoveryFuel (w.length + 1) rmatch, fun _ hf => parseWithRecovery_ok hloss la rmatch w hf⟩

/-- for the grammars `yaep_read_grammar` builds -/
theorem recovery_total_readGrammar {raw : RawGrammar} {g : Grammar} (h : readGrammar raw = .ok g)
    (la rmatch : Nat) (w : List Nat) :
    ∃ F, ∀ sfuel, F ≤ sfuel → (parseWithRecovery g la rmatch w sfuel).ok = true :=
  recovery_total (readGrammar_hasTotalLoss h) la rmatch w

/-- Hence the C06/C07/C08 theorems hold unconditionally for such fuel; e.g. the final list
ends with a completed `$S` rule and the callbacks are well formed. -/
theorem recovery_total_final {g : Grammar} (hwf : g.WF) (hloss : g.hasTotalLoss = true)
    (la rmatch : Nat) (w : List Nat) {sfuel : Nat}
    (hf : recoveryFuel (w.length + 1) rmatch ≤ sfuel) :
    (∃ s it rl, (parseWithRecovery g la rmatch w sfuel).pl.getLast? = some s ∧
      s.term = some g.eofT ∧ s.tok = some w.length ∧ it ∈ s.items ∧
      g.rules[it.rule]? = some rl ∧ rl.lhs = g.axiomN ∧ it.dot = rl.rhs.length ∧
      (it.rule = 0 ∨ rl.rhs = [Sym.t g.errT, Sym.t g.eofT])) ∧
    (∀ c ∈ (parseWithRecovery g la rmatch w sfuel).calls,
      c.2.1 ≤ c.2.2 ∧ c.2.2 ≤ w.length ∧ c.1 ≤ w.length ∧ c.2.1 ≤ c.1) ∧
    RunOk g g.analysis la (w ++ [g.eofT]) (parseWithRecovery g la rmatch w sfuel).pl :=
  have hok := parseWithRecovery_ok hloss la rmatch w hf
  ⟨final_accepts hwf hok, calls_wf hok, final_pl_sets hok⟩

example : c07Grammar.hasTotalLoss = true ∧ c06Grammar.hasTotalLoss = true := by decide
example : recoveryFuel ([2, 2, 2].length + 1) 1 = 729 := by decide
/-- the bound instantiated: `a a a` with `recovery_match = 1` … -/
example : (parseWithRecovery c07Grammar 0 1 [2, 2, 2] 729).ok = true :=
  recovery_total_explicit (g := c07Grammar) (by decide) 0 1 [2, 2, 2] (by decide)
/-- … while the search actually needs far fewer iterations -/
example : (parseWithRecovery c07Grammar 0 1 [2, 2, 2] 20).ok = true ∧
    (parseWithRecovery c07Grammar 0 1 [2, 2, 2] 20).steps ≤ 20 := by decide
example : (parseWithRecovery c06Grammar 1 2 [2, 3, 2, 2, 3, 2, 3] 200).ok = true := by decide
/-- with too little search fuel the model reports `ok = false` -/
example : (parseWithRecovery c07Grammar 0 1 [2, 2, 2] 1).ok = false := by decide

end Yaep
