import Yaep.Props.Accepted
import Yaep.Props.C06
import Yaep.Props.C07
import Yaep.Props.C08
/-!
# Capstone for C06 / C07 / C08: the recovery theorems without the hypothesis `r.ok`

The theorems of `Props/C06.lean`, `C07.lean`, `C08.lean` are stated under
`(parseWithRecovery g la rmatch w sfuel).ok = true` ("the search finished and found a
recovery").  `recovery_total_explicit` shows that this holds for every grammar with the
total-loss rule `$S : error $eof` once `sfuel ≥ recoveryFuel (|w| + 1) rmatch`, and
`readGrammar_hasTotalLoss` that every grammar `readGrammar` (the model of `yaep_read_grammar`)
returns has that rule.  Here the two are put together: for EVERY accepted grammar, EVERY token
sequence, lookahead level and `recovery_match`, and any fuel from `recoveryFuel` on, the
recovering parse of the model

* finishes (`ok`),
* calls `syntax_error` iff the input is not a sentence (user tokens, lookahead 0 or 1),
* with well-formed, strictly increasing callback arguments,
* the first of which names the first error of the plain parse,
* and ignores for the first error no more tokens than any simple recovery.

Only statements and non-vacuity examples; the work is in the files named above.
-/
namespace Yaep

/-- the fuel from which on nothing is assumed about the run -/
def recFuel (w : List Nat) (rmatch : Nat) : Nat := recoveryFuel (w.length + 1) rmatch

theorem accepted_recovery_ok {raw : RawGrammar} {g : Grammar} (h : readGrammar raw = .ok g)
    (la rmatch : Nat) (w : List Nat) {sfuel : Nat} (hf : recFuel w rmatch ≤ sfuel) :
    (parseWithRecovery g la rmatch w sfuel).ok = true :=
  recovery_total_explicit (readGrammar_hasTotalLoss h) la rmatch w hf

/-- C06 (recovery on): every callback has `first ignored ≤ first recovered ≤ token count`, an
error token inside the input (end of input = `|w|`), `first ignored ≤ error token`; error tokens
strictly increase from call to call. -/
theorem accepted_calls_wf {raw : RawGrammar} {g : Grammar} (h : readGrammar raw = .ok g)
    (la rmatch : Nat) (w : List Nat) {sfuel : Nat} (hf : recFuel w rmatch ≤ sfuel) :
    (∀ c ∈ (parseWithRecovery g la rmatch w sfuel).calls,
      c.2.1 ≤ c.2.2 ∧ c.2.2 ≤ w.length ∧ c.1 ≤ w.length ∧ c.2.1 ≤ c.1) ∧
    ((parseWithRecovery g la rmatch w sfuel).calls.map (·.1)).Pairwise (· < ·) :=
  ⟨calls_wf (accepted_recovery_ok h la rmatch w hf),
   calls_increasing (accepted_recovery_ok h la rmatch w hf)⟩

/-- C06: the first callback reports the first error of the plain (non-recovering) parse -/
theorem accepted_first_call {raw : RawGrammar} {g : Grammar} (h : readGrammar raw = .ok g)
    (la rmatch : Nat) (w : List Nat) {sfuel : Nat} (hf : recFuel w rmatch ≤ sfuel) {e a b : Nat}
    (hc : (parseWithRecovery g la rmatch w sfuel).calls.head? = some (e, a, b)) :
    (buildPL g la w).1 = some e :=
  first_call_is_firstError (accepted_recovery_ok h la rmatch w hf) hc

/-- C07: `syntax_error` is called at least once iff the sequence is not a sentence -/
theorem accepted_calls_iff_not_sentence {raw : RawGrammar} {g : Grammar}
    (h : readGrammar raw = .ok g) {la : Nat} (hla : la ≤ 1) (rmatch : Nat) {w : List Nat}
    (htok : UserTokens g w) {sfuel : Nat} (hf : recFuel w rmatch ≤ sfuel) :
    (parseWithRecovery g la rmatch w sfuel).calls ≠ [] ↔ ¬ Sentence g w := by
  have h1 := calls_nil_iff_accepts (accepted_recovery_ok h la rmatch w hf)
  have h2 := accepts_iff_sentence (readGrammar_wf h) (readGrammar_symsInRange h) htok hla
  constructor
  · intro hne hs
    exact hne (h1.mpr (h2.mpr hs))
  · intro hns hnil
    exact hns (h2.mp (h1.mp hnil))

/-- C08: for the first error the number of tokens reported as ignored is not larger than the
cost of any simple recovery (the oracle `simpleRecoveryCosts` is defined from the statement) -/
theorem accepted_recover_minimal {raw : RawGrammar} {g : Grammar} (h : readGrammar raw = .ok g)
    (la rmatch : Nat) (w : List Nat) {sfuel : Nat} (hf : recFuel w rmatch ≤ sfuel) {e a b : Nat}
    (hc : (parseWithRecovery g la rmatch w sfuel).calls.head? = some (e, a, b)) :
    ∀ c ∈ simpleRecoveryCosts g g.analysis la rmatch (w ++ [g.eofT]) (firstErrorPl g la w) e,
      b - a ≤ c :=
  recover_minimal (accepted_recovery_ok h la rmatch w hf) hc

/-- C07: the final list ends with a completed `$S` rule on the end marker and every set of it is
what the set construction gives on the repaired input -/
theorem accepted_recovery_final {raw : RawGrammar} {g : Grammar} (h : readGrammar raw = .ok g)
    (la rmatch : Nat) (w : List Nat) {sfuel : Nat} (hf : recFuel w rmatch ≤ sfuel) :
    (∃ s it rl, (parseWithRecovery g la rmatch w sfuel).pl.getLast? = some s ∧
      s.term = some g.eofT ∧ s.tok = some w.length ∧ it ∈ s.items ∧
      g.rules[it.rule]? = some rl ∧ rl.lhs = g.axiomN ∧ it.dot = rl.rhs.length ∧
      (it.rule = 0 ∨ rl.rhs = [Sym.t g.errT, Sym.t g.eofT])) ∧
    RunOk g g.analysis la (w ++ [g.eofT]) (parseWithRecovery g la rmatch w sfuel).pl :=
  let r := recovery_total_final (readGrammar_wf h) (readGrammar_hasTotalLoss h) la rmatch w hf
  ⟨r.1, r.2.2⟩

/-! ## non-vacuity: the fuel is a number, the hypotheses are met by a concrete run -/

example : recFuel [2, 2, 2] 1 = 729 := by decide

example : (parseWithRecovery c07Grammar 0 1 [2, 2, 2] 729).ok = true :=
  recovery_total_explicit (g := c07Grammar) (by decide) 0 1 [2, 2, 2] (by decide)

end Yaep
