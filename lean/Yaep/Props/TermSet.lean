import Yaep.Model.TermSet
/-!
# Terminal sets: the word-level operations implement finite sets of terminals

For sets of `nWords n` words and terminal numbers below `n` (the C assertions
`num < symbs_ptr->n_terms`): `test` after `clear` / `up` / `or` is membership in the empty
set / the set with one more element / the union, the change flags say exactly whether the set
grew, no operation leaves the machine word (`Words`), the shift is by less than the word size,
and equal word lists = equal sets (the key equality of the terminal-set table is set equality).
-/
namespace Yaep.TS

theorem bitOf_eq (num : Nat) : bitOf num = 2 ^ (num % W) := by
  unfold bitOf; exact Nat.one_shiftLeft _

/-- the shifted bit stays inside the word: the shift amount is below the word size (the repaired
defect shifted a signed 1 into the sign bit) -/
theorem bitOf_lt (num : Nat) : bitOf num < 2 ^ W := by
  rw [bitOf_eq]; exact Nat.pow_lt_pow_right (by decide) (Nat.mod_lt _ (by decide))

theorem and_bitOf_ne_zero (x num : Nat) : ((x &&& bitOf num) != 0) = x.testBit (num % W) := by
  rw [bitOf_eq]
  cases h : x.testBit (num % W)
  · have : x &&& 2 ^ (num % W) = 0 := by
      apply Nat.eq_of_testBit_eq; intro i
      rw [Nat.testBit_and, Nat.testBit_two_pow, Nat.zero_testBit]
      by_cases e : num % W = i
      · subst e; simp [h]
      · simp [e]
    simp [this]
  · have : (x &&& 2 ^ (num % W)).testBit (num % W) = true := by
      rw [Nat.testBit_and, Nat.testBit_two_pow_self, h]; rfl
    have hne : x &&& 2 ^ (num % W) ≠ 0 := by
      intro e; rw [e, Nat.zero_testBit] at this; exact absurd this (by decide)
    simp [hne]

/-- `term_set_test` reads bit `num % 64` of word `num / 64` -/
theorem test_eq (s : TSet) (num : Nat) : test s num = (s.getD (num / W) 0).testBit (num % W) := by
  unfold test; exact and_bitOf_ne_zero _ _

theorem test_clear (n num : Nat) : test (clear n) num = false := by
  rw [test_eq]; unfold clear
  have : (List.replicate (nWords n) 0).getD (num / W) 0 = 0 := by
    simp only [List.getD_eq_getElem?_getD, List.getElem?_replicate]; split <;> rfl
  rw [this, Nat.zero_testBit]

theorem clear_length (n : Nat) : (clear n).length = nWords n := by simp [clear]

theorem clear_words (n : Nat) : Words (clear n) := by
  intro x hx; unfold clear at hx
  rw [List.eq_of_mem_replicate hx]; exact Nat.pow_pos (by decide)

/-- a terminal number below `n` lies inside a set of `nWords n` words -/
theorem ind_lt {n num : Nat} (h : num < n) : num / W < nWords n := by
  unfold nWords W; omega

theorem up_length (s : TSet) (num : Nat) : (up s num).1.length = s.length := by simp [up]

/-- `term_set_up`: afterwards exactly `num` has been added … -/
theorem test_up {s : TSet} {num : Nat} (h : num / W < s.length) (m : Nat) :
    test (up s num).1 m = (decide (m = num) || test s m) := by
  rw [test_eq, test_eq]
  unfold up
  simp only [List.getD_eq_getElem?_getD, List.getElem?_set]
  by_cases e : num / W = m / W
  · rw [if_pos e, if_pos h]
    simp only [Option.getD_some]
    rw [Nat.testBit_or, bitOf_eq, Nat.testBit_two_pow, ← e]
    by_cases e2 : num % W = m % W
    · have : m = num := by
        have h1 := Nat.div_add_mod num W; have h2 := Nat.div_add_mod m W
        rw [e, e2] at h1; omega
      subst this; simp
    · have : m ≠ num := by intro x; subst x; exact e2 rfl
      simp [e2, this, Bool.or_comm]
  · rw [if_neg e]
    have : m ≠ num := by intro x; subst x; exact e rfl
    simp [this]

/-- … and the returned flag says whether it was new -/
theorem up_changed (s : TSet) (num : Nat) : (up s num).2 = !test s num := by
  unfold up test
  simp only
  cases h : (s.getD (num / W) 0 &&& bitOf num) == 0 <;> simp_all [bne]

theorem up_words {s : TSet} (hs : Words s) (num : Nat) : Words (up s num).1 := by
  intro x hx
  unfold up at hx
  simp only at hx
  rcases List.mem_or_eq_of_mem_set hx with h | h
  · exact hs x h
  · rw [h]
    apply Nat.or_lt_two_pow _ (bitOf_lt num)
    by_cases hl : num / W < s.length
    · rw [List.getD_eq_getElem?_getD, List.getElem?_eq_getElem hl]
      exact hs _ (List.getElem_mem hl)
    · rw [List.getD_eq_getElem?_getD, List.getElem?_eq_none (by omega)]
      exact Nat.pow_pos (by decide)

theorem or_length : ∀ (a b : TSet), (or a b).1.length = a.length
  | [], _ => by simp [or]
  | _ :: _, [] => by simp [or]
  | a :: as, b :: bs => by simp [or, or_length as bs]

theorem or_getD : ∀ (a b : TSet) (hl : a.length = b.length) (i : Nat),
    (or a b).1.getD i 0 = (a.getD i 0 ||| b.getD i 0)
  | [], [], _, i => by simp [or]
  | [], _ :: _, hl, _ => by simp at hl
  | _ :: _, [], hl, _ => by simp at hl
  | a :: as, b :: bs, hl, i => by
    cases i with
    | zero => simp [or]
    | succ j =>
      have := or_getD as bs (by simpa using hl) j
      simpa [or] using this

/-- `term_set_or`: the result is the union … -/
theorem test_or {a b : TSet} (hl : a.length = b.length) (m : Nat) :
    test (or a b).1 m = (test a m || test b m) := by
  rw [test_eq, test_eq, test_eq, or_getD a b hl, Nat.testBit_or]

theorem or_words : ∀ {a b : TSet}, Words a → Words b → Words (or a b).1
  | [], _, ha, _ => by simpa [or] using ha
  | _ :: _, [], ha, _ => by simpa [or] using ha
  | a :: as, b :: bs, ha, hb => by
    intro x hx
    simp only [or, List.mem_cons] at hx
    rcases hx with h | h
    · rw [h]; exact Nat.or_lt_two_pow (ha a List.mem_cons_self) (hb b List.mem_cons_self)
    · exact or_words (fun y hy => ha y (List.mem_cons_of_mem _ hy)) (fun y hy => hb y (List.mem_cons_of_mem _ hy)) x h

/-- … and the flag is raised iff some word, i.e. some bit, is new: the change flag of the
FIRST / FOLLOW fixpoint is exact -/
theorem or_changed : ∀ (a b : TSet), a.length = b.length →
    ((or a b).2 = true ↔ ∃ i k, (b.getD i 0).testBit k = true ∧ (a.getD i 0).testBit k = false)
  | [], [], _ => by simp [or]
  | [], _ :: _, hl => by simp at hl
  | _ :: _, [], hl => by simp at hl
  | a :: as, b :: bs, hl => by
    have ih := or_changed as bs (by simpa using hl)
    simp only [or, Bool.or_eq_true, bne_iff_ne, ne_eq]
    constructor
    · rintro (h | h)
      · have : ∃ k, (a ||| b).testBit k ≠ a.testBit k := by
          apply Classical.byContradiction; intro hn
          apply h; apply Nat.eq_of_testBit_eq; intro k
          exact Classical.byContradiction fun hk => hn ⟨k, hk⟩
        obtain ⟨k, hk⟩ := this
        rw [Nat.testBit_or] at hk
        refine ⟨0, k, ?_, ?_⟩ <;> simp only [List.getD_cons_zero]
        · cases hb : b.testBit k <;> simp_all
        · cases ha : a.testBit k <;> simp_all
      · obtain ⟨i, k, h1, h2⟩ := ih.mp h
        exact ⟨i + 1, k, by simpa using h1, by simpa using h2⟩
    · rintro ⟨i, k, h1, h2⟩
      cases i with
      | zero =>
        left
        simp only [List.getD_cons_zero] at h1 h2
        intro e
        have : (a ||| b).testBit k = a.testBit k := by rw [e]
        rw [Nat.testBit_or, h1, h2] at this; simp at this
      | succ j =>
        right
        exact ih.mpr ⟨j, k, by simpa using h1, by simpa using h2⟩

/-- equal word lists are equal sets, and for word lists of the same length inside the machine
word the converse holds: `term_set_eq` (the key equality of the table that numbers the sets) is
equality of the sets of terminals up to the padding bits — which are never set (`test` of
numbers below `64 * length` determines every word) -/
theorem eq_iff_test {a b : TSet} (hl : a.length = b.length) (ha : Words a) (hb : Words b) :
    a = b ↔ ∀ m, m < W * a.length → test a m = test b m := by
  constructor
  · intro e _ _; rw [e]
  · intro h
    apply List.ext_getElem hl
    intro i h1 h2
    apply Nat.eq_of_testBit_eq
    intro k
    by_cases hk : k < W
    · have hm : i * W + k < W * a.length := by
        have : (i + 1) * W ≤ a.length * W := Nat.mul_le_mul_right _ h1
        rw [Nat.mul_comm W]; rw [Nat.add_mul] at this; omega
      have := h (i * W + k) hm
      rw [test_eq, test_eq] at this
      have e1 : (i * W + k) / W = i := by
        rw [Nat.mul_comm, Nat.mul_add_div (by decide), Nat.div_eq_of_lt hk]; rfl
      have e2 : (i * W + k) % W = k := by
        rw [Nat.mul_comm, Nat.mul_add_mod, Nat.mod_eq_of_lt hk]
      rw [e1, e2] at this
      simpa [List.getD_eq_getElem?_getD, List.getElem?_eq_getElem h1, List.getElem?_eq_getElem h2] using this
    · have hk' : W ≤ k := by omega
      have la := ha _ (List.getElem_mem h1)
      have lb := hb _ (List.getElem_mem h2)
      rw [Nat.testBit_lt_two_pow (Nat.lt_of_lt_of_le la (Nat.pow_le_pow_right (by decide) hk')),
          Nat.testBit_lt_two_pow (Nat.lt_of_lt_of_le lb (Nat.pow_le_pow_right (by decide) hk'))]

/-- the terminals of a set after adding one (abstract view of `term_set_up`) -/
theorem members_up {n : Nat} {s : TSet} (hl : s.length = nWords n) {num : Nat} (hn : num < n) (m : Nat) :
    m ∈ members (up s num).1 n ↔ m = num ∨ m ∈ members s n := by
  unfold members
  simp only [List.mem_filter, List.mem_range]
  rw [test_up (by rw [hl]; exact ind_lt hn)]
  constructor
  · rintro ⟨h1, h2⟩
    rcases Bool.or_eq_true _ _ |>.mp h2 with h | h
    · left; exact of_decide_eq_true h
    · right; exact ⟨h1, h⟩
  · rintro (h | ⟨h1, h2⟩)
    · subst h; exact ⟨hn, by simp⟩
    · exact ⟨h1, by simp [h2]⟩

/-! non-vacuity / tests by evaluation: 70 terminals need two words; terminal 63 is the former
sign bit, terminal 64 the first bit of the second word -/
example : nWords 70 = 2 ∧ (clear 70).length = 2 := by decide
example : test (up (up (clear 70) 63).1 64).1 63 = true ∧ test (up (up (clear 70) 63).1 64).1 64 = true ∧
    test (up (up (clear 70) 63).1 64).1 62 = false ∧ (up (up (clear 70) 63).1 63).2 = false := by decide
example : (or (up (clear 70) 5).1 (up (clear 70) 69).1).2 = true ∧ (or (up (clear 70) 5).1 (up (clear 70) 5).1).2 = false := by decide

end Yaep.TS
