import Yaep.Lemmas.Prune
import Yaep.Lemmas.Examples
/-!
# C04 — the cost flag: pruning to minimal cost and the accumulated `cost` fields

`prune all n` models what the parser does to the forest `n` under the cost flag: every ALT
node keeps its alternatives of minimal cost (all of them, or only the first), and the `cost`
field of an abstract node becomes its own cost plus the minimal costs of its children.

Because the total cost is additive over children (`totalCost_anode`), minimising at every
ALT occurrence independently yields exactly the globally minimal trees:

* `prune_denote_all`: the pruned forest (all) denotes exactly the trees of minimal total cost
  of the unpruned forest, with accumulated cost fields (`Tree.accum`);
* `prune_one_mem`: the pruned forest (one) denotes exactly one of them;
* `accum_cost_law` / `pruned_cost_law`: in those trees the field of every abstract node is
  its own cost (the one it has in the unpruned forest) plus the fields of its children.

All statements assume `n.total`: no ALT node without alternatives (such a node denotes no
tree at all; the parser never builds one, and the statements are false without it, see the
last example).
-/
namespace Yaep

/-- the total cost is additive: own cost plus the total costs of the children -/
theorem totalCost_anode (n : String) (c : Nat) (ks : List Tree) :
    (Tree.anode n c ks).totalCost = c + (ks.map Tree.totalCost).sum := by
  have : ∀ ks : List Tree, Tree.totalCostList ks = (ks.map Tree.totalCost).sum := by
    intro ks
    induction ks with
    | nil => simp [Tree.totalCostList]
    | cons k ks ih => simp [Tree.totalCostList, ih]
  simp [Tree.totalCost, this]

/-- the number `prune` returns is a lower bound of the total costs … -/
theorem prune_cost_le {all : Bool} {n : Node} (h : n.total = true) {t : Tree}
    (ht : t ∈ denote n) : (prune all n).2 ≤ t.totalCost :=
  (good_of_total all n h).le t ht

/-- … that is attained: it is the minimal total cost -/
theorem prune_cost_attained (all : Bool) {n : Node} (h : n.total = true) :
    ∃ t ∈ denote n, t.totalCost = (prune all n).2 := by
  have g := good_of_total all n h
  obtain ⟨t', tl, e⟩ := List.exists_cons_of_ne_nil g.ne
  obtain ⟨t, ht, hc, -⟩ := g.sound t' (by rw [e]; simp)
  exact ⟨t, ht, hc⟩

/-- the trees of minimal total cost are those whose cost is the computed minimum -/
theorem isMinCost_iff (all : Bool) {n : Node} (h : n.total = true) {t : Tree} :
    IsMinCost (denote n) t ↔ (t ∈ denote n ∧ t.totalCost = (prune all n).2) := by
  constructor
  · rintro ⟨ht, hmin⟩
    obtain ⟨u, hu, hc⟩ := prune_cost_attained all h
    have := hmin u hu
    have := prune_cost_le (all := all) h ht
    exact ⟨ht, by omega⟩
  · rintro ⟨ht, hc⟩
    exact ⟨ht, fun u hu => by have := prune_cost_le (all := all) h hu; omega⟩

/-- whatever the pruned forest denotes is a minimal-cost tree of the unpruned forest with
accumulated cost fields -/
theorem prune_sound (all : Bool) {n : Node} (h : n.total = true) {t' : Tree}
    (ht' : t' ∈ denote (prune all n).1) : ∃ t, IsMinCost (denote n) t ∧ t' = t.accum := by
  obtain ⟨t, ht, hc, e⟩ := (good_of_total all n h).sound t' ht'
  exact ⟨t, (isMinCost_iff all h).2 ⟨ht, hc⟩, e⟩

/-- pruning (all): the pruned forest denotes exactly the minimal-cost trees, with accumulated
cost fields -/
theorem prune_denote_all {n : Node} (h : n.total = true) {t' : Tree} :
    t' ∈ denote (prune true n).1 ↔ ∃ t, IsMinCost (denote n) t ∧ t' = t.accum := by
  constructor
  · exact prune_sound true h
  · rintro ⟨t, ht, rfl⟩
    obtain ⟨hm, hc⟩ := (isMinCost_iff true h).1 ht
    exact (good_of_total true n h).complete rfl t hm hc

/-- the same, as a filter of the unpruned denotation -/
theorem prune_denote_all_filter {n : Node} (h : n.total = true) {t' : Tree} :
    t' ∈ denote (prune true n).1 ↔
      t' ∈ ((denote n).filter fun t => t.totalCost == (prune true n).2).map Tree.accum := by
  rw [prune_denote_all h]
  simp only [List.mem_map, List.mem_filter, beq_iff_eq]
  constructor
  · rintro ⟨t, ht, rfl⟩; exact ⟨t, (isMinCost_iff true h).1 ht, rfl⟩
  · rintro ⟨t, ht, rfl⟩; exact ⟨t, (isMinCost_iff true h).2 ht, rfl⟩

/-- pruning (one): the pruned forest denotes exactly one tree, a minimal-cost tree of the
unpruned forest with accumulated cost fields -/
theorem prune_one_mem {n : Node} (h : n.total = true) :
    ∃ t, IsMinCost (denote n) t ∧ denote (prune false n).1 = [t.accum] := by
  have g := good_of_total false n h
  have hl := g.one rfl
  match hd : denote (prune false n).1, hl with
  | [t'], _ =>
    obtain ⟨t, ht, e⟩ := prune_sound false h (t' := t') (by rw [hd]; simp)
    exact ⟨t, ht, by rw [e]⟩

/-- the pruned forest is never empty -/
theorem prune_denote_ne_nil (all : Bool) {n : Node} (h : n.total = true) :
    denote (prune all n).1 ≠ [] :=
  (good_of_total all n h).ne

/-- the root field of the accumulated tree is the total cost … -/
theorem accum_field (t : Tree) : t.accum.field = t.totalCost :=
  accum_field_eq t

/-- … and so the sum of the children's fields is the sum of their total costs -/
theorem fieldSum_accum (ts : List Tree) :
    Tree.fieldSum (ts.map Tree.accum) = (ts.map Tree.totalCost).sum := by
  rw [← accumList_eq_map, fieldSum_accumList]
  induction ts with
  | nil => simp [Tree.totalCostList]
  | cons k ks ih => simp [Tree.totalCostList, ih]

/-- the additive law: every abstract node of `t.accum` stems from an abstract node of `t`
(same name, children accumulated) and its field is that node's own cost plus the fields of
its children -/
theorem accum_cost_law {t : Tree} {nm : String} {f : Nat} {ks' : List Tree}
    (h : Tree.Sub (.anode nm f ks') t.accum) :
    ∃ c ks, Tree.Sub (.anode nm c ks) t ∧ ks' = ks.map Tree.accum ∧
      f = c + Tree.fieldSum ks' := by
  obtain ⟨u, hu, e⟩ := sub_accum t h
  cases u with
  | anode n c ks =>
    simp only [Tree.accum, Tree.anode.injEq] at e
    obtain ⟨rfl, rfl, rfl⟩ := e
    exact ⟨c, ks, hu, accumList_eq_map ks, rfl⟩
  | nil => simp [Tree.accum] at e
  | error => simp [Tree.accum] at e
  | term _ _ => simp [Tree.accum] at e

/-- the additive law for the trees of the pruned forest; the own cost is the cost of the
corresponding abstract node of a tree of the *unpruned* forest -/
theorem pruned_cost_law (all : Bool) {n : Node} (h : n.total = true) {t' : Tree}
    (ht' : t' ∈ denote (prune all n).1) {nm : String} {f : Nat} {ks' : List Tree}
    (hs : Tree.Sub (.anode nm f ks') t') :
    ∃ t, IsMinCost (denote n) t ∧ ∃ c ks, Tree.Sub (.anode nm c ks) t ∧
      ks' = ks.map Tree.accum ∧ f = c + Tree.fieldSum ks' := by
  obtain ⟨t, ht, rfl⟩ := prune_sound all h ht'
  exact ⟨t, ht, accum_cost_law hs⟩

/-! ## non-vacuity -/

namespace C04Ex

example : n.total = true := by decide
example : denote n = [tx, ty, tz] := by rfl
example : tx.totalCost = 9 ∧ ty.totalCost = 10 ∧ tz.totalCost = 9 := by decide
example : tx.totalCost = 5 + ([Tree.anode "x" 1 [.term 97 0], .anode "w" 3 []].map
    Tree.totalCost).sum := totalCost_anode _ _ _
example : (prune true n).2 = 9 := by decide
example : (prune true n).1 =
    .anode "top" 9 [.alt [.anode "x" 1 [.term 97 0], .anode "z" 1 [.term 99 0]],
      .anode "w" 3 []] := by rfl
example : (prune false n).1 =
    .anode "top" 9 [.alt [.anode "x" 1 [.term 97 0]], .anode "w" 3 []] := by rfl
example : tx.accum = .anode "top" 9 [.anode "x" 1 [.term 97 0], .anode "w" 3 []] := by rfl
example : denote (prune true n).1 = [tx.accum, tz.accum] := by rfl
example : denote (prune false n).1 = [tx.accum] := by rfl

example : IsMinCost (denote n) tx :=
  (isMinCost_iff true (n := n) (by decide)).2
    ⟨by simp [show denote n = [tx, ty, tz] from rfl], by decide⟩

example : tx.accum ∈ denote (prune true n).1 :=
  (prune_denote_all (n := n) (by decide)).2 ⟨tx, (isMinCost_iff true (n := n) (by decide)).2
    ⟨by simp [show denote n = [tx, ty, tz] from rfl], by decide⟩, rfl⟩
example : tz.accum ∈ ((denote n).filter fun t => t.totalCost == (prune true n).2).map Tree.accum :=
  (prune_denote_all_filter (n := n) (by decide)).1
    (by rw [show denote (prune true n).1 = [tx.accum, tz.accum] from rfl]; simp)
example : ¬ IsMinCost (denote n) ty := fun h =>
  absurd ((isMinCost_iff true (n := n) (by decide)).1 h).2 (by decide)
example : ∃ t, IsMinCost (denote n) t ∧ denote (prune false n).1 = [t.accum] :=
  prune_one_mem (by decide)
example : ∀ t' ∈ denote (prune false n).1, ∃ t, IsMinCost (denote n) t ∧ t' = t.accum :=
  fun _ h => prune_sound false (by decide) h
example : ∃ t ∈ denote n, t.totalCost = (prune false n).2 := prune_cost_attained false (by decide)
example : (prune true n).2 ≤ ty.totalCost :=
  prune_cost_le (n := n) (by decide) (by simp [show denote n = [tx, ty, tz] from rfl])
example : denote (prune true n).1 ≠ [] := prune_denote_ne_nil true (by decide)
example : tx.accum.field = 9 := by rw [accum_field]; decide
example : Tree.fieldSum ([Tree.anode "x" 1 [.term 97 0], .anode "w" 3 []].map Tree.accum) = 4 := by
  rw [fieldSum_accum]; decide
/-- the law at the root of `tx.accum`: 9 = 5 + (1 + 3) -/
example : ∃ c ks, Tree.Sub (.anode "top" c ks) tx ∧
    [Tree.anode "x" 1 [.term 97 0], .anode "w" 3 []] = ks.map Tree.accum ∧
    9 = c + Tree.fieldSum [Tree.anode "x" 1 [.term 97 0], .anode "w" 3 []] :=
  accum_cost_law (t := tx) (.refl _)
example : ∃ t, IsMinCost (denote n) t ∧ ∃ c ks, Tree.Sub (.anode "x" c ks) t ∧
    [Tree.term 97 0] = ks.map Tree.accum ∧ 1 = c + Tree.fieldSum [Tree.term 97 0] :=
  pruned_cost_law true (n := n) (by decide)
    (t' := .anode "top" 9 [.anode "x" 1 [.term 97 0], .anode "w" 3 []])
    (by rw [show denote (prune true n).1 =
          [.anode "top" 9 [.anode "x" 1 [.term 97 0], .anode "w" 3 []], tz.accum] from rfl]
        exact List.mem_cons_self)
    (.kid (k := .anode "x" 1 [.term 97 0]) List.mem_cons_self (.refl _))

/-- an accumulating example with nesting: fields 6 = 1 + (2 + 3), inner 3 = 3 + 0 -/
example : (Tree.anode "a" 1 [.anode "b" 2 [], .nil, .anode "c" 3 [.term 1 1]]).accum =
    .anode "a" 6 [.anode "b" 2 [], .nil, .anode "c" 3 [.term 1 1]] := by rfl
example : (Tree.anode "a" 1 [.anode "b" 2 [.anode "c" 3 []]]).accum =
    .anode "a" 6 [.anode "b" 5 [.anode "c" 3 []]] := by rfl

/-- without `total` the statements fail (see `C04Ex.bad`) -/
example : bad.total = false := by decide
example : denote bad = [.anode "b" 5 []] := by rfl
example : denote (prune true bad).1 = [] := by rfl

end C04Ex

end Yaep
