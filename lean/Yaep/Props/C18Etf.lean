import Yaep.Lemmas.EtfSets
import Yaep.Lemmas.EtfSets2
import Yaep.Lemmas.EtfPerf
import Yaep.Lemmas.EtfStep
/-!
# C18 beyond lists — bounded Earley sets for the arithmetic-expression family

Property C18 says that on unambiguous left-recursive LR-style grammars the work of `yaep_parse`
grows linearly with the input.  What Lean carries is the reason: the Earley sets have bounded size.
`Yaep/Props/C18.lean` shows it for the list grammar; here

1. **the general shape** (any grammar, any input, any lookahead level): a set whose items mention at
   most `c` origins has at most `c * |rules| * (maxRhs + 1)` items (`origins_bound_set`), so "at most
   `c` origins per set" gives a parse list of at most `c * |rules| * (maxRhs + 1) * (|w| + 2)` items
   (`origins_bound_total`); the same for the step model of `build_pl`, where situations are counted
   with multiplicity (`origins_bound_set_step`, `origins_bound_total_step`).  A second general
   criterion, used below: a *sound, backward-deterministic span model* of the grammar bounds every
   set by the number of dotted rules (`det_model_bound`).

2. **the arithmetic family** `E : E '+' T | T ; T : T '*' F | F ; F : 'a' | '(' E ')'`
   (`etfGrammar`, read by the models of `yaep_parse_grammar` / `yaep_read_grammar` from the
   description of the project's performance case): EVERY set of EVERY input (sentence or not,
   whatever the nesting depth) has at most **8** items (`etfSets_bounded_any`; 8 is attained by
   set 0) and mentions at most **4** origins (`etfSets_origins`; attained), at every lookahead level
   of the model `buildPL`; the same at level 2 (`etfSets2_bounded`) and in the step model of
   `build_pl`, which counts situations with multiplicity (`etfSetsC_bounded`).  Hence the total
   number of items is linear in the input length for ALL inputs (`etfSets_total_linear`,
   `etfSetsC_total_linear`).

   FINDING (a strengthening of the conjecture of the brief, not a defect): the bounds do not depend
   on the number `d` of open parentheses — the conjectured `3 * (d + 1)` origins per set are not
   needed.  An item `(r, d, i)` of set `j` spans the tokens `[i, j)`, and such a segment is
   balanced, except for the items `F : ( . E )`, `F : ( E . )` which span their own `(`
   (`etfSets_item_depth`): the items that wait for the enclosing `)` are in EARLIER sets.  An item
   of a set is determined by its rule and dot (`etfSets_item_determined`).  No family of inputs
   with growing sets exists for this grammar.

3. **the performance input** `(a + a * ( a ) +)^k a` of the project: accepted, `8 k + 3` sets, each
   of at most 8 items (`etfPerf_sets`), at most `8 * (8 k + 3)` items altogether.

Helper lemmas: `Yaep/Lemmas/EtfSpan.lean` (span models, any grammar), `EtfSets.lean` (the model of
`etfGrammar`), `EtfSets2.lean` (level 2), `EtfPerf.lean`, `EtfStep.lean` (step model).
-/
namespace Yaep.ETF
open Yaep

/-! ## 0. the grammar -/

/-- the model of `yaep_read_grammar` builds `etfGrammar` from the description
`E : E '+' T # p (0 2) | T # 0 ; T : T '*' F # m (0 2) | F # 0 ; F : 'a' # 0 | '(' E ')' # 1` -/
theorem etfGrammar_read : readGrammar etfRaw = .ok etfGrammar := etf_readGrammar

/-- `etfRaw` is what the model of `yaep_parse_grammar` makes of the description text of the
performance case -/
theorem etfRaw_of_description :
    descrToRaw (etfDescr.toList.map fun c => c.toNat.toUInt8) false = .ok etfRaw := etf_descrToRaw

theorem etfGrammar_wf : etfGrammar.WF ∧ etfGrammar.symsInRange = true := etf_wf

/-! ## 1. bounded origins per set ⇒ bounded sets ⇒ linear total (any grammar) -/

/-- a set of the parse list all of whose origins are among the `c` elements of `O` has at most
`c * |rules| * (maxRhs + 1)` items (any grammar, input, lookahead level) -/
theorem origins_bound_set (g : Grammar) (la : Nat) (w : List Nat) (j : Nat)
    (h : j < (buildPL g la w).2.length) (O : List Nat)
    (hO : ∀ it ∈ (buildPL g la w).2[j], it.origin ∈ O) :
    ((buildPL g la w).2[j]).length ≤ O.length * (g.rules.length * (g.maxRhs + 1)) :=
  buildPL_set_le_of_origins g la w j h O hO

/-- if every set mentions at most `c` origins, the whole parse list has at most
`C * (|w| + 2)` items with `C = c * |rules| * (maxRhs + 1)` -/
theorem origins_bound_total (g : Grammar) (la : Nat) (w : List Nat) (c : Nat)
    (hO : ∀ s ∈ (buildPL g la w).2, ∃ O : List Nat, O.length ≤ c ∧ ∀ it ∈ s, it.origin ∈ O) :
    ((buildPL g la w).2.map List.length).sum ≤
      c * (g.rules.length * (g.maxRhs + 1)) * (w.length + 2) :=
  buildPL_total_le_of_origins g la w c hO

/-- the same for the step model of `build_pl`, situations counted with multiplicity
(`R = BS.sitBound g = |rules| * (maxRhs + 1)`) -/
theorem origins_bound_set_step (g : Grammar) (la : Nat) (w : List Nat) (j : Nat)
    (hj : j < (BS.buildPLC g la w).2.2.length) (O : List Nat)
    (hO : ∀ it ∈ (buildPL g la w).2.getD j [], it.origin ∈ O) :
    ((BS.buildPLC g la w).2.2.getD j default).core.sits.length ≤
      O.length * BS.sitBound g * (g.maxRhs + 1) + BS.sitBound g :=
  buildPLC_sits_le_of_origins g la w j hj O hO

theorem origins_bound_total_step (g : Grammar) (la : Nat) (w : List Nat) (c : Nat)
    (hO : ∀ j, j < (buildPL g la w).2.length →
      ∃ O : List Nat, O.length ≤ c ∧ ∀ it ∈ (buildPL g la w).2.getD j [], it.origin ∈ O) :
    ((BS.buildPLC g la w).2.2.map fun cs => cs.core.sits.length).sum ≤
      (c * BS.sitBound g * (g.maxRhs + 1) + BS.sitBound g) * (w.length + 2) := by
  apply buildPLC_total_le
  intro j hj
  obtain ⟨O, hOc, hO'⟩ := hO j (by rw [← buildPLC_length_eq]; exact hj)
  have h1 := buildPLC_sits_le_of_origins g la w j hj O hO'
  have h2 := Nat.mul_le_mul_right (g.maxRhs + 1) (Nat.mul_le_mul_right (BS.sitBound g) hOc)
  omega

/-- a set of the step model against the abstract set at the same position -/
theorem step_set_le_abstract (g : Grammar) (la : Nat) (w : List Nat) (j : Nat)
    (hj : j < (BS.buildPLC g la w).2.2.length) :
    ((BS.buildPLC g la w).2.2.getD j default).core.sits.length ≤
      ((buildPL g la w).2.getD j []).length * (g.maxRhs + 1) + BS.sitBound g :=
  buildPLC_sits_le g la w j hj

/-- for a well-formed grammar without nullable nonterminals a set of the step model holds no item
twice: it is not bigger than the abstract set -/
theorem step_set_le_abstract_no_nullable {g : Grammar} (hwf : g.WF) (hnl : g.nullable = [])
    (la : Nat) (w : List Nat) (j : Nat) (hj : j < (BS.buildPLC g la w).2.2.length) :
    ((BS.buildPLC g la w).2.2.getD j default).core.sits.length ≤
      ((buildPL g la w).2.getD j []).length :=
  buildPLC_sits_le_of_no_nullable hwf hnl la w j hj

/-- **a sound backward-deterministic span model bounds every set by the number of dotted rules**
(any input, any level): the items of a set are determined by rule and dot -/
theorem det_model_bound {M : SpanModel} (g : Grammar) (la : Nat) (w : List Nat)
    (hM : M.Sound g (w ++ [g.eofT])) (hD : M.Det) (j : Nat) (h : j < (buildPL g la w).2.length) :
    ((buildPL g la w).2[j]).length ≤ g.rules.length * (g.maxRhs + 1) :=
  buildPL_length_le_of_det g la w hM hD j h

/-! ## 2. the arithmetic-expression grammar: at most 8 items per set, every input -/

/-- **every set of the parse list of `etfGrammar` has at most 8 items** — every input (any token
sequence), every lookahead level of the model `buildPL`, whatever the nesting depth -/
theorem etfSets_bounded_any (la : Nat) (w : List Nat) (j : Nat)
    (h : j < (buildPL etfGrammar la w).2.length) :
    ((buildPL etfGrammar la w).2[j]).length ≤ 8 :=
  etf_buildPL_le la w j h

/-- **every set mentions at most 4 origins**, whatever the number `d` of open parentheses (the items
of a set fall into 4 classes of equal origin: the phrase of `F`, of `T`, of `E` that ends here, and
the `(` before that `E`): the hypothesis of `origins_bound_total` holds with `c = 4` for every input -/
theorem etfSets_origins (la : Nat) (w : List Nat) :
    ∀ s ∈ (buildPL etfGrammar la w).2, ∃ O : List Nat, O.length ≤ 4 ∧ ∀ it ∈ s, it.origin ∈ O := by
  intro s hs
  obtain ⟨j, hj, rfl⟩ := List.getElem_of_mem hs
  exact etf_origins_le (fun _ hit => buildPL_item hj hit)

/-- **the total number of items is linear in the input length, for every input** -/
theorem etfSets_total_linear (la : Nat) (w : List Nat) :
    ((buildPL etfGrammar la w).2.map List.length).sum ≤ 8 * (w.length + 2) := by
  apply buildPL_total_le
  intro s hs
  obtain ⟨j, hj, rfl⟩ := List.getElem_of_mem hs
  exact etf_buildPL_le la w j hj

/-- an item of a set is determined by its rule and dot -/
theorem etfSets_item_determined (la : Nat) (w : List Nat) (j : Nat)
    (h : j < (buildPL etfGrammar la w).2.length) (a b : Item)
    (ha : a ∈ (buildPL etfGrammar la w).2[j]) (hb : b ∈ (buildPL etfGrammar la w).2[j])
    (hr : a.rule = b.rule) (hd : a.dot = b.dot) : a = b := by
  obtain ⟨r, d, i⟩ := a
  obtain ⟨r', d', i'⟩ := b
  simp only at hr hd
  subst hr; subst hd
  rw [EarleyF.origin_unique (etfModel_sound _) (etfModel_det _) (buildPL_item h ha)
    (buildPL_item h hb)]

/-- **why the nesting depth does not matter**: with `pd m` = number of `(` minus number of `)` among
the first `m` tokens, an item `(r, d, i)` of set `j` has `pd j = pd i`, except `F : ( . E )` and
`F : ( E . )` (rule 6, dots 1 and 2) which have `pd j = pd i + 1` -/
theorem etfSets_item_depth (la : Nat) (w : List Nat) (j : Nat)
    (h : j < (buildPL etfGrammar la w).2.length) (it : Item)
    (hit : it ∈ (buildPL etfGrammar la w).2[j]) :
    it.origin ≤ j ∧ pd (w ++ [6]) j = pd (w ++ [6]) it.origin +
      (if it.rule = 6 ∧ (it.dot = 1 ∨ it.dot = 2) then 1 else 0) :=
  etf_item_depth (buildPL_item h hit)

/-- lookahead level 2 (dynamic contexts): at most 8 items per set, every input -/
theorem etfSets2_bounded (w : List Nat) (j : Nat) (h : j < (buildPL2 etfGrammar w).2.length) :
    ((buildPL2 etfGrammar w).2[j]).length ≤ 8 :=
  etf_buildPL2_le w j h

/-- the step model of `build_pl` (situations with multiplicity): at most 8 per set, every input -/
theorem etfSetsC_bounded (la : Nat) (w : List Nat) (j : Nat)
    (hj : j < (BS.buildPLC etfGrammar la w).2.2.length) :
    ((BS.buildPLC etfGrammar la w).2.2.getD j default).core.sits.length ≤ 8 :=
  etf_buildPLC_le8 la w j hj

theorem etfSetsC_total_linear (la : Nat) (w : List Nat) :
    ((BS.buildPLC etfGrammar la w).2.2.map fun cs => cs.core.sits.length).sum ≤
      8 * (w.length + 2) :=
  buildPLC_total_le etfGrammar la w 8 (etf_buildPLC_le8 la w)

/-! ### non-vacuity, tightness, independence of the depth -/

/-- set 0 has exactly 8 items: the bound is attained -/
example : ((buildPL etfGrammar 0 []).2.getD 0 []).length = 8 := by decide

/-- 4 origins are attained: the set after `( a + a * a` mentions the origins 5, 3, 1, 0 -/
example : (((buildPL etfGrammar 0 [3, 2, 0, 2, 1, 2]).2.getD 6 []).map (·.origin)).eraseDups =
    [5, 3, 1, 0] := by decide +kernel

/-- `( ( ( ( ( ( a`: seven sets after set 0, none bigger than 7, whatever the depth -/
example : (buildPL etfGrammar 0 [3, 3, 3, 3, 3, 3, 2]).2.map List.length = [8, 7, 7, 7, 7, 7, 7, 6] := by
  decide +kernel

/-- a non-sentence: `a + * a` stops at the `*`; the sets built obey the bound -/
example : (buildPL etfGrammar 0 [2, 0, 1, 2]).1 = some 2 ∧
    (buildPL etfGrammar 0 [2, 0, 1, 2]).2.map List.length = [8, 6, 5] := by decide +kernel

/-! ## 3. the performance input `(a + a * ( a ) +)^k a` -/

/-- the performance input is a sentence … -/
theorem etfPerf_sentence (k : Nat) : Sentence etfGrammar (etfPerfInput k) := etfPerfInput_sentence k

/-- … so at levels 0 and 1 all `8 k + 3` sets are built, … -/
theorem etfPerf_count {la : Nat} (hla : la ≤ 1) (k : Nat) :
    (buildPL etfGrammar la (etfPerfInput k)).1 = none ∧
    (buildPL etfGrammar la (etfPerfInput k)).2.length = 8 * k + 3 :=
  etfPerfInput_accepted hla k

/-- … each of at most 8 items, at every lookahead level of the model, … -/
theorem etfPerf_sets (la : Nat) (k : Nat) (j : Nat)
    (h : j < (buildPL etfGrammar la (etfPerfInput k)).2.length) :
    ((buildPL etfGrammar la (etfPerfInput k)).2[j]).length ≤ 8 :=
  etf_buildPL_le la _ j h

theorem etfPerf_sets2 (k : Nat) (j : Nat) (h : j < (buildPL2 etfGrammar (etfPerfInput k)).2.length) :
    ((buildPL2 etfGrammar (etfPerfInput k)).2[j]).length ≤ 8 :=
  etf_buildPL2_le _ j h

/-- … in the step model at most 8 situations, … -/
theorem etfPerf_setsC (la : Nat) (k : Nat) (j : Nat)
    (hj : j < (BS.buildPLC etfGrammar la (etfPerfInput k)).2.2.length) :
    ((BS.buildPLC etfGrammar la (etfPerfInput k)).2.2.getD j default).core.sits.length ≤ 8 :=
  etf_buildPLC_le8 la _ j hj

/-- … and the total number of items is at most `8 * (8 k + 3)`: doubling the input doubles the bound -/
theorem etfPerf_total {la : Nat} (hla : la ≤ 1) (k : Nat) :
    ((buildPL etfGrammar la (etfPerfInput k)).2.map List.length).sum ≤ 8 * (8 * k + 3) := by
  have h := sum_map_le_mul (buildPL etfGrammar la (etfPerfInput k)).2 List.length 8 (by
    intro s hs
    obtain ⟨j, hj, rfl⟩ := List.getElem_of_mem hs
    exact etf_buildPL_le la _ j hj)
  rwa [(etfPerfInput_accepted hla k).2] at h

/-- level 2 accepts the performance input as well -/
theorem etfPerf_accepted2 (k : Nat) : accepts2 etfGrammar (etfPerfInput k) = true := by
  unfold accepts2
  rw [Option.isNone_iff_eq_none]
  exact buildPL2_complete etf_wf.1 etf_wf.2 (etfPerfInput_sentence k)

/-- the same bounds for the 9-token fragment `a + a * ( a ) + a` repeated (for `k ≥ 2` not a
sentence: the parse stops at the second `a a`) -/
theorem etfRep_sets (la : Nat) (k : Nat) (j : Nat)
    (h : j < (buildPL etfGrammar la (etfRepInput k)).2.length) :
    ((buildPL etfGrammar la (etfRepInput k)).2[j]).length ≤ 8 :=
  etf_buildPL_le la _ j h

/-- the sets of `a + a * ( a ) + a + a * ( a ) + a` (`k = 2`), levels 0, 1 and 2: the sizes repeat
with the period of the input -/
example : (buildPL etfGrammar 0 (etfPerfInput 2)).2.map List.length =
    [8, 6, 5, 6, 3, 7, 6, 6, 5, 6, 5, 6, 3, 7, 6, 6, 5, 6, 1] := by decide +kernel
example : (buildPL etfGrammar 1 (etfPerfInput 2)).2.map List.length =
    [8, 4, 5, 3, 3, 7, 4, 4, 5, 4, 5, 3, 3, 7, 4, 4, 5, 4, 1] := by decide +kernel
example : (buildPL2 etfGrammar (etfPerfInput 2)).2.map List.length =
    [8, 4, 5, 3, 3, 7, 4, 4, 5, 4, 5, 3, 3, 7, 4, 4, 5, 4, 1] := by decide +kernel

end Yaep.ETF
