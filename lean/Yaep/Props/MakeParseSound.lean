import Yaep.Lemmas.MakeParseSoundPL
import Yaep.Lemmas.MakeParseSoundRG
import Yaep.Lemmas.MakeParseAllPL
import Yaep.Lemmas.MakeParseAmb
import Yaep.Props.MakeParse
import Yaep.Props.Accepted
/-!
# C02 for the step-for-step model of `make_parse`: one parse = the translation of a derivation

`MP.makeParse` (`Yaep/Model/MakeParse.lean`) is the transcription of the C function `make_parse`.
Here: run in one-parse mode on the parse list the step-for-step model of `build_pl`
(`BS.buildPLC`) builds for an accepted input, whatever candidate the algorithm picks at every
nonterminal, the single tree it returns is `translate g pt` for a derivation `pt` of the whole
input `w ++ [$eof]` from `$S` — which is what the judge compares
(`tree ∈ (derivationsP g (w ++ [g.eofT])).map (translate g)`) —, every TERM node carries the
position of its token (that is how `translate` builds them), and the table has no ALT node.

The grammar hypotheses are decidable: `Grammar.mpWF` (translation parts of the rules as
`yaep_read_grammar` builds them).
-/
namespace Yaep

/-- **`make_parse`, one parse, is sound.**  `plSets g la w` is the parse list of `BS.buildPLC`
(situations in the order of the C set cores), `plTokNums w = #[-1, 0, …, |w|]`. -/
theorem makeParse_one_sound {g : Grammar} {la : Nat} {w : List Nat} {fuel : Nat} {res : MP.Result}
    (hg : g.mpWF = true)
    (hacc : (BS.buildPLC g la w).1 = none)
    (hm : MP.makeParse g (plSets g la w) (plTokNums w) true fuel = .ok res) :
    ∃ pt, PT.IsDerivation g (w ++ [g.eofT]) pt ∧
      denote (unfoldAt res.tab res.root) = [translate g pt] ∧
      (denoteTab res.tab).getD res.root [] = [translate g pt] ∧
      hasAlt res.tab = false :=
  MP.makeParse_one_sound_ctx (MP.ctxOK_plSets hacc) (MP.grOK_of_mpWF hg) hm

/-- … in the form the judge checks it (grammar without cycles, as `yaep_read_grammar` demands):
the denoted tree is in the list of the translations of all derivations -/
theorem makeParse_one_in_translations {g : Grammar} {la : Nat} {w : List Nat} {fuel : Nat}
    {res : MP.Result} (hg : g.mpWF = true) (hcyc : ¬ Cyclic g) (hsr : g.symsInRange = true)
    (hacc : (BS.buildPLC g la w).1 = none)
    (hm : MP.makeParse g (plSets g la w) (plTokNums w) true fuel = .ok res) :
    ∃ t, (denoteTab res.tab).getD res.root [] = [t] ∧
      t ∈ (derivationsP g (w ++ [g.eofT])).map (translate g) ∧ hasAlt res.tab = false := by
  obtain ⟨pt, h1, _, h3, h4⟩ := makeParse_one_sound hg hacc hm
  exact ⟨_, h3, (mem_translations_iff_acyclic hcyc hsr _).mpr ⟨pt, h1, rfl⟩, h4⟩

/-- **`make_parse`, one parse, is total** (the C assertion "we should have a parse", and every
other assertion / dereference of the routine): for a well-formed grammar without cycles and an
accepted input, with the fuel `MP.mpFuel` (a bound on the number of iterations of the main loop)
or more, the outcome is `.ok` — never `.noParse`, `.outOfFuel`, `.undefinedBehaviour`,
`.cyclic`. -/
theorem makeParse_one_total {g : Grammar} {la : Nat} {w : List Nat} {fuel : Nat}
    (hwf : g.WF) (hg : g.mpWF = true) (hcyc : ¬ Cyclic g) (hsr : g.symsInRange = true)
    (hacc : (BS.buildPLC g la w).1 = none) (hfuel : MP.mpFuel g (w.length + 1) ≤ fuel) :
    ∃ res, MP.makeParse g (plSets g la w) (plTokNums w) true fuel = .ok res :=
  MP.makeParse_one_total_ctx hwf (MP.ctxOKc_plSets hacc) (MP.grOK_of_mpWF hg) hcyc hsr
    (MP.last_set_nonempty hacc) hfuel

/-- both together, for a sentence of the grammar (lookahead levels 0 and 1): `make_parse`
returns a table that denotes exactly one tree, the translation of a derivation of the input,
without ALT node.  (C02 for the model.) -/
theorem makeParse_one_sentence {g : Grammar} {la : Nat} {w : List Nat} {fuel : Nat}
    (hwf : g.WF) (hg : g.mpWF = true) (hcyc : ¬ Cyclic g) (hsr : g.symsInRange = true)
    (htok : ∀ a ∈ w, a ≠ g.eofT ∧ a ≠ g.errT) (hla : la ≤ 1) (hs : Sentence g w)
    (hfuel : MP.mpFuel g (w.length + 1) ≤ fuel) :
    ∃ res pt, MP.makeParse g (plSets g la w) (plTokNums w) true fuel = .ok res ∧
      PT.IsDerivation g (w ++ [g.eofT]) pt ∧
      (denoteTab res.tab).getD res.root [] = [translate g pt] ∧
      denote (unfoldAt res.tab res.root) = [translate g pt] ∧
      translate g pt ∈ (derivationsP g (w ++ [g.eofT])).map (translate g) ∧
      hasAlt res.tab = false := by
  have hacc : (BS.buildPLC g la w).1 = none := by
    have := (BS.acceptsC_iff_sentence hwf hsr htok hla).mpr hs
    unfold BS.acceptsC at this
    exact Option.isNone_iff_eq_none.mp this
  obtain ⟨res, hm⟩ := makeParse_one_total hwf hg hcyc hsr hacc hfuel
  obtain ⟨pt, h1, h2, h3, h4⟩ := makeParse_one_sound hg hacc hm
  exact ⟨res, pt, hm, h1, h3, h2, (mem_translations_iff_acyclic hcyc hsr _).mpr ⟨pt, h1, rfl⟩, h4⟩

/-- every TERM node of the returned tree carries the code of an input token and, as its
attribute, the position of that token; `error` tokens are never TERM nodes -/
theorem makeParse_one_terms {g : Grammar} {la : Nat} {w : List Nat} {fuel : Nat} {res : MP.Result}
    (hg : g.mpWF = true) (hacc : (BS.buildPLC g la w).1 = none)
    (hm : MP.makeParse g (plSets g la w) (plTokNums w) true fuel = .ok res) :
    ∃ t, (denoteTab res.tab).getD res.root [] = [t] ∧
      ∀ cd a, (cd, a) ∈ t.terms → ∃ k tk : Nat, a = (k : Int) ∧ (w ++ [g.eofT])[k]? = some tk ∧
        tk ≠ g.errT ∧ g.termCodes.getD tk 0 = cd := by
  obtain ⟨pt, h1, _, h3, _⟩ := makeParse_one_sound hg hacc hm
  exact ⟨_, h3, fun cd a hx => translate_term_attr h1 hx⟩

/-- every grammar `readGrammar` (the model of `yaep_read_grammar`) accepts satisfies `mpWF` -/
theorem readGrammar_mpWF {raw : RawGrammar} {g : Grammar} (h : readGrammar raw = .ok g) :
    g.mpWF = true :=
  readGrammar_mpWF_aux h

/-- **C02 for the model, for every accepted grammar**: no hypothesis on the grammar is left.  For
a grammar the definition functions accept, tokens that are terminals of the user, and a sentence
`w`: the model of `make_parse` in one-parse mode, run on the parse list of the model of
`build_pl` (lookahead level 0 or 1), returns (with enough fuel) a table without ALT node that
denotes exactly one tree, and this tree is the translation of a derivation of `w $eof`. -/
theorem accepted_makeParse_one {raw : RawGrammar} {g : Grammar} {la : Nat} {w : List Nat} {fuel : Nat}
    (h : readGrammar raw = .ok g) (htok : UserTokens g w) (hla : la ≤ 1) (hs : Sentence g w)
    (hfuel : MP.mpFuel g (w.length + 1) ≤ fuel) :
    ∃ res pt, MP.makeParse g (plSets g la w) (plTokNums w) true fuel = .ok res ∧
      PT.IsDerivation g (w ++ [g.eofT]) pt ∧
      (denoteTab res.tab).getD res.root [] = [translate g pt] ∧
      denote (unfoldAt res.tab res.root) = [translate g pt] ∧
      translate g pt ∈ (derivationsP g (w ++ [g.eofT])).map (translate g) ∧
      hasAlt res.tab = false :=
  makeParse_one_sentence (readGrammar_wf h) (readGrammar_mpWF h) (readGrammar_semOK h).1
    (readGrammar_symsInRange h) htok hla hs hfuel

/-! ## all parses: no spurious tree (the sound half of C03) -/

/-- **`make_parse`, all parses, is sound.**  Every tree the returned table denotes (choose one
alternative at every ALT node, independently) is the translation of a derivation of the whole
input.  (The converse fails: finding D9, `makeParse_forest_incomplete`.) -/
theorem makeParse_all_sound {g : Grammar} {la : Nat} {w : List Nat} {fuel : Nat} {res : MP.Result}
    (hg : g.mpWF = true) (hacc : (BS.buildPLC g la w).1 = none)
    (hm : MP.makeParse g (plSets g la w) (plTokNums w) false fuel = .ok res) :
    (∀ t ∈ (denoteTab res.tab).getD res.root [],
      ∃ pt, PT.IsDerivation g (w ++ [g.eofT]) pt ∧ translate g pt = t) ∧
    (∀ t ∈ denote (unfoldAt res.tab res.root),
      ∃ pt, PT.IsDerivation g (w ++ [g.eofT]) pt ∧ translate g pt = t) := by
  have h := MP.makeParse_all_sound_ctx (MP.ctxAll_plSets hacc) (MP.grOK_of_mpWF hg) hm
  refine ⟨h, ?_⟩
  have hwf := makeParse_table_wellformed hm
  intro t ht
  apply h
  unfold unfoldAt at ht
  rw [← denoteTab_spec_getD hwf.1 hwf.2 (Nat.lt_succ_self _)] at ht
  exact ht

/-- … in the form the judge checks it ("spurious" is empty) for a grammar without cycles -/
theorem makeParse_all_in_translations {g : Grammar} {la : Nat} {w : List Nat} {fuel : Nat}
    {res : MP.Result} (hg : g.mpWF = true) (hcyc : ¬ Cyclic g) (hsr : g.symsInRange = true)
    (hacc : (BS.buildPLC g la w).1 = none)
    (hm : MP.makeParse g (plSets g la w) (plTokNums w) false fuel = .ok res) :
    ∀ t ∈ (denoteTab res.tab).getD res.root [],
      t ∈ (derivationsP g (w ++ [g.eofT])).map (translate g) := by
  intro t ht
  obtain ⟨pt, h1, h2⟩ := (makeParse_all_sound hg hacc hm).1 t ht
  exact (mem_translations_iff_acyclic hcyc hsr _).mpr ⟨pt, h1, h2⟩

/-! ## the ambiguity flag (the sound half of C05), one parse, partial -/

/-- **The ambiguity flag is sound** (one-parse mode) *if no set of the parse list repeats a
situation*: when `make_parse` sets `*ambiguous_p`, the input has two different derivations.
PARTIAL: the C set cores can repeat a situation (see the example `dupGrammar` below); then two
entries of a reduce vector may be the same item and the proof does not apply.  No input on which
the flag is set without two derivations is known. -/
theorem makeParse_one_amb_sound_partial {g : Grammar} {la : Nat} {w : List Nat} {fuel : Nat}
    {res : MP.Result} (hg : g.mpWF = true) (hacc : (BS.buildPLC g la w).1 = none)
    (hnd : ∀ j, j < (plSets g la w).size → ((plSets g la w).getD j #[]).toList.Nodup)
    (hm : MP.makeParse g (plSets g la w) (plTokNums w) true fuel = .ok res)
    (hamb : res.amb = true) :
    ∃ pt1 pt2, PT.IsDerivation g (w ++ [g.eofT]) pt1 ∧ PT.IsDerivation g (w ++ [g.eofT]) pt2 ∧
      pt1 ≠ pt2 :=
  MP.makeParse_one_amb_ctx (MP.ctxOK_plSets hacc) (MP.grOK_of_mpWF hg) (fun j => by
    by_cases hj : j < (plSets g la w).size
    · exact hnd j hj
    · rw [Array.getD_eq_getD_getElem?, Array.getElem?_eq_none (Nat.le_of_not_lt hj)]
      exact List.nodup_nil) hm hamb

/-! ## non-vacuity: D9a (`S : A B # s(0)`, `A : 'a' # x | 'a' 'a' # y`, `B : 'a' 'a' | 'a'`) on `a a a` -/

/-- the parse list of the step model is the dump of the C code -/
example : plSets D9a.g 1 D9a.w = D9a.sets ∧ plTokNums D9a.w = D9a.plToks := by decide

example : D9a.g.mpWF = true ∧ (BS.buildPLC D9a.g 1 D9a.w).1 = none := by decide

/-- the theorem applied to the run `D9a.run_one`: the tree `s(x)` is the translation of a
derivation of `a a a $eof` -/
example : ∃ pt, PT.IsDerivation D9a.g (D9a.w ++ [D9a.g.eofT]) pt ∧
    denote (unfoldAt #[.anode "x" 0 [], .anode "s" 0 [0]] 1) = [translate D9a.g pt] ∧
    (denoteTab #[.anode "x" 0 [], .anode "s" 0 [0]]).getD 1 [] = [translate D9a.g pt] ∧
    hasAlt #[.anode "x" 0 [], .anode "s" 0 [0]] = false :=
  makeParse_one_sound (g := D9a.g) (la := 1) (w := D9a.w) (fuel := 100) (by decide) (by decide)
    (by
      have h : plSets D9a.g 1 D9a.w = D9a.sets ∧ plTokNums D9a.w = D9a.plToks := by decide
      rw [h.1, h.2]; exact D9a.run_one)

example : D9a.g.WF ∧ D9a.g.symsInRange = true ∧ D9a.g.loopSet = [] := by decide

/-- totality applied to D9a: with enough fuel the outcome is `.ok` … -/
example : ∃ res, MP.makeParse D9a.g (plSets D9a.g 1 D9a.w) (plTokNums D9a.w) true
    (MP.mpFuel D9a.g (D9a.w.length + 1)) = .ok res :=
  makeParse_one_total (by decide) (by decide)
    (fun h => loopSet_ne_nil_of_cyclic D9a.g h (by decide)) (by decide) (by decide) (Nat.le_refl _)

/-- … and it is the outcome of the 100-iteration run above (`makeParse_fuel_mono`) -/
example : ∃ k, MP.makeParse D9a.g D9a.sets D9a.plToks true (100 + k) =
    MP.makeParse D9a.g D9a.sets D9a.plToks true 100 :=
  ⟨MP.mpFuel D9a.g (D9a.w.length + 1), makeParse_fuel_independent _ _ _ _ 100 _ (by
    rw [D9a.run_one]; intro h; cases h)⟩

/-- `a a a` is a sentence of D9a: the whole statement of C02 for the model -/
example : ∃ res pt, MP.makeParse D9a.g (plSets D9a.g 1 D9a.w) (plTokNums D9a.w) true
      (MP.mpFuel D9a.g (D9a.w.length + 1)) = .ok res ∧
    PT.IsDerivation D9a.g (D9a.w ++ [D9a.g.eofT]) pt ∧
    (denoteTab res.tab).getD res.root [] = [translate D9a.g pt] ∧
    denote (unfoldAt res.tab res.root) = [translate D9a.g pt] ∧
    translate D9a.g pt ∈ (derivationsP D9a.g (D9a.w ++ [D9a.g.eofT])).map (translate D9a.g) ∧
    hasAlt res.tab = false :=
  makeParse_one_sentence (la := 1) (by decide) (by decide)
    (fun h => loopSet_ne_nil_of_cyclic D9a.g h (by decide)) (by decide) (by decide) (by decide)
    ((BS.acceptsC_iff_sentence (g := D9a.g) (la := 1) (w := D9a.w) (by decide) (by decide) (by decide)
      (by decide)).mp (by decide)) (Nat.le_refl _)

/-- `accepted_makeParse_one` applied: the description `D9a.raw` is accepted -/
example : (readGrammar D9a.raw matches .ok _) = true := by decide
example : ∀ g, readGrammar D9a.raw = .ok g → g.mpWF = true := fun _ h => readGrammar_mpWF h

/-! ## the hypothesis `mpWF` is needed

A hand-made grammar `yaep_read_grammar` cannot build: the start rule `$S : S $eof` with translation
length 1 but no translated symbol.  `translate` gives NIL, `make_parse` leaves `result` NULL
(the C code fails `assert (result != NULL)`). -/

def noTranslGrammar : Grammar :=
  { rules := [ { lhs := 0, rhs := [.n 1, .t 1], transLen := 1, order := [none, none] },
               { lhs := 1, rhs := [.t 2], order := [none] },
               { lhs := 0, rhs := [.t 0, .t 1], order := [none, none] } ],
    termNames := ["error", "$eof", "a"], termCodes := [-2, -1, 97],
    ntNames := ["$S", "S"], errT := 0, eofT := 1, axiomN := 0, startN := 1 }

example : noTranslGrammar.WF ∧ noTranslGrammar.translWF = true ∧ noTranslGrammar.mpWF = false ∧
    (BS.buildPLC noTranslGrammar 0 [2]).1 = none ∧
    (MP.makeParse noTranslGrammar (plSets noTranslGrammar 0 [2]) (plTokNums [2]) true 100
      matches .undefinedBehaviour) = true := by decide

/-! ## non-vacuity of the all-parses theorem: D9a and D9b -/

/-- D9a, all parses: the single denoted tree `s(x)` is the translation of a derivation -/
example : ∀ t ∈ (denoteTab #[NodeRec.anode "x" 0 [], .anode "s" 0 [0]]).getD 1 [],
    ∃ pt, PT.IsDerivation D9a.g (D9a.w ++ [D9a.g.eofT]) pt ∧ translate D9a.g pt = t :=
  (makeParse_all_sound (g := D9a.g) (la := 1) (w := D9a.w) (fuel := 100) (by decide) (by decide)
    (by
      have h : plSets D9a.g 1 D9a.w = D9a.sets ∧ plTokNums D9a.w = D9a.plToks := by decide
      rw [h.1, h.2]; exact D9a.run_all)).1

example : plSets D9b.g 1 D9b.w = D9b.sets ∧ plTokNums D9b.w = D9b.plToks ∧ D9b.g.mpWF = true ∧
    (BS.buildPLC D9b.g 1 D9b.w).1 = none := by decide

/-- D9b, all parses (ALT nodes, a reused abstract node): all three denoted trees are translations
of derivations of `c a a a $eof` -/
example : ∀ t ∈ (denoteTab #[NodeRec.anode "y" 0 [], .anode "z" 0 [], .anode "t" 0 [0, 1],
      .anode "x" 0 [], .anode "w" 0 [], .anode "t" 0 [3, 4], .alt [2, 5], .anode "u" 0 [6],
      .anode "v" 0 [5], .alt [7, 8]]).getD 9 [],
    ∃ pt, PT.IsDerivation D9b.g (D9b.w ++ [D9b.g.eofT]) pt ∧ translate D9b.g pt = t :=
  (makeParse_all_sound (g := D9b.g) (la := 1) (w := D9b.w) (fuel := 100) (by decide) (by decide)
    (by
      have h : plSets D9b.g 1 D9b.w = D9b.sets ∧ plTokNums D9b.w = D9b.plToks := by decide
      rw [h.1, h.2]; exact D9b.run_all)).1

/-! ## the ambiguity flag: non-vacuity, and a parse list with a repeated situation -/

/-- D9a: the flag is set in `D9a.run_one`, no set repeats a situation, and indeed `a a a` has two
derivations -/
example : ∃ pt1 pt2, PT.IsDerivation D9a.g (D9a.w ++ [D9a.g.eofT]) pt1 ∧
    PT.IsDerivation D9a.g (D9a.w ++ [D9a.g.eofT]) pt2 ∧ pt1 ≠ pt2 :=
  makeParse_one_amb_sound_partial (g := D9a.g) (la := 1) (w := D9a.w) (fuel := 100) (by decide)
    (by decide) (by decide)
    (by
      have h : plSets D9a.g 1 D9a.w = D9a.sets ∧ plTokNums D9a.w = D9a.plToks := by decide
      rw [h.1, h.2]; exact D9a.run_one) rfl

/-- `S : X; X : Y Y 'x'; Y : ε | 'y' | 'y' X` (the grammar of D13 with translations) -/
def dupGrammar : Grammar :=
  { rules := [ { lhs := 0, rhs := [.n 1, .t 1], transLen := 1, order := [some 0, none] },
               { lhs := 1, rhs := [.n 2], order := [none] },
               { lhs := 2, rhs := [.n 3, .n 3, .t 2], order := [none, none, none] },
               { lhs := 3, rhs := [], order := [] },
               { lhs := 3, rhs := [.t 3], order := [none] },
               { lhs := 3, rhs := [.t 3, .n 2], order := [none, none] },
               { lhs := 0, rhs := [.t 0, .t 1], order := [none, none] } ],
    termNames := ["error", "$eof", "x", "y"], termCodes := [-1, -2, 120, 121],
    ntNames := ["$S", "S", "X", "Y"], errT := 0, eofT := 1, axiomN := 0, startN := 1 }

/-- the hypothesis `hnd` can fail: on `y x x` set 1 of the C parse list holds `X : Y Y . 'x', 0`
twice (the repeated situation is not a completed one here; the flag is not set, although the
input has two derivations — the flag of one-parse mode is not complete either) -/
example : dupGrammar.mpWF = true ∧
    ((plSets dupGrammar 0 [3, 2, 2]).getD 1 #[]).toList.count ⟨2, 2, 0⟩ = 2 ∧
    (match MP.makeParse dupGrammar (plSets dupGrammar 0 [3, 2, 2]) (plTokNums [3, 2, 2]) true 1000 with
      | .ok r => r.amb == false | _ => false) = true ∧
    (derivationsP dupGrammar ([3, 2, 2] ++ [1])).length = 2 := by decide

end Yaep
