import Yaep.Lemmas.RecoveryMin
import Yaep.Props.C06
import Yaep.Props.C07
/-!
# C08 — error recovery: minimality against simple recoveries

For the first syntax error of an input, the number of tokens reported as ignored is not
larger than the cost of any *simple* recovery (`simpleRecoveryCosts` in
`Yaep/Model/Recovery.lean`): go back to an earlier set that expects `error` (cost: the tokens
consumed since), shift `error`, skip forward to a later token (cost: the tokens skipped) from
which the next `recovery_match` tokens — or all the remaining ones, end marker included —
can be shifted.  Helper lemmas (the covering invariant of the search): `Yaep/Lemmas/RecoveryMin.lean`.
-/
namespace Yaep

/-- One call of `error_recovery`: if the search has finished (`stack = []`) with a best state,
the cost it reports (`rstop - rstart`) is at most the cost of every simple recovery.  `pl` is
a parse list as the `build_pl` loop holds it (`PLOk`, `RunOk`) with one set per token
consumed (`pl.length = tok + 1`: no `error` set yet, i.e. the first error). -/
theorem recoverAt_minimal_cost {g : Grammar} {an : Analysis} {la rmatch : Nat} {full : List Nat}
    {pl : List PSet} {tok : Nat} (hpl : PLOk g full pl tok) (hrun : RunOk g an la full pl)
    (ht : tok < full.length) (hlen : pl.length = tok + 1) (sfuel : Nat)
    (hstack : (recoverAt g an la rmatch full pl tok sfuel).stack = []) (bst : Best)
    (hbest : (recoverAt g an la rmatch full pl tok sfuel).best = some bst) :
    ∀ c ∈ simpleRecoveryCosts g an la rmatch full pl tok, bst.rstop - bst.rstart ≤ c :=
  recoverAt_minimal hpl hrun ht hlen sfuel hstack bst hbest

/-- The parse list at the first error, `firstErrorPl g la w`, is the list of the plain parse
(`buildPL`), with the terminals and token indices filled in. -/
theorem firstErrorPl_spec (g : Grammar) (la : Nat) (w : List Nat) {e : Nat}
    (h : (buildPL g la w).1 = some e) :
    psItems (firstErrorPl g la w) = (buildPL g la w).2 ∧
    (firstErrorPl g la w).map (fun s => (s.term, s.tok)) =
      (none, none) :: (List.range' 0 e).map fun k => ((w ++ [g.eofT])[k]?, some k) :=
  ⟨firstErrorPl_items g la w, firstErrorPl_shape g la w h⟩

/-- For the first error of an input the number of tokens reported as ignored (`b - a`) is not
larger than the cost of any simple recovery. -/
theorem recover_minimal {g : Grammar} {la rmatch : Nat} {w : List Nat} {sfuel : Nat}
    (hok : (parseWithRecovery g la rmatch w sfuel).ok = true) {e a b : Nat}
    (h : (parseWithRecovery g la rmatch w sfuel).calls.head? = some (e, a, b)) :
    ∀ c ∈ simpleRecoveryCosts g g.analysis la rmatch (w ++ [g.eofT]) (firstErrorPl g la w) e,
      b - a ≤ c := by
  unfold parseWithRecovery at hok h
  cases hc : (parseRecLoop g g.analysis la rmatch (w ++ [g.eofT]) sfuel ((w ++ [g.eofT]).length + 2) 0
      [{ term := none, tok := none, items := set0 g }] [] 0).calls with
  | nil => rw [hc] at h; cases h
  | cons x more =>
    rw [hc] at h
    simp only [List.head?_cons, Option.some.injEq] at h
    subst h
    obtain ⟨h1, h2⟩ := parseRecLoop_first_call _ 0 _ [] 0 (outerInv_init g _ _ _) rfl hok e a b more
      (by rw [hc]; rfl)
    unfold firstErrorPl
    rw [h1] at h2 ⊢
    exact h2

/-- in terms of the minimum computed by the oracle -/
theorem recover_minimal_min {g : Grammar} {la rmatch : Nat} {w : List Nat} {sfuel : Nat}
    (hok : (parseWithRecovery g la rmatch w sfuel).ok = true) {e a b m : Nat}
    (h : (parseWithRecovery g la rmatch w sfuel).calls.head? = some (e, a, b))
    (hm : simpleRecoveryMin g g.analysis la rmatch (w ++ [g.eofT]) (firstErrorPl g la w) e = some m) :
    b - a ≤ m := by
  have hall := recover_minimal hok h
  unfold simpleRecoveryMin at hm
  split at hm
  · cases hm
  · rename_i c cs hcs
    simp only [Option.some.injEq] at hm
    rw [hcs] at hall
    subst hm
    have key : ∀ (l : List Nat) (x : Nat), b - a ≤ x → (∀ y ∈ l, b - a ≤ y) → b - a ≤ l.foldl min x := by
      intro l
      induction l with
      | nil => intro x hx _; exact hx
      | cons y l ih =>
        intro x hx hl
        rw [List.foldl_cons]
        exact ih _ (Nat.le_min.mpr ⟨hx, hl y List.mem_cons_self⟩)
          (fun z hz => hl z (List.mem_cons_of_mem _ hz))
    exact key cs c (hall c List.mem_cons_self) (fun y hy => hall y (List.mem_cons_of_mem _ hy))

/-- non-vacuity on `c06Grammar` (`a a ; ; a`): the first error is token 1, the call reports
`2 - 0` ignored tokens, and the cheapest simple recovery costs 2 -/
example : (parseWithRecovery c06Grammar 0 1 [2, 2, 3, 3, 2] 200).ok = true ∧
    (parseWithRecovery c06Grammar 0 1 [2, 2, 3, 3, 2] 200).calls.head? = some (1, 0, 2) ∧
    simpleRecoveryMin c06Grammar c06Grammar.analysis 0 1 ([2, 2, 3, 3, 2] ++ [c06Grammar.eofT])
      (firstErrorPl c06Grammar 0 [2, 2, 3, 3, 2]) 1 = some 2 := by decide

/-- non-vacuity on `c07Grammar` (`a a a`): error at token 0, nothing ignored -/
example : (parseWithRecovery c07Grammar 0 1 [2, 2, 2] 100).ok = true ∧
    (parseWithRecovery c07Grammar 0 1 [2, 2, 2] 100).calls.head? = some (0, 0, 0) ∧
    0 ∈ simpleRecoveryCosts c07Grammar c07Grammar.analysis 0 1 ([2, 2, 2] ++ [c07Grammar.eofT])
      (firstErrorPl c07Grammar 0 [2, 2, 2]) 0 := by decide

example : (firstErrorPl c06Grammar 0 [2, 2, 3]).map (fun s => (s.term, s.tok)) =
    [(none, none), (some 2, some 0)] := by decide

end Yaep
