import Yaep.Lemmas.Analysis
import Yaep.Lemmas.FirstFollow
import Yaep.Lemmas.CheckGrammar
import Yaep.Lemmas.ReadGrammar
/-!
# C10: the grammar analysis of `yaep_read_grammar` / `check_grammar` is correct

Property theorems about `Grammar.nullable`, `Grammar.productive`, `Grammar.reachable`,
`Grammar.loopSet`, `checkGrammar`, `Grammar.firstTab`, `Grammar.followTab`, each followed by
non-vacuity examples on concrete grammars.
-/
namespace Yaep

/-! ## example grammars

Nonterminals `0 = $S`, `1 = S`, `2 = A` (`2 = B` in `gUnreach`); terminals `0 = error`,
`1 = $eof`, `2 = 'a'`. -/

/-- `$S : S $eof;  S : A 'a';  A : ;  $S : error $eof` -/
def gOk : Grammar :=
  { rules := [{ lhs := 0, rhs := [.n 1, .t 1] }, { lhs := 1, rhs := [.n 2, .t 2] },
              { lhs := 2, rhs := [] }, { lhs := 0, rhs := [.t 0, .t 1] }],
    termNames := ["error", "$eof", "a"], ntNames := ["$S", "S", "A"],
    errT := 0, eofT := 1, axiomN := 0, startN := 1 }

/-- `$S : S $eof;  S : A S;  S : 'a';  A : ;  $S : error $eof` (cyclic: `S ⇒ A S ⇒ S`) -/
def gCyc : Grammar :=
  { rules := [{ lhs := 0, rhs := [.n 1, .t 1] }, { lhs := 1, rhs := [.n 2, .n 1] },
              { lhs := 1, rhs := [.t 2] }, { lhs := 2, rhs := [] },
              { lhs := 0, rhs := [.t 0, .t 1] }],
    termNames := ["error", "$eof", "a"], ntNames := ["$S", "S", "A"],
    errT := 0, eofT := 1, axiomN := 0, startN := 1 }

/-- `$S : S $eof;  S : S 'a';  $S : error $eof` (`S` derives no terminal string) -/
def gUnprod : Grammar :=
  { rules := [{ lhs := 0, rhs := [.n 1, .t 1] }, { lhs := 1, rhs := [.n 1, .t 2] },
              { lhs := 0, rhs := [.t 0, .t 1] }],
    termNames := ["error", "$eof", "a"], ntNames := ["$S", "S"],
    errT := 0, eofT := 1, axiomN := 0, startN := 1 }

/-- `$S : S $eof;  S : 'a';  B : 'a';  $S : error $eof` (`B` is not accessible) -/
def gUnreach : Grammar :=
  { rules := [{ lhs := 0, rhs := [.n 1, .t 1] }, { lhs := 1, rhs := [.t 2] },
              { lhs := 2, rhs := [.t 2] }, { lhs := 0, rhs := [.t 0, .t 1] }],
    termNames := ["error", "$eof", "a"], ntNames := ["$S", "S", "B"],
    errT := 0, eofT := 1, axiomN := 0, startN := 1 }

/-! ## nullable -/

/-- `empty_p` is exact: the computed set is the set of nonterminals deriving `ε` -/
theorem nullable_correct (g : Grammar) (A : Nat) : A ∈ g.nullable ↔ Nullable g A :=
  ⟨nullable_sound g A, fun h => by
    have := symNullable_iff.mpr h
    simpa [symNullable] using this⟩

example : Nullable gOk 2 := (nullable_correct gOk 2).mp (by decide)
example : ¬ Nullable gOk 1 := fun h => absurd ((nullable_correct gOk 1).mpr h) (by decide)
example : 2 ∈ gOk.nullable := (nullable_correct gOk 2).mpr (Der.nt' (r := 2) rfl rfl Der.nil Der.nil rfl)

/-! ## productive -/

/-- `derivation_p` is exact -/
theorem productive_correct (g : Grammar) (A : Nat) : A ∈ g.productive ↔ Productive g A := by
  constructor
  · exact productive_sound g A
  · rintro ⟨w, hw⟩
    have := productive_complete_aux (productive_closed g) hw (Sym.n A) (List.mem_singleton.mpr rfl)
    simpa [symProductive] using this

example : Productive gOk 0 := (productive_correct gOk 0).mp (by decide)
example : ¬ Productive gUnprod 1 :=
  fun h => absurd ((productive_correct gUnprod 1).mpr h) (by decide)
example : 2 ∈ gOk.productive :=
  (productive_correct gOk 2).mpr ⟨[], Der.nt' (r := 2) rfl rfl Der.nil Der.nil rfl⟩

/-! ## reachable -/

/-- `access_p` is exact -/
theorem reachable_correct (g : Grammar) (B : Nat) : B ∈ g.reachable ↔ Reachable g B :=
  ⟨reachable_sound g B, fun h => reachable_complete g h (axiomN_mem_reachable g)⟩

example : Reachable gOk 2 := (reachable_correct gOk 2).mp (by decide)
example : ¬ Reachable gUnreach 2 :=
  fun h => absurd ((reachable_correct gUnreach 2).mpr h) (by decide)
example : 1 ∈ gOk.reachable :=
  (reachable_correct gOk 1).mpr
    (Reaches.step (Reaches.refl _) ⟨0, _, rfl, rfl, List.mem_cons_self⟩)

/-! ## loops -/

/-- `set_loop_p` leaves some `loop_p` set iff the grammar has a cycle `A ⇒⁺ A` -/
theorem loop_exists_iff (g : Grammar) : g.loopSet ≠ [] ↔ Cyclic g :=
  ⟨cyclic_of_loopSet_ne_nil g, loopSet_ne_nil_of_cyclic g⟩

example : Cyclic gCyc := (loop_exists_iff gCyc).mp (by decide)
example : ¬ Cyclic gOk := fun h => absurd ((loop_exists_iff gOk).mpr h) (by decide)

/-- the cycle of `gCyc` exhibited directly: `S : A S` with `A` nullable -/
example : gCyc.loopSet ≠ [] := by
  apply (loop_exists_iff gCyc).mpr
  refine ⟨1, Plus.single ⟨1, _, 1, rfl, rfl, rfl, ?_⟩⟩
  intro j s hj hs
  match j, hj, hs with
  | 0, _, hs =>
    simp only [List.getElem?_cons_zero, Option.some.injEq] at hs
    subst hs
    exact Der.nt' (r := 3) rfl rfl Der.nil Der.nil rfl
  | 1, hj, _ => exact absurd rfl hj
  | (j + 2), _, hs => simp at hs

/-! ## `check_grammar` -/

/-- `check_grammar` accepts exactly the acyclic grammars in which (strict mode) every
nonterminal is productive and accessible, resp. (non-strict mode) the start symbol is
productive -/
theorem checkGrammar_spec (g : Grammar) (strict : Bool) :
    checkGrammar g strict = 0 ↔
      (¬ Cyclic g ∧
        (if strict then ∀ A < g.nN, Productive g A ∧ Reachable g A
         else Productive g g.startN)) := by
  have hloop : (g.loopSet.isEmpty = true) ↔ ¬ Cyclic g := by
    rw [← loop_exists_iff, List.isEmpty_iff]
    exact ⟨fun h h' => h' h, fun h => Classical.byContradiction h⟩
  have hscan : strictErr g strict = none ↔
      (if strict then ∀ A < g.nN, Productive g A ∧ Reachable g A
       else Productive g g.startN) := by
    rw [strictErr_eq_none_iff]
    cases strict with
    | false => simp only [Bool.false_eq_true, if_false, productive_correct]
    | true => simp only [if_true, productive_correct, reachable_correct]
  rw [checkGrammar_eq, ← hscan, ← hloop]
  cases hs : strictErr g strict with
  | none =>
    simp only
    by_cases hl : g.loopSet.isEmpty = true
    · simp [hl]
    · simp [hl]
  | some e =>
    simp only [reduceCtorEq, and_false, iff_false]
    rcases strictErr_eq_some g strict hs with ⟨rfl, _⟩ | ⟨rfl, _⟩ <;> decide

/-- the meaning of the three error codes of `check_grammar` -/
theorem checkGrammar_code_sound (g : Grammar) (strict : Bool) :
    (checkGrammar g strict = 15 →
      ∃ A, (if strict then A < g.nN else A = g.startN) ∧ ¬ Productive g A) ∧
    (checkGrammar g strict = 14 → strict = true ∧ ∃ A, A < g.nN ∧ ¬ Reachable g A) ∧
    (checkGrammar g strict = 16 → Cyclic g) := by
  rw [checkGrammar_eq]
  cases hs : strictErr g strict with
  | none =>
    simp only
    by_cases hl : g.loopSet.isEmpty = true
    · simp [hl]
    · simp only [hl, Bool.false_eq_true, if_false]
      refine ⟨fun h => absurd h (by decide), fun h => absurd h (by decide), fun _ => ?_⟩
      exact (loop_exists_iff g).mp (fun h => hl (List.isEmpty_iff.mpr h))
  | some e =>
    simp only
    rcases strictErr_eq_some g strict hs with ⟨rfl, A, hA, hp⟩ | ⟨rfl, hst, A, hA, hr⟩
    · exact ⟨fun _ => ⟨A, hA, fun h => hp ((productive_correct g A).mpr h)⟩,
        fun h => absurd h (by decide), fun h => absurd h (by decide)⟩
    · exact ⟨fun h => absurd h (by decide),
        fun _ => ⟨hst, A, hA, fun h => hr ((reachable_correct g A).mpr h)⟩,
        fun h => absurd h (by decide)⟩

/-- `check_grammar` returns no other codes -/
theorem checkGrammar_codes (g : Grammar) (strict : Bool) :
    checkGrammar g strict = 0 ∨ checkGrammar g strict = 14 ∨ checkGrammar g strict = 15 ∨
      checkGrammar g strict = 16 := by
  rw [checkGrammar_eq]
  cases hs : strictErr g strict with
  | none =>
    simp only
    by_cases hl : g.loopSet.isEmpty = true
    · simp [hl]
    · simp [hl]
  | some e =>
    simp only
    rcases strictErr_eq_some g strict hs with ⟨rfl, _⟩ | ⟨rfl, _⟩ <;> simp

example : checkGrammar gOk true = 0 := by decide
example : ¬ Cyclic gOk ∧ ∀ A < gOk.nN, Productive gOk A ∧ Reachable gOk A :=
  (checkGrammar_spec gOk true).mp (by decide)
example : checkGrammar gUnreach false = 0 ∧ Productive gUnreach gUnreach.startN :=
  ⟨by decide, ((checkGrammar_spec gUnreach false).mp (by decide)).2⟩
example : checkGrammar gUnprod false = 15 := by decide
example : ∃ A, A = gUnprod.startN ∧ ¬ Productive gUnprod A :=
  (checkGrammar_code_sound gUnprod false).1 (by decide)
example : checkGrammar gUnreach true = 14 := by decide
example : ∃ A, A < gUnreach.nN ∧ ¬ Reachable gUnreach A :=
  ((checkGrammar_code_sound gUnreach true).2.1 (by decide)).2
example : checkGrammar gCyc true = 16 := by decide
example : Cyclic gCyc := (checkGrammar_code_sound gCyc true).2.2 (by decide)

/-! ## FIRST and FOLLOW over-approximate (what lookahead completeness needs) -/

/-- FIRST of a string contains the first terminal of everything the string derives -/
theorem first_closed_str {g : Grammar} (h : g.symsInRange = true) {β : List Sym} {a : Nat}
    {w : List Nat} (hd : Der g β (a :: w)) :
    a ∈ (firstOfStr g.nullable g.firstTab β).1 :=
  first_closed_aux h hd a w rfl

/-- FIRST of a nonterminal contains the first terminal of everything it derives -/
theorem first_closed {g : Grammar} (h : g.symsInRange = true) {A a : Nat} {w : List Nat}
    (hd : Der g [.n A] (a :: w)) : (A, a) ∈ g.firstTab := by
  have := first_closed_str h hd
  rcases mem_firstOfStr_n.mp this with h1 | ⟨_, h2⟩
  · exact h1
  · simp at h2

/-- the nullability flag computed along with FIRST of a string is exact -/
theorem firstOfStr_nullable_iff (g : Grammar) (β : List Sym) :
    (firstOfStr g.nullable g.firstTab β).2 = true ↔ Der g β [] :=
  firstOfStr_snd_iff g.firstTab

example : gOk.symsInRange = true := by decide
/-- `S ⇒ A 'a' ⇒ 'a'` in `gOk`, hence `'a' ∈ FIRST(S)` -/
example : (1, 2) ∈ gOk.firstTab :=
  first_closed (w := []) (by decide)
    (Der.nt' (r := 1) rfl rfl (Der.nt' (r := 2) rfl rfl Der.nil (Der.term Der.nil) rfl)
      Der.nil rfl)
example : 2 ∈ (firstOfStr gOk.nullable gOk.firstTab [.n 2, .t 2]).1 :=
  first_closed_str (by decide)
    (Der.nt' (r := 2) rfl rfl Der.nil (Der.term Der.nil) rfl)
example : gOk.firstTab = [(1, 2), (0, 0), (0, 2)] := by decide

/-- FOLLOW is closed under the two defining rules: for a rule `lhs : α B β`,
`FIRST(β) ⊆ FOLLOW(B)`, and if `β ⇒* ε` then `FOLLOW(lhs) ⊆ FOLLOW(B)` -/
theorem follow_closed {g : Grammar} (h : g.symsInRange = true) {r : Nat} {rl : Rule}
    {α β : List Sym} {B : Nat} (hr : g.rules[r]? = some rl) (hrhs : rl.rhs = α ++ .n B :: β) :
    (∀ a ∈ (firstOfStr g.nullable g.firstTab β).1, (B, a) ∈ g.followTab) ∧
    (Der g β [] → ∀ a, (rl.lhs, a) ∈ g.followTab → (B, a) ∈ g.followTab) := by
  have hsuf : (B, β) ∈ ntSuffixes rl.rhs := mem_ntSuffixes.mpr ⟨α, hrhs⟩
  have hrl := List.mem_of_getElem? hr
  constructor
  · intro a ha
    apply followTab_closed h
    exact mem_followStep.mpr ⟨rl, hrl, β, hsuf, Or.inl ha⟩
  · intro hβ a ha
    apply followTab_closed h
    exact mem_followStep.mpr ⟨rl, hrl, β, hsuf, Or.inr ⟨(firstOfStr_snd_iff _).mpr hβ, ha⟩⟩

/-- semantic form: whatever can start the rest of the rule after `B` is in `FOLLOW(B)` -/
theorem follow_first {g : Grammar} (h : g.symsInRange = true) {r : Nat} {rl : Rule}
    {α β : List Sym} {B a : Nat} {w : List Nat} (hr : g.rules[r]? = some rl)
    (hrhs : rl.rhs = α ++ .n B :: β) (hd : Der g β (a :: w)) : (B, a) ∈ g.followTab :=
  (follow_closed h hr hrhs).1 a (first_closed_str h hd)

example : (2, 2) ∈ gOk.followTab :=
  follow_first (g := gOk) (by decide) (r := 1) (α := []) (β := [.t 2]) rfl rfl
    (Der.term Der.nil)
example : (1, 1) ∈ gOk.followTab :=
  ((follow_closed (g := gOk) (by decide) (r := 0) (α := []) (β := [.t 1]) rfl rfl).1) 1
    (by decide)
/-- the inheritance clause fires in `gCyc`: `S : A S` passes `FOLLOW(S)` on to the last `S`
and, `S` not being nullable, `FIRST(S)` to `A` -/
example : (2, 2) ∈ gCyc.followTab :=
  ((follow_closed (g := gCyc) (by decide) (r := 1) (α := []) (β := [.n 1]) rfl rfl).1) 2
    (by decide)
example : gOk.followTab = [(1, 1), (2, 2)] := by decide

/-! ## what `readGrammar` returns

The documented defects are the predicates of `Yaep/Spec/Defects.lean` on the raw
description (`StructOK`, `DefectOfCode`); the internal grammar is `buildGrammar raw`
(`readGrammar` without the final `check_grammar`). -/

/-- `S : A 'a' S # 0 2 | 'b' # 0;  A : ;` with abstract node `cons` on the first rule -/
def rawOk : RawGrammar :=
  ⟨[("a", 97), ("b", 98)],
   [⟨"S", ["A", "a", "S"], some "cons", 1, some [0, 2]⟩, ⟨"S", ["b"], none, 0, some [0]⟩,
    ⟨"A", [], none, 0, none⟩], true⟩

/-- the terminal `a` is used as a left-hand side -/
def rawTermLhs : RawGrammar := ⟨[("a", 97)], [⟨"a", ["a"], none, 0, none⟩], false⟩

/-- `$eof` used as an ordinary symbol -/
def rawReserved : RawGrammar := ⟨[("a", 97)], [⟨"S", ["a", "$eof"], none, 0, none⟩], false⟩

/-- position 0 translated twice -/
def rawDupTransl : RawGrammar :=
  ⟨[("a", 97)], [⟨"S", ["a", "a"], some "n", 0, some [0, 0]⟩], false⟩

/-- `S : S` -/
def rawCyclic : RawGrammar := ⟨[("a", 97)], [⟨"S", ["S"], none, 0, none⟩, ⟨"S", ["a"], none, 0, none⟩], false⟩

/-- `readGrammar` is the builder followed by `check_grammar` -/
theorem readGrammar_ok_build {raw : RawGrammar} {g : Grammar} :
    readGrammar raw = .ok g ↔ (buildGrammar raw = .ok g ∧ checkGrammar g raw.strict = 0) := by
  rw [readGrammar_eq]
  cases hb : buildGrammar raw with
  | error c => simp
  | ok g' =>
    simp only []
    by_cases hc : checkGrammar g' raw.strict = 0
    · simp only [hc, ne_eq, not_true_eq_false, if_false, Except.ok.injEq]
      constructor
      · rintro rfl; exact ⟨rfl, hc⟩
      · rintro ⟨h, _⟩; exact h
    · simp only [ne_eq, hc, not_false_eq_true, if_true, reduceCtorEq, Except.ok.injEq, false_iff,
        not_and]
      rintro rfl; exact hc

/-- the grammar `readGrammar` returns has the shape the Earley theorems (C01) assume -/
theorem readGrammar_wf {raw : RawGrammar} {g : Grammar} (h : readGrammar raw = .ok g) : g.WF :=
  (buildGrammar_ok (readGrammar_ok_build.mp h).1).2.1

/-- ... and all its symbol numbers are in range (the side condition of the FIRST/FOLLOW
theorems) -/
theorem readGrammar_symsInRange {raw : RawGrammar} {g : Grammar} (h : readGrammar raw = .ok g) :
    g.symsInRange = true :=
  (buildGrammar_ok (readGrammar_ok_build.mp h).1).2.2

/-- ... and it satisfies what `check_grammar` tests -/
theorem readGrammar_semOK {raw : RawGrammar} {g : Grammar} (h : readGrammar raw = .ok g) :
    SemOK g raw.strict :=
  (checkGrammar_spec g raw.strict).mp (readGrammar_ok_build.mp h).2

example : ∃ g, readGrammar rawOk = .ok g := ⟨_, rfl⟩
example : ∃ g, readGrammar rawOk = .ok g ∧ g.WF ∧ g.symsInRange = true ∧ SemOK g true :=
  ⟨_, rfl, readGrammar_wf (raw := rawOk) rfl, readGrammar_symsInRange (raw := rawOk) rfl,
    readGrammar_semOK (raw := rawOk) rfl⟩

/-- the internal grammar exists exactly for the structurally correct descriptions -/
theorem buildGrammar_ok_iff_structOK (raw : RawGrammar) :
    (∃ g, buildGrammar raw = .ok g) ↔ StructOK raw :=
  buildGrammar_ok_iff raw

/-- `yaep_read_grammar` succeeds exactly on the descriptions without documented defect -/
theorem readGrammar_ok_iff (raw : RawGrammar) :
    (∃ g, readGrammar raw = .ok g) ↔ NoDefect raw := by
  constructor
  · rintro ⟨g, hg⟩
    obtain ⟨hb, _⟩ := readGrammar_ok_build.mp hg
    refine ⟨(buildGrammar_ok hb).1, ?_⟩
    intro g' hg'
    rw [hb] at hg'
    simp only [Except.ok.injEq] at hg'
    subst hg'
    exact readGrammar_semOK hg
  · rintro ⟨hs, hsem⟩
    obtain ⟨g, hb⟩ := (buildGrammar_ok_iff raw).mpr hs
    exact ⟨g, readGrammar_ok_build.mpr ⟨hb, (checkGrammar_spec g raw.strict).mpr (hsem g hb)⟩⟩

example : NoDefect rawOk := (readGrammar_ok_iff rawOk).mp ⟨_, rfl⟩
example : StructOK rawOk := ((readGrammar_ok_iff rawOk).mp ⟨_, rfl⟩).1
example : ¬ NoDefect rawTermLhs := fun h => by
  obtain ⟨g, hg⟩ := (readGrammar_ok_iff rawTermLhs).mpr h
  have h9 : readGrammar rawTermLhs = .error 9 := rfl
  rw [h9] at hg
  cases hg

/-- the error code `yaep_read_grammar` returns names a defect that is really present -/
theorem readGrammar_err_sound {raw : RawGrammar} {c : ErrCode} (h : readGrammar raw = .error c) :
    DefectOfCode raw c := by
  rw [readGrammar_eq] at h
  cases hb : buildGrammar raw with
  | error c' =>
    rw [hb] at h
    simp only [Except.error.injEq] at h
    subst h
    exact buildGrammar_err hb
  | ok g =>
    rw [hb] at h
    simp only [] at h
    split at h
    · simp only [Except.error.injEq] at h
      obtain ⟨h15, h14, h16⟩ := checkGrammar_code_sound g raw.strict
      rename_i hne
      rcases checkGrammar_codes g raw.strict with h0 | hc | hc | hc
      · exact absurd h0 hne
      · rw [hc] at h; subst h
        exact ⟨(h14 hc).1, g, hb, (h14 hc).2⟩
      · rw [hc] at h; subst h
        exact ⟨g, hb, h15 hc⟩
      · rw [hc] at h; subst h
        exact ⟨g, hb, h16 hc⟩
    · cases h

/-- `yaep_read_grammar` returns no other codes than the documented ones -/
theorem readGrammar_codes {raw : RawGrammar} {c : ErrCode} (h : readGrammar raw = .error c) :
    4 ≤ c ∧ c ≤ 16 := by
  have hd := readGrammar_err_sound h
  match c, hd with
  | 0, hd | 1, hd | 2, hd | 3, hd => exact hd.elim
  | 4, _ | 5, _ | 6, _ | 7, _ | 8, _ | 9, _ | 10, _ | 11, _ | 12, _ | 13, _ | 14, _ | 15, _
  | 16, _ => exact ⟨by decide, by decide⟩
  | (_ + 17), hd => exact hd.elim

example : readGrammar rawTermLhs = .error 9 := rfl
example : ∃ rr ∈ rawTermLhs.rules, rr.lhs ∈ rawTermLhs.allTermNames :=
  readGrammar_err_sound (raw := rawTermLhs) (c := 9) rfl
example : readGrammar rawReserved = .error 4 := rfl
example : DefectOfCode rawReserved 4 := readGrammar_err_sound (raw := rawReserved) rfl
example : readGrammar rawDupTransl = .error 13 := rfl
example : DefectOfCode rawDupTransl 13 := readGrammar_err_sound (raw := rawDupTransl) rfl
example : readGrammar rawCyclic = .error 16 := rfl
example : ∃ g, buildGrammar rawCyclic = .ok g ∧ Cyclic g :=
  readGrammar_err_sound (raw := rawCyclic) (c := 16) rfl

end Yaep
