import Yaep.Lemmas.RecoverySave
/-!
# The lazy save / restore of the parser list refines "original prefix ++ own tail"

For every sequence of calls that `error_recovery` can issue (`protocol`), the in-place array
`pl[]`, the lazily filled stack of original sets, `original_pl_toks[]` and the watermark
`original_last_pl_el` always describe the pair (original list, current list) (`Inv`), no read or
write leaves its object, no `assert` of these functions fails, the read through the dangling
pointer of `pop_recovery_state` is a read of the popped state, and `set_recovery_state` yields
exactly `orig.take (last + 1) ++ tail` — the operation `Model/Recovery.lean` assumes.
-/
namespace Yaep.RS

variable {α : Type}

theorem Mem.congr {orig : List α} {origT : List Int} {cap : Nat} {s s' : St α} (hm : Mem orig origT cap s)
    (h1 : s'.pl = s.pl) (h2 : s'.plToks = s.plToks) (h3 : s'.origToks = s.origToks)
    (h4 : s'.start = s.start) (h5 : s'.origStack = s.origStack) (h6 : s'.origN = s.origN) :
    Mem orig origT cap s' := by
  obtain ⟨a1, a2, a3, a4, a5, a6, a7, a8, a9, a10⟩ := hm
  constructor <;> simp only [h1, h2, h3, h4, h5, h6] <;> assumption

theorem StateOK.mono {cap : Nat} {s s' : St α} {st : RecState α} (h : StateOK cap s st)
    (hf : s'.frontier ≤ s.frontier) (hs : s'.start = s.start) : StateOK cap s' st :=
  ⟨Nat.le_trans hf h.lo, by rw [hs]; exact h.hi, h.fits, h.toks⟩

theorem take_eq_of_pre {β : Type} {a b : List β} {n : Nat} (h : ∀ i, i < n → a[i]? = b[i]?) :
    a.take n = b.take n := by
  apply List.ext_getElem?
  intro i
  by_cases hi : i < n
  · simp [hi, h i hi]
  · simp [List.getElem?_take, hi]

/-! ## 2. `set_recovery_state` -/

/-- **set_recovery_state_spec.**  For a state that refines the original list and a recovery
state whose `last_original_pl_el` lies between the lowest saved index and `start_pl_curr` and
whose tail fits the array: `set_recovery_state` is defined (in particular
`restore_original_sets` never reads the stack outside its contents and no array index leaves
its array), changes only `pl`, `pl_toks`, `pl_curr`, `tok_curr` and the watermark, and the
current list becomes `orig[0 .. last] ++ tail`, the token numbers likewise. -/
theorem setRecoveryState_spec {orig : List α} {origT : List Int} {cap : Nat} {s : St α}
    (hm : Mem orig origT cap s) {st : RecState α}
    (hlo : s.start + 1 - s.origStack.length ≤ st.last + 1) (hhi : st.last ≤ s.start)
    (hfit : st.last + st.tail.length < cap) (htk : st.tailToks.length = st.tail.length) :
    ∃ pl' pt', setRecoveryState s st = some { s with
        pl := pl', plToks := pt', origN := st.last + 1, plCurr := st.last + st.tail.length, tokCurr := st.startTok } ∧
      Mem orig origT cap { s with
        pl := pl', plToks := pt', origN := st.last + 1, plCurr := st.last + st.tail.length, tokCurr := st.startTok } ∧
      pl'.take (st.last + st.tail.length + 1) = orig.take (st.last + 1) ++ st.tail ∧
      pt'.take (st.last + st.tail.length + 1) = origT.take (st.last + 1) ++ st.tailToks := by
  have hm1 : Mem orig origT cap { s with tokCurr := st.startTok } := hm.congr rfl rfl rfl rfl rfl rfl
  obtain ⟨pl1, pt1, he1, hm2⟩ := restoreOriginalSets_spec hm1 (last := st.last) hlo hhi
  have hl1 := hm2.plLen
  have hl2 := hm2.tokLen
  simp only at hl1 hl2
  obtain ⟨pl2, pt2, he2, h1, h2, h3, h4⟩ := writeTail_spec st.tail st.tailToks
    { s with tokCurr := st.startTok, pl := pl1, plToks := pt1, origN := st.last + 1, plCurr := st.last }
    htk (by simp only [hl1]; exact hfit) (by simp only [hl1, hl2])
  simp only at h1 h2 h3 h4
  have hp1 : pl1.take (st.last + 1) = orig.take (st.last + 1) :=
    take_eq_of_pre fun i hi => (hm2.pre i hi).1
  have hp2 : pt1.take (st.last + 1) = origT.take (st.last + 1) :=
    take_eq_of_pre fun i hi => (hm2.pre i hi).2
  rw [hp1] at h3
  rw [hp2] at h4
  refine ⟨pl2, pt2, ?_, ?_, h3, h4⟩
  · unfold setRecoveryState setRecoveryStateV
    unfold restoreOriginalSets at he1
    rw [he1]
    simpa using he2
  · refine ⟨by simp only [h1, hl1], by simp only [h2, hl1], hm.otLen, hm.startLt, hm.lenLe, hlo, by simp; omega,
      ?_, hm.stk, hm.ot⟩
    intro i hi
    simp only at hi
    have e1 : pl2[i]? = (pl2.take (st.last + st.tail.length + 1))[i]? := by
      rw [List.getElem?_take]; simp; omega
    have e2 : pt2[i]? = (pt2.take (st.last + st.tail.length + 1))[i]? := by
      rw [List.getElem?_take]; simp; omega
    simp only
    rw [e1, e2, h3, h4]
    have l1 : (orig.take (st.last + 1))[i]? = orig[i]? := by rw [List.getElem?_take]; simp [hi]
    have l2 : (origT.take (st.last + 1))[i]? = origT[i]? := by rw [List.getElem?_take]; simp [hi]
    have b1 := (hm2.pre i hi).1
    have b2 := (hm2.pre i hi).2
    simp only at b1 b2
    have c1 : i < pl1.length := by omega
    have c2 : i < pt1.length := by omega
    have d1 : i < (orig.take (st.last + 1)).length := by
      have : (orig.take (st.last + 1)).length = (pl1.take (st.last + 1)).length := by rw [hp1]
      rw [this, List.length_take]; omega
    have d2 : i < (origT.take (st.last + 1)).length := by
      have : (origT.take (st.last + 1)).length = (pt1.take (st.last + 1)).length := by rw [hp2]
      rw [this, List.length_take]; omega
    rw [List.getElem?_append_left d1, List.getElem?_append_left d2, l1, l2]
    exact ⟨rfl, rfl⟩

/-! ## 1. every call keeps the refinement invariant -/

theorem newRecoveryState_ok {cap : Nat} {s : St α} (h1 : s.pl.length = cap) (h2 : s.plToks.length = cap)
    (h3 : s.plCurr < cap) {last : Nat} (hle : last ≤ s.plCurr) (hlo : s.frontier ≤ last)
    (hhi : last ≤ s.start) (c : Nat) :
    ∃ n, newRecoveryState s last c = some n ∧ StateOK cap s n ∧ n.last = last := by
  unfold newRecoveryState
  rw [if_pos ⟨hle, by omega, by omega⟩]
  refine ⟨_, rfl, ⟨hlo, hhi, ?_, ?_⟩, rfl⟩
  · simp only [List.length_drop, List.length_take, h1]; omega
  · simp only [List.length_drop, List.length_take, h1, h2]

theorem push_inv {orig : List α} {origT : List Int} {cap : Nat} {s : St α} (hi : Inv orig origT cap s)
    {n : RecState α} (hn : StateOK cap s n) :
    Inv orig origT cap { s with
      recMem := s.recMem.take s.recLen ++ [n], recLen := s.recLen + 1, epoch := s.epoch + 1 } := by
  refine ⟨hi.mem.congr rfl rfl rfl rfl rfl rfl, hi.origLen, hi.origTLen, hi.low, hi.curLt, hi.nCur, ?_, ?_,
    fun st h => ⟨(hi.curOK st h).1.mono (Nat.le_refl _) rfl, (hi.curOK st h).2⟩,
    fun st h => (hi.bestOK st h).mono (Nat.le_refl _) rfl⟩
  · have := hi.recLe
    simp only [List.length_append, List.length_take, List.length_singleton]; omega
  · intro k st hk hget
    simp only at hk hget
    have hl : (s.recMem.take s.recLen).length = s.recLen := by
      have := hi.recLe; rw [List.length_take]; omega
    by_cases hk' : k < s.recLen
    · rw [List.getElem?_append_left (by omega), List.getElem?_take] at hget
      simp only [hk', if_true] at hget
      exact (hi.recOK k st hk' hget).mono (Nat.le_refl _) rfl
    · have : k = s.recLen := by omega
      subst this
      rw [List.getElem?_append_right (by omega), hl] at hget
      simp at hget
      subst hget
      exact hn.mono (Nat.le_refl _) rfl

theorem pop_inv {orig : List α} {origT : List Int} {cap : Nat} {s : St α} (hi : Inv orig origT cap s)
    (hg : 0 < s.recLen) :
    ∃ st s', s.recMem[s.recLen - 1]? = some st ∧ popRecoveryState s = some s' ∧ s'.cur = some st ∧
      s'.cpl = orig.take (st.last + 1) ++ st.tail ∧ s'.cplToks = origT.take (st.last + 1) ++ st.tailToks ∧
      s'.tokCurr = st.startTok ∧ Inv orig origT cap s' := by
  have hlt : s.recLen - 1 < s.recMem.length := by have := hi.recLe; omega
  have hst := hi.recOK (s.recLen - 1) _ (by omega) (List.getElem?_eq_getElem hlt)
  generalize hst' : s.recMem[s.recLen - 1] = st at hst
  have hget : s.recMem[s.recLen - 1]? = some st := by rw [List.getElem?_eq_getElem hlt, hst']
  have hm1 : Mem orig origT cap { s with recLen := s.recLen - 1 } := hi.mem.congr rfl rfl rfl rfl rfl rfl
  have hlow := hi.low
  obtain ⟨pl', pt', he, hm', h3, h4⟩ := setRecoveryState_spec hm1 (st := st)
    (by have := hst.lo; simp only; omega) hst.hi hst.fits hst.toks
  refine ⟨st, { s with
    recLen := s.recLen - 1, pl := pl', plToks := pt', origN := st.last + 1,
    plCurr := st.last + st.tail.length, tokCurr := st.startTok, cur := some st }, hget, ?_, rfl, h3, h4, rfl, ?_⟩
  · unfold popRecoveryState popRecoveryStateV
    rw [if_neg (by omega)]
    unfold setRecoveryState at he
    simp only [deref, if_true, hget, Option.bind_some, he, Option.map_some]
  · refine ⟨hm'.congr rfl rfl rfl rfl rfl rfl, hi.origLen, hi.origTLen, hi.low, hst.fits, by simp, ?_, ?_, ?_, ?_⟩
    · have := hi.recLe; simp only; omega
    · intro k st' hk hg'
      exact (hi.recOK k st' (by simp only at hk; omega) hg').mono (Nat.le_refl _) rfl
    · intro st' h
      simp only [Option.some.injEq] at h
      subst h
      exact ⟨hst.mono (Nat.le_refl _) rfl, rfl⟩
    · intro st' h
      exact (hi.bestOK st' h).mono (Nat.le_refl _) rfl

theorem finish_inv {orig : List α} {origT : List Int} {cap : Nat} {s : St α} (hi : Inv orig origT cap s)
    {b : RecState α} (hb : s.best = some b) :
    ∃ s', step s .finish = some s' ∧
      s'.cpl = orig.take (b.last + 1) ++ b.tail ∧ s'.cplToks = origT.take (b.last + 1) ++ b.tailToks ∧
      s'.tokCurr = b.startTok ∧ Inv orig origT cap s' := by
  have hst := hi.bestOK b hb
  have hlow := hi.low
  obtain ⟨pl', pt', he, hm', h3, h4⟩ := setRecoveryState_spec hi.mem (st := b)
    (by have := hst.lo; omega) hst.hi hst.fits hst.toks
  refine ⟨{ s with
    pl := pl', plToks := pt', origN := b.last + 1,
    plCurr := b.last + b.tail.length, tokCurr := b.startTok, cur := none }, ?_, h3, h4, rfl, ?_⟩
  · unfold setRecoveryState at he
    simp only [step, stepV, hb, he, Option.map_some]
  · refine ⟨hm'.congr rfl rfl rfl rfl rfl rfl, hi.origLen, hi.origTLen, hi.low, hst.fits, by simp, hi.recLe, ?_, ?_, ?_⟩
    · intro k st' hk hg'
      exact (hi.recOK k st' hk hg').mono (Nat.le_refl _) rfl
    · intro st' h
      simp at h
    · intro st' h
      exact (hi.bestOK st' h).mono (Nat.le_refl _) rfl

theorem write_inv {orig : List α} {origT : List Int} {cap : Nat} {s : St α} (hi : Inv orig origT cap s)
    (x : α) (t : Int) (hg : s.plCurr + 1 < s.pl.length) :
    ∃ s', step s (.write x t) = some s' ∧ s'.cpl = s.cpl ++ [x] ∧ s'.cplToks = s.cplToks ++ [t] ∧
      Inv orig origT cap s' := by
  have hpl := hi.mem.plLen
  have htl := hi.mem.tokLen
  refine ⟨{ s with
    plCurr := s.plCurr + 1, pl := s.pl.set (s.plCurr + 1) x, plToks := s.plToks.set (s.plCurr + 1) t }, ?_, ?_, ?_, ?_⟩
  · simp only [step, stepV, write1]
    rw [if_pos ⟨hg, by omega⟩]
  · simp only [St.cpl]
    rw [List.take_add_one, List.take_set_of_le (Nat.le_refl _), List.getElem?_set_self hg]; rfl
  · simp only [St.cplToks]
    rw [List.take_add_one, List.take_set_of_le (Nat.le_refl _), List.getElem?_set_self (by omega)]; rfl
  · have hn := hi.nCur
    refine ⟨⟨by simp [hpl], by simp [htl], hi.mem.otLen, hi.mem.startLt, hi.mem.lenLe, hi.mem.nLo, hi.mem.nHi,
      ?_, hi.mem.stk, hi.mem.ot⟩, hi.origLen, hi.origTLen, hi.low, by simp only; omega, by simp only; omega,
      hi.recLe, ?_, ?_, ?_⟩
    · intro i hlt
      simp only at hlt
      simp only
      rw [List.getElem?_set_ne (by omega), List.getElem?_set_ne (by omega)]
      exact hi.mem.pre i hlt
    · intro k st' hk hg'
      exact (hi.recOK k st' hk hg').mono (Nat.le_refl _) rfl
    · intro st' h
      exact ⟨(hi.curOK st' h).1.mono (Nat.le_refl _) rfl, (hi.curOK st' h).2⟩
    · intro st' h
      exact (hi.bestOK st' h).mono (Nat.le_refl _) rfl

theorem setTok_inv {orig : List α} {origT : List Int} {cap : Nat} {s : St α} (hi : Inv orig origT cap s)
    (t : Nat) : Inv orig origT cap { s with tokCurr := t } :=
  ⟨hi.mem.congr rfl rfl rfl rfl rfl rfl, hi.origLen, hi.origTLen, hi.low, hi.curLt, hi.nCur, hi.recLe,
    fun k st hk hg => (hi.recOK k st hk hg).mono (Nat.le_refl _) rfl,
    fun st h => ⟨(hi.curOK st h).1.mono (Nat.le_refl _) rfl, (hi.curOK st h).2⟩,
    fun st h => (hi.bestOK st h).mono (Nat.le_refl _) rfl⟩

theorem pushCur_inv {orig : List α} {origT : List Int} {cap : Nat} {s : St α} (hi : Inv orig origT cap s)
    {st : RecState α} (hc : s.cur = some st) (c : Nat) :
    ∃ s', step s (.pushCur c) = some s' ∧ s'.pl = s.pl ∧ s'.plToks = s.plToks ∧ s'.plCurr = s.plCurr ∧
      Inv orig origT cap s' := by
  obtain ⟨hok, hn⟩ := hi.curOK st hc
  have hcur := hi.nCur
  obtain ⟨n, hnew, hnok, _⟩ := newRecoveryState_ok hi.mem.plLen hi.mem.tokLen hi.curLt (last := st.last)
    (by omega) hok.lo hok.hi c
  refine ⟨{ s with
    recMem := s.recMem.take s.recLen ++ [n], recLen := s.recLen + 1, epoch := s.epoch + 1 }, ?_, rfl, rfl, rfl, push_inv hi hnok⟩
  simp only [step, stepV, hc, pushRecoveryState, hnew, Option.map_some]

theorem snapBest_inv {orig : List α} {origT : List Int} {cap : Nat} {s : St α} (hi : Inv orig origT cap s)
    {st : RecState α} (hc : s.cur = some st) :
    ∃ s', step s .snapBest = some s' ∧ s'.pl = s.pl ∧ s'.plToks = s.plToks ∧ s'.plCurr = s.plCurr ∧
      Inv orig origT cap s' := by
  obtain ⟨hok, hn⟩ := hi.curOK st hc
  have hcur := hi.nCur
  obtain ⟨n, hnew, hnok, _⟩ := newRecoveryState_ok hi.mem.plLen hi.mem.tokLen hi.curLt (last := st.last)
    (by omega) hok.lo hok.hi 0
  refine ⟨{ s with best := some n }, ?_, rfl, rfl, rfl, ?_⟩
  · simp only [step, stepV, hc, hnew, Option.map_some]
  · refine ⟨hi.mem.congr rfl rfl rfl rfl rfl rfl, hi.origLen, hi.origTLen, hi.low, hi.curLt, hi.nCur, hi.recLe,
      fun k st hk hg => (hi.recOK k st hk hg).mono (Nat.le_refl _) rfl,
      fun st h => ⟨(hi.curOK st h).1.mono (Nat.le_refl _) rfl, (hi.curOK st h).2⟩, ?_⟩
    intro b hb
    simp only [Option.some.injEq] at hb
    subst hb
    exact hnok.mono (Nat.le_refl _) rfl

theorem advance_inv {orig : List α} {origT : List Int} {cap : Nat} {s : St α} (hi : Inv orig origT cap s)
    {st : RecState α} (hc : s.cur = some st) {j : Nat} (hj : j < s.frontier) (cost stok : Nat) :
    ∃ s', step s (.advance j cost stok) = some s' ∧ s'.pl = s.pl ∧ s'.plToks = s.plToks ∧
      s'.plCurr = s.plCurr ∧ s'.tokCurr = s.tokCurr ∧ s'.frontier = j ∧ Inv orig origT cap s' := by
  obtain ⟨hok, hn⟩ := hi.curOK st hc
  have hlow := hi.low
  have hstart := hi.mem.startLt
  have hm1 : Mem orig origT cap { s with plCurr := j, frontier := j, tokCurr := stok } :=
    hi.mem.congr rfl rfl rfl rfl rfl rfl
  obtain ⟨stk', ot', he, hl, hm2⟩ := saveLoop_spec (s.start + 1 - s.origStack.length - j) _ hm1
    (by simp only; omega)
  simp only at hl
  have hflo := hok.lo
  have hfhi := hok.hi
  obtain ⟨n, hnew, hnok, _⟩ := newRecoveryState_ok (cap := cap) (s := { s with
      plCurr := j, frontier := j, tokCurr := stok, origStack := stk', origToks := ot', origN := j })
    hi.mem.plLen hi.mem.tokLen (by simp only; omega) (last := j) (Nat.le_refl _) (Nat.le_refl _)
    (by simp only; omega) cost
  have e1 : saveOriginalSetsV {} { s with plCurr := j, frontier := j, tokCurr := stok } = some { s with
      plCurr := j, frontier := j, tokCurr := stok, origStack := stk', origToks := ot', origN := j } := by
    unfold saveOriginalSetsV
    rw [if_pos hi.mem.nHi]
    show (saveLoop {} (s.start + 1 - s.origStack.length - j) _).map _ = _
    rw [he]; rfl
  have e2 : pushRecoveryState { s with
      plCurr := j, frontier := j, tokCurr := stok, origStack := stk', origToks := ot', origN := j } j cost =
      some { s with
        plCurr := j, frontier := j, tokCurr := stok, origStack := stk', origToks := ot', origN := j,
        recMem := s.recMem.take s.recLen ++ [n], recLen := s.recLen + 1, epoch := s.epoch + 1 } := by
    unfold pushRecoveryState
    rw [hnew]; rfl
  have e3 : setOriginalSetBound { s with
        plCurr := j, frontier := j, tokCurr := stok, origStack := stk', origToks := ot', origN := j,
        recMem := s.recMem.take s.recLen ++ [n], recLen := s.recLen + 1, epoch := s.epoch + 1 } st.last =
      some { s with
        plCurr := j, frontier := j, tokCurr := stok, origStack := stk', origToks := ot', origN := st.last + 1,
        recMem := s.recMem.take s.recLen ++ [n], recLen := s.recLen + 1, epoch := s.epoch + 1 } := by
    unfold setOriginalSetBound
    rw [if_pos ⟨hfhi, by simp only; omega⟩]
  have hia : Inv orig origT cap { s with
      frontier := j, origStack := stk', origToks := ot', origN := st.last + 1 } := by
    refine ⟨⟨hi.mem.plLen, hi.mem.tokLen, hm2.otLen, hi.mem.startLt, hm2.lenLe, by simp only; omega,
      by simp only; omega, ?_, hm2.stk, hm2.ot⟩, hi.origLen, hi.origTLen, by simp only; omega, hi.curLt,
      by have := hi.nCur; simp only; omega, hi.recLe, ?_, ?_, ?_⟩
    · intro i hlt
      exact hi.mem.pre i (by simp only at hlt; omega)
    · intro k st' hk hg'
      exact (hi.recOK k st' hk hg').mono (by simp only; omega) rfl
    · intro st' h
      have : st' = st := by simp only [hc, Option.some.injEq] at h; exact h.symm
      subst this
      exact ⟨hok.mono (by simp only; omega) rfl, rfl⟩
    · intro st' h
      exact (hi.bestOK st' h).mono (by simp only; omega) rfl
  refine ⟨{ s with
    frontier := j, origStack := stk', origToks := ot', origN := st.last + 1,
    recMem := s.recMem.take s.recLen ++ [n], recLen := s.recLen + 1, epoch := s.epoch + 1 },
    ?_, rfl, rfl, rfl, rfl, rfl, push_inv hia (hnok.mono (Nat.le_refl _) rfl)⟩
  simp only [step, stepV]
  split
  · rename_i h; rw [hc] at h; cases h
  · rename_i st' h
    have : st' = st := by rw [hc] at h; cases h; rfl
    subst this
    rw [e1, Option.bind_some, e2, Option.bind_some, e3, Option.map_some]

/-- **Every call `error_recovery` issues under its guard is defined and keeps the invariant**:
no array or stack access outside the object, no failing `assert`, no undefined read through
the popped pointer; afterwards the concrete state again refines (original list, current list). -/
theorem step_inv {orig : List α} {origT : List Int} {cap : Nat} {s : St α} (hi : Inv orig origT cap s)
    (o : Op α) (hg : guard s o = true) : ∃ s', step s o = some s' ∧ Inv orig origT cap s' := by
  cases o with
  | pop =>
    obtain ⟨_, s', _, h, _, _, _, _, hi'⟩ := pop_inv hi (by simpa [guard] using hg)
    exact ⟨s', h, hi'⟩
  | advance j cost stok =>
    simp only [guard, Bool.and_eq_true, decide_eq_true_eq, Option.isSome_iff_exists] at hg
    obtain ⟨⟨⟨st, hc⟩, _⟩, hj⟩ := hg
    obtain ⟨s', h, _, _, _, _, _, hi'⟩ := advance_inv hi hc hj cost stok
    exact ⟨s', h, hi'⟩
  | setTok t => exact ⟨_, rfl, setTok_inv hi t⟩
  | pushCur c =>
    simp only [guard, Option.isSome_iff_exists] at hg
    obtain ⟨st, hc⟩ := hg
    obtain ⟨s', h, _, _, _, hi'⟩ := pushCur_inv hi hc c
    exact ⟨s', h, hi'⟩
  | write x t =>
    obtain ⟨s', h, _, _, hi'⟩ := write_inv hi x t (by simpa [guard] using hg)
    exact ⟨s', h, hi'⟩
  | snapBest =>
    simp only [guard, Option.isSome_iff_exists] at hg
    obtain ⟨st, hc⟩ := hg
    obtain ⟨s', h, _, _, _, hi'⟩ := snapBest_inv hi hc
    exact ⟨s', h, hi'⟩
  | finish =>
    simp only [guard, Option.isSome_iff_exists] at hg
    obtain ⟨b, hb⟩ := hg
    obtain ⟨s', h, _, _, _, hi'⟩ := finish_inv hi hb
    exact ⟨s', h, hi'⟩

/-- **1. refinement, for every sequence of calls that respects the protocol.** -/
theorem run_inv {orig : List α} {origT : List Int} {cap : Nat} (ops : List (Op α)) :
    ∀ {s : St α}, Inv orig origT cap s → protocol s ops = true →
    ∃ s', run s ops = some s' ∧ Inv orig origT cap s' := by
  induction ops with
  | nil => intro s hi _; exact ⟨s, rfl, hi⟩
  | cons o os ih =>
    intro s hi hp
    simp only [protocol, Bool.and_eq_true] at hp
    obtain ⟨s1, h1, hi1⟩ := step_inv hi o hp.1
    have hp2 := hp.2
    rw [h1] at hp2
    obtain ⟨s', h', hi'⟩ := ih hi1 hp2
    refine ⟨s', ?_, hi'⟩
    unfold step at h1
    simp only [run, runV, h1, Option.bind_some]
    exact h'

/-- what `Inv` says in terms of lists: the current list starts with `original_last_pl_el + 1`
original sets (with their token numbers), and the stack is the reversed original tail from the
lowest index ever handed to `save_original_sets` (`back_pl_frontier`) up to `start_pl_curr` -/
theorem Inv.lists {orig : List α} {origT : List Int} {cap : Nat} {s : St α} (hi : Inv orig origT cap s) :
    s.cpl.take s.origN = orig.take s.origN ∧ s.cplToks.take s.origN = origT.take s.origN ∧
    s.origStack = (orig.drop s.frontier).reverse := by
  have hn := hi.nCur
  refine ⟨?_, ?_, ?_⟩
  · simp only [St.cpl, List.take_take, Nat.min_eq_left hn]
    exact take_eq_of_pre fun i h => (hi.mem.pre i h).1
  · simp only [St.cplToks, List.take_take, Nat.min_eq_left hn]
    exact take_eq_of_pre fun i h => (hi.mem.pre i h).2
  · have hlow := hi.low
    have hol := hi.origLen
    apply List.ext_getElem?
    intro k
    by_cases hk : k < s.origStack.length
    · rw [hi.mem.stk k hk, List.getElem?_reverse (by simp only [List.length_drop]; omega), List.getElem?_drop]
      congr 1
      simp only [List.length_drop]; omega
    · rw [List.getElem?_eq_none (by omega), List.getElem?_eq_none (by simp only [List.length_reverse, List.length_drop]; omega)]

/-! ## the initialisation (4520-4530) establishes the invariant -/

/-- `save_original_sets` does not look at the watermark inside its loop -/
theorem saveLoop_origN (v : SaveVariant) (n : Nat) : ∀ (s : St α) (k : Nat),
    saveLoop v n { s with origN := k } = (saveLoop v n s).map fun s' => { s' with origN := k } := by
  induction n with
  | zero => intro s k; rfl
  | succ n ih =>
    intro s k
    simp only [saveLoop]
    by_cases hle : s.origStack.length ≤ s.start
    · simp only [hle, if_true]
      cases h1 : s.pl[s.start - s.origStack.length]? with
      | none => simp
      | some x =>
        cases h2 : s.plToks[s.start - s.origStack.length]? with
        | none => simp
        | some t =>
          simp only
          by_cases hc : s.start - s.origStack.length < s.origToks.length
          · simp only [hc, if_true]
            exact ih { s with
              origStack := s.origStack ++ [x],
              origToks := if v.copyTok then s.origToks.set (s.start - s.origStack.length) t else s.origToks } k
          · simp [hc]
    · simp [hle]

/-- **The start of a recovery establishes the invariant** for the original list
`pl[0 .. pl_curr]`, whatever value the previous recovery left in `original_last_pl_el`
(as long as the `assert` of `save_original_sets` holds: `h5`). -/
theorem start_inv {cap : Nat} {s0 : St α} (h1 : s0.pl.length = cap) (h2 : s0.plToks.length = cap)
    (h3 : s0.origToks.length = cap) (h4 : s0.plCurr < cap) (h5 : s0.origN ≤ s0.plCurr + 1)
    {j : Nat} (hj : j ≤ s0.plCurr) (cost : Nat) :
    ∃ s', startRecovery s0 j cost = some s' ∧ s'.start = s0.plCurr ∧ s'.plCurr = j ∧ s'.pl = s0.pl ∧
      s'.plToks = s0.plToks ∧ s'.recLen = 1 ∧
      Inv (s0.pl.take (s0.plCurr + 1)) (s0.plToks.take (s0.plCurr + 1)) cap s' := by
  have hm1 : Mem (s0.pl.take (s0.plCurr + 1)) (s0.plToks.take (s0.plCurr + 1)) cap { s0 with
      origStack := [], recMem := [], recLen := 0, epoch := s0.epoch + 1, start := s0.plCurr, plCurr := j,
      frontier := j, cur := none, best := none, origN := s0.plCurr + 1 } := by
    refine ⟨h1, h2, h3, h4, by simp, by simp, by simp, ?_, by simp, ?_⟩
    · intro i hi
      simp only at hi
      simp only [List.getElem?_take, hi, if_true, and_self]
    · intro i hi1 hi2
      simp only [List.length_nil] at hi1 hi2
      omega
  obtain ⟨stk', ot', he, hl, hm2⟩ := saveLoop_spec (s0.plCurr + 1 - j) _ hm1 (by simp only [List.length_nil]; omega)
  simp only [List.length_nil, Nat.zero_add] at hl
  obtain ⟨n, hnew, hnok, _⟩ := newRecoveryState_ok (cap := cap) (s := { s0 with
      origStack := stk', origToks := ot', recMem := [], recLen := 0, epoch := s0.epoch + 1, start := s0.plCurr,
      plCurr := j, frontier := j, cur := none, best := none, origN := j })
    h1 h2 (by simp only; omega) (last := j) (Nat.le_refl _) (Nat.le_refl _) hj cost
  have e1 : saveOriginalSetsV {} { s0 with
      origStack := [], recMem := [], recLen := 0, epoch := s0.epoch + 1, start := s0.plCurr, plCurr := j,
      frontier := j, cur := none, best := none } = some { s0 with
      origStack := stk', origToks := ot', recMem := [], recLen := 0, epoch := s0.epoch + 1, start := s0.plCurr,
      plCurr := j, frontier := j, cur := none, best := none, origN := j } := by
    unfold saveOriginalSetsV
    rw [if_pos (by simp only; exact h5)]
    have := saveLoop_origN {} (s0.plCurr + 1 - j) { s0 with
      origStack := [], recMem := [], recLen := 0, epoch := s0.epoch + 1, start := s0.plCurr, plCurr := j,
      frontier := j, cur := none, best := none, origN := s0.plCurr + 1 } s0.origN
    rw [he] at this
    show (saveLoop {} (s0.plCurr + 1 - 0 - j) _).map _ = _
    rw [Nat.sub_zero]
    erw [this]
    rfl
  refine ⟨{ s0 with
      origStack := stk', origToks := ot', recMem := [n], recLen := 1, epoch := s0.epoch + 1 + 1, start := s0.plCurr,
      plCurr := j, frontier := j, cur := none, best := none, origN := j }, ?_, rfl, rfl, rfl, rfl, rfl, ?_⟩
  · unfold startRecovery startRecoveryV
    simp only
    rw [e1, Option.bind_some]
    unfold pushRecoveryState
    rw [hnew]; rfl
  · refine ⟨⟨h1, h2, hm2.otLen, h4, hm2.lenLe, by simp only; omega, by simp only; omega, ?_, hm2.stk, hm2.ot⟩,
      by simp only [List.length_take]; omega, by simp only [List.length_take]; omega, by simp only; omega,
      by simp only; omega, by simp only; omega, by simp, ?_, by simp, by simp⟩
    · intro i hi
      exact hm2.pre i (by simp only at hi ⊢; omega)
    · intro k st hk hg
      simp only at hk hg
      have : k = 0 := by omega
      subst this
      simp only [List.getElem?_cons_zero, Option.some.injEq] at hg
      subst hg
      exact hnok.mono (Nat.le_refl _) rfl

/-- **1 + 2 together, from the start of a recovery**: for every `j ≤ pl_curr` and every sequence
of calls respecting the protocol, everything is defined and the final state refines the pair
(list at the start, current list). -/
theorem recovery_refines {cap : Nat} {s0 : St α} (h1 : s0.pl.length = cap) (h2 : s0.plToks.length = cap)
    (h3 : s0.origToks.length = cap) (h4 : s0.plCurr < cap) (h5 : s0.origN ≤ s0.plCurr + 1)
    {j : Nat} (hj : j ≤ s0.plCurr) (cost : Nat) (ops : List (Op α)) :
    ∃ s1, startRecovery s0 j cost = some s1 ∧
      (protocol s1 ops = true →
        ∃ s', run s1 ops = some s' ∧ Inv (s0.pl.take (s0.plCurr + 1)) (s0.plToks.take (s0.plCurr + 1)) cap s') := by
  obtain ⟨s1, he, _, _, _, _, _, hi⟩ := start_inv h1 h2 h3 h4 h5 hj cost
  exact ⟨s1, he, fun hp => run_inv ops hi hp⟩

/-- eight slots = `2 * (3 + 1)`: three tokens -/
def ex0Cap : St Nat :=
  { pl := [10, 11, 12, 13, 14, 15, 16, 17], plToks := [-1, 0, 1, 2, 3, 4, 5, 6], plCurr := 3, tokCurr := 3,
    start := 0, frontier := 0, origStack := [], origToks := List.replicate 8 99, origN := 0,
    recMem := [], recLen := 0, epoch := 0, cur := none, best := none }

/-! ## 3. capacity -/

/-- The guard of `write` is the list-length bound of the abstract model: with `toks_len = n`
tokens (end marker included) `pl_create` allocates `2 * (n + 1)` slots, and theorem
`pl_capacity` / `search_state_list_capacity` of `Props/C07.lean` bound every list of the search,
the appended set included, by `2 * n + 1` (`n = w.length + 1` there). -/
theorem write_guard_of_capacity {s : St α} {n : Nat} (hcap : s.pl.length = 2 * (n + 1)) (x : α) (t : Int)
    (hlen : (s.cpl ++ [x]).length ≤ 2 * n + 1) : guard s (.write x t) = true := by
  simp only [St.cpl, List.length_append, List.length_take, List.length_singleton] at hlen
  simp only [guard, decide_eq_true_eq]
  omega

example : guard ex0Cap (.write 5 0) = true :=
  write_guard_of_capacity (n := 3) (by decide) 5 0 (by decide)

/-- every index `set_recovery_state` writes is inside `pl[]`, `pl_toks[]` (the states on the
stack, the popped one and the best one all fit), every index used for `original_pl_toks[]` is
inside its allocation: part of "defined" in `step_inv`; explicitly for the stacked states: -/
theorem stacked_states_fit {orig : List α} {origT : List Int} {cap : Nat} {s : St α} (hi : Inv orig origT cap s)
    {k : Nat} {st : RecState α} (hk : k < s.recLen) (hg : s.recMem[k]? = some st) :
    st.last + st.tail.length < s.pl.length ∧ st.last ≤ s.start ∧ s.start < s.origToks.length := by
  have h := hi.recOK k st hk hg
  rw [hi.mem.plLen, hi.mem.otLen]
  exact ⟨h.fits, h.hi, hi.mem.startLt⟩

/-! ## non-vacuity and historic mistakes, on one small recovery

Eight slots, original list `[10, 11, 12, 13]` (`pl_curr = 3`), first `error` set `2`, then: pop,
back frontier to `0`, head push, two writes, best state, two more states tried, best restored. -/

def ex0 : St Nat :=
  { pl := [10, 11, 12, 13, 14, 15, 16, 17], plToks := [-1, 0, 1, 2, 3, 4, 5, 6], plCurr := 3, tokCurr := 3,
    start := 0, frontier := 0, origStack := [], origToks := List.replicate 8 99, origN := 0,
    recMem := [], recLen := 0, epoch := 0, cur := none, best := none }

def exOps : List (Op Nat) :=
  [.pop, .advance 0 1 3, .setTok 4, .pushCur 1, .write 50 (-1), .write 51 4, .snapBest,
   .pop, .write 60 (-1), .pop, .write 70 (-1), .finish]

def exRun (v : SaveVariant) : Option (List Nat × List Int) :=
  ((startRecoveryV v ex0 2 0).bind fun s => runV v s exOps).map fun s => (s.cpl, s.cplToks)

/-- the hypotheses of `recovery_refines` hold, the protocol is respected, and the result is
"original prefix ++ tail of the best state" although `pl[1]`, `pl[3]` were overwritten twice -/
example : ex0.pl.length = 8 ∧ ex0.plToks.length = 8 ∧ ex0.origToks.length = 8 ∧ ex0.plCurr < 8 ∧
    ex0.origN ≤ ex0.plCurr + 1 ∧ 2 ≤ ex0.plCurr ∧
    (match startRecovery ex0 2 0 with | some s1 => protocol s1 exOps | none => false) = true ∧
    exRun {} = some ([10, 11, 12, 50, 51], [-1, 0, 1, -1, 4]) := by decide

/-- non-vacuity of `pop_inv` / `setRecoveryState_spec`: a restore that really reads the stack -/
example : ((startRecovery ex0 2 0).bind fun s => run s (exOps.take 11)).map
      (fun s => (s.cpl, s.origN, s.origStack, s.best.map (·.tail))) =
    some ([10, 70], 1, [13, 12, 11, 10], some [50, 51]) := by decide

/-- historic mistake 1 (`original_pl_toks[curr_pl] = pl_toks[curr_pl]` dropped): the sets come
back, their token numbers do not -/
example : exRun { copyTok := false } = some ([10, 11, 12, 50, 51], [-1, 99, 99, -1, 4]) := by decide

/-- historic mistake 2 (restore through a base shifted by one): the very first restore reads
the stack outside its contents … -/
example : exRun { restoreShift := 1 } = none := by decide

/-- … and where the shifted read is inside the stack it restores the wrong set -/
example :
    ((startRecovery ex0 1 0).bind fun s =>
      (run s [.pop, .advance 0 1 3, .pop, .write 70 (-1)]).bind fun s =>
        (restoreOriginalSetsV { restoreShift := 1 } s 1).map (·.pl.take 2)) = some [10, 10] ∧
    ((startRecovery ex0 1 0).bind fun s =>
      (run s [.pop, .advance 0 1 3, .pop, .write 70 (-1)]).bind fun s =>
        (restoreOriginalSets s 1).map (·.pl.take 2)) = some [10, 11] := by decide

/-- historic mistake 3 (`original_last_pl_el = pl_curr` instead of `pl_curr - 1`): the variant
claims that `pl[pl_curr]` is original after the save.  `error_recovery` never overwrites
`pl[pl_curr]` itself (its writes are `pl[++pl_curr]`) and resets the watermark by
`set_original_set_bound` after the only other save, so under the protocol the variant yields
the same lists (only the `Restore original set=` line of the first pop disappears): the
statement "the refinement breaks" is FALSE for this variant … -/
example : exRun { boundOff := 1 } = exRun {} ∧
    (startRecoveryV { boundOff := 1 } ex0 2 0).map (·.origN) = some 3 ∧
    (startRecovery ex0 2 0).map (·.origN) = some 2 := by decide

/-- … it breaks the contract stated in the comment of `save_original_sets` ("subsequent writing
to `pl [pl_curr]`"): after such a write the variant's watermark covers a slot that is not
original, the correct one does not. -/
example :
    ((startRecoveryV { boundOff := 1 } ex0 2 0).map fun s =>
      decide (((s.pl.set s.plCurr 77).take s.origN) = ex0.pl.take s.origN)) = some false ∧
    ((startRecovery ex0 2 0).map fun s =>
      decide (((s.pl.set s.plCurr 77).take s.origN) = ex0.pl.take s.origN)) = some true := by decide

end Yaep.RS
