import Yaep.Lemmas.Recovery
/-!
# C06 — error recovery: the recovery callbacks

Properties of `parseWithRecovery` (`Yaep/Model/Recovery.lean`): the triples
`(error token, first ignored, first recovered)` reported for the recovery calls.  All
theorems assume `r.ok = true` (every search finished and found a recovery).
Invariants and helper lemmas are in `Yaep/Lemmas/Recovery.lean`.
-/
namespace Yaep

/-- example grammar: terminals `0 = error`, `1 = $eof`, `2 = a`, `3 = ;`; nonterminals
`0 = $S`, `1 = S`, `2 = stmt`; rules `$S : S $eof`, `S : S stmt | stmt`,
`stmt : a ';' | error ';'`, `$S : error $eof`. -/
def c06Grammar : Grammar :=
  { rules := [ { lhs := 0, rhs := [.n 1, .t 1] },
               { lhs := 1, rhs := [.n 1, .n 2] },
               { lhs := 1, rhs := [.n 2] },
               { lhs := 2, rhs := [.t 2, .t 3] },
               { lhs := 2, rhs := [.t 0, .t 3] },
               { lhs := 0, rhs := [.t 0, .t 1] } ],
    termNames := ["error", "$eof", "a", ";"], termCodes := [-1, -2, 97, 59],
    ntNames := ["$S", "S", "stmt"], errT := 0, eofT := 1, axiomN := 0, startN := 1 }

/-- Every call has `first ignored ≤ first recovered ≤ token count`, its error token lies
inside the input (the end marker has index `w.length`), and the first ignored token is not
after the error token. -/
theorem calls_wf {g : Grammar} {la rmatch : Nat} {w : List Nat} {sfuel : Nat}
    (hok : (parseWithRecovery g la rmatch w sfuel).ok = true) :
    ∀ c ∈ (parseWithRecovery g la rmatch w sfuel).calls,
      c.2.1 ≤ c.2.2 ∧ c.2.2 ≤ w.length ∧ c.1 ≤ w.length ∧ c.2.1 ≤ c.1 := by
  intro c hc
  obtain ⟨h1, h2, h3, h4⟩ := (parseWithRecovery_inv hok).calls_wf c hc
  rw [List.length_append, List.length_singleton] at h2 h3
  exact ⟨h1, Nat.le_of_lt_succ h2, Nat.le_of_lt_succ h3, h4⟩

example : (parseWithRecovery c06Grammar 1 2 [2, 3, 2, 2, 3, 2, 3] 200).ok = true ∧
    (parseWithRecovery c06Grammar 1 2 [2, 3, 2, 2, 3, 2, 3] 200).calls = [(3, 2, 4)] := by decide

/-- The subtraction `rstart := startTok - kept.length` of the model never truncates: in a
parse list handed to the search (`PLOk`: token indices of the non-`error` sets strictly
increasing and below the current token) the number of non-`error` sets after any set is at
most the index of the current token. -/
theorem kept_le_startTok {g : Grammar} {full : List Nat} {pl : List PSet} {tok : Nat}
    (h : PLOk g full pl tok) (last : Nat) (hl : last ≤ pl.length - 1) :
    (((pl.drop (last + 1)).take (pl.length - 1 - last)).filter (fun s => !s.isErr g)).length ≤ tok := by
  obtain ⟨s0, rest, rfl, _, _, hseg, _⟩ := h
  have h1 : ((((s0 :: rest).drop (last + 1)).take ((s0 :: rest).length - 1 - last)).filter
      (fun s => !s.isErr g)).length ≤ nonErr g (rest.drop last) := by
    rw [List.drop_succ_cons]
    unfold nonErr
    rw [List.take_of_length_le (by simp only [List.length_drop, List.length_cons]; omega)]
    exact Nat.le_refl _
  have h2 := nonErr_le_cnt (hseg.drop last).sets
  have h3 := cnt_drop_le rest last
  have h4 := hseg.cnt_le
  omega

/-- … and every list the outer loop holds satisfies `PLOk`: in particular the final one. -/
theorem final_pl_ok {g : Grammar} {la rmatch : Nat} {w : List Nat} {sfuel : Nat}
    (hok : (parseWithRecovery g la rmatch w sfuel).ok = true) :
    PLOk g (w ++ [g.eofT]) (parseWithRecovery g la rmatch w sfuel).pl (w.length + 1) := by
  have := (parseWithRecovery_inv hok).pl_ok
  rwa [List.length_append, List.length_singleton] at this

/-- The token at which a recovery resumes is not before the error token (so the next error
token is strictly later): for the best state `b` found by the search started at token `tok`
on a list satisfying the loop invariant, `tok ≤ b.tok < token count`. -/
theorem best_tok_ge {g : Grammar} {an : Analysis} {la rmatch : Nat} {full : List Nat}
    {pl : List PSet} {tok : Nat} {calls : List (Nat × Nat × Nat)}
    (h : OuterInv g an la full tok pl calls) (ht : tok < full.length) (sfuel : Nat) (b : Best)
    (hb : (recoverAt g an la rmatch full pl tok sfuel).best = some b) :
    tok ≤ b.tok ∧ b.tok < full.length ∧ b.rstart ≤ b.rstop ∧ b.rstop ≤ b.tok := by
  have hB := (recoverAt_inv (rmatch := rmatch) h.pl_ok ht h.run sfuel).best b hb
  have hO := (h.recover ht hB).1
  have := hO.calls_wf (tok, b.rstart, b.rstop) (List.mem_append_right _ (List.mem_singleton.mpr rfl))
  obtain ⟨cost, hstop, hT⟩ := hB.tail
  have hK := (h.pl_ok.rctx ht h.run).backCost_le b.last
  have h1 := hT.acct; have h2 := hT.pos; have h3 := hB.rstart_eq; have h4 := hT.ls_ge
  exact ⟨hT.ls_ge, hT.ls_lt, this.1, by omega⟩

/-- Error tokens strictly increase from call to call. -/
theorem calls_increasing {g : Grammar} {la rmatch : Nat} {w : List Nat} {sfuel : Nat}
    (hok : (parseWithRecovery g la rmatch w sfuel).ok = true) :
    ((parseWithRecovery g la rmatch w sfuel).calls.map (·.1)).Pairwise (· < ·) :=
  (parseWithRecovery_inv hok).calls_sorted

example : (parseWithRecovery c06Grammar 0 1 [2, 2, 3, 3, 2] 200).ok = true ∧
    (parseWithRecovery c06Grammar 0 1 [2, 2, 3, 3, 2] 200).calls.map (·.1) = [1, 3, 5] := by decide

theorem buildPL_eq_parseLoop (g : Grammar) (la : Nat) (w : List Nat) :
    buildPL g la w = parseLoop g g.analysis la ((w ++ [g.eofT]).drop 0)
      (psItems [{ term := none, tok := none, items := set0 g }]) 0 := rfl

/-- The first call reports the first error of the plain (non-recovering) parse. -/
theorem first_call_is_firstError {g : Grammar} {la rmatch : Nat} {w : List Nat} {sfuel : Nat}
    (hok : (parseWithRecovery g la rmatch w sfuel).ok = true) {e a b : Nat}
    (h : (parseWithRecovery g la rmatch w sfuel).calls.head? = some (e, a, b)) :
    (buildPL g la w).1 = some e := by
  unfold parseWithRecovery at hok h
  obtain ⟨h1, h2⟩ := parseRecLoop_vs_parseLoop _ _ _ _ _ hok
  rw [buildPL_eq_parseLoop]
  cases hres : (parseLoop g g.analysis la ((w ++ [g.eofT]).drop 0)
      (psItems [{ term := none, tok := none, items := set0 g }]) 0).1 with
  | none => rw [h1 hres] at h; cases h
  | some e' =>
    obtain ⟨a', b', more, hm⟩ := h2 e' hres
    rw [hm] at h
    simp only [List.nil_append, List.head?_cons, Option.some.injEq, Prod.mk.injEq] at h
    rw [h.1]

/-- No recovery call is made iff the plain parse accepts. -/
theorem calls_nil_iff_accepts {g : Grammar} {la rmatch : Nat} {w : List Nat} {sfuel : Nat}
    (hok : (parseWithRecovery g la rmatch w sfuel).ok = true) :
    (parseWithRecovery g la rmatch w sfuel).calls = [] ↔ accepts g la w = true := by
  unfold parseWithRecovery at hok ⊢
  obtain ⟨h1, h2⟩ := parseRecLoop_vs_parseLoop _ _ _ _ _ hok
  unfold accepts
  rw [buildPL_eq_parseLoop, Option.isNone_iff_eq_none]
  constructor
  · intro hc
    cases hres : (parseLoop g g.analysis la ((w ++ [g.eofT]).drop 0)
        (psItems [{ term := none, tok := none, items := set0 g }]) 0).1 with
    | none => rfl
    | some e' =>
      obtain ⟨a', b', more, hm⟩ := h2 e' hres
      rw [hm] at hc; cases hc
  · intro hres; exact h1 hres

example : (parseWithRecovery c06Grammar 0 1 [2, 2, 3] 100).ok = true ∧
    (parseWithRecovery c06Grammar 0 1 [2, 2, 3] 100).calls.head? = some (1, 0, 2) ∧
    (buildPL c06Grammar 0 [2, 2, 3]).1 = some 1 := by decide
example : (parseWithRecovery c06Grammar 1 3 [2, 3, 2, 3] 100).ok = true ∧
    (parseWithRecovery c06Grammar 1 3 [2, 3, 2, 3] 100).calls = [] ∧
    accepts c06Grammar 1 [2, 3, 2, 3] = true := by decide

end Yaep
