import Yaep.Generated
import Yaep.Model.Lifecycle
/-!
# C17 / C14: the resource life cycle of `yaep_create_grammar`, `yaep_parse`, `yaep_free_grammar`
under a failure at ANY point — obligations about the programs extracted from the CURRENT source

`Generated.parseProg`, `Generated.createProg`, `Generated.freeProg` are rewritten by
`tools/extract_consts.py` on every run; every theorem below is re-checked then.  All `∀ k`
statements are proved by `decide` over the finite table `k ≤ nFail prog` (`call` clamps `k`:
beyond the last failure point nothing fails), i.e. by evaluating the interpreter in the kernel.
-/
namespace Yaep.Lifecycle
open Yaep.Generated

/-- the state after a successful `yaep_create_grammar`: exactly the grammar-lifetime pools -/
def g0 : State := { held := ["rule", "term_set", "symb", "grammar", "alloc"] }

def api : Api := ⟨createProg, parseProg, freeProg⟩

theorem call_clamp (prog : List Step) (k : Nat) (s : State) :
    call prog k s = call prog (min k (nFail prog)) s := by
  simp [call, Nat.min_assoc]

/-- the success path of `yaep_create_grammar` ends with exactly the grammar-lifetime pools, no error -/
theorem generated_create_ok : callOk createProg {} = (g0, true) := by decide

/-- **C17** a failure at ANY point of `yaep_create_grammar`: no double release, no release of a
pool never acquired (`symb_fin` etc. on pointers not yet set), and NOTHING is held afterwards -/
theorem generated_create_failure_frees (k : Nat) :
    (call createProg k {}).1.errs = [] ∧
    ((call createProg k {}).2 = false → (call createProg k {}).1.held = []) ∧
    ((call createProg k {}).2 = true → (call createProg k {}).1 = g0) := by
  rw [call_clamp]
  have h : ∀ j, j ≤ nFail createProg → (call createProg j {}).1.errs = [] ∧
      ((call createProg j {}).2 = false → (call createProg j {}).1.held = []) ∧
      ((call createProg j {}).2 = true → (call createProg j {}).1 = g0) := by decide
  exact h _ (Nat.min_le_right _ _)

/-- non-vacuity: the create program has 5 failure points, the last one is `rule_init`; failing
there runs the handler (`yaep_free_grammar`) over two pools held and one not yet created -/
example : failNames createProg = ["alloc", "grammar", "symb", "term_set", "rule"] ∧
    (call createProg 4 {}).2 = false ∧ (call createProg 4 {}).1.released = ["alloc", "symb", "term_set"] := by decide

/-- **C14** `yaep_free_grammar` releases everything, without an error -/
theorem generated_free_grammar_releases_all :
    (callOk freeProg g0).1.held = [] ∧ (callOk freeProg g0).1.errs = [] ∧ (callOk freeProg g0).2 = true := by decide

/-- the success path of `yaep_parse` gives back exactly the state it found -/
theorem generated_parse_ok : (callOk parseProg g0).1.held = g0.held ∧ (callOk parseProg g0).1.errs = [] ∧
    (callOk parseProg g0).2 = true := by decide

/-- **C17** a failure at ANY point of `yaep_parse`: no double release, no release of a pool never
acquired, no use of a pool not held, no flag read unset; the grammar-lifetime pools stay held -/
theorem generated_parse_no_error (k : Nat) :
    (call parseProg k g0).1.errs = [] ∧ (∀ p ∈ g0.held, p ∈ (call parseProg k g0).1.held) := by
  rw [call_clamp]
  have h : ∀ j, j ≤ nFail parseProg → (call parseProg j g0).1.errs = [] ∧
      (∀ p ∈ g0.held, p ∈ (call parseProg j g0).1.held) := by decide
  exact h _ (Nat.min_le_right _ _)

/-- the failure points of `yaep_parse` after which something more than the grammar is held -/
def parseLeaks : List Nat :=
  (List.range (nFail parseProg + 1)).filter fun k => (call parseProg k g0).1.held != g0.held

/-- THE STATEMENT WANTED (`∀ k, (call parseProg k g0).1 = g0`) IS FALSE for the current source:
an allocation failure inside `yaep_parse_init` AFTER `sit_init` (in `set_init`,
`core_symb_vect_init`) strikes while `parse_init_p` is still FALSE, so the handler does not call
`yaep_parse_fin` and the pools created so far stay allocated (a leak, not a corruption). -/
example : (call parseProg 4 g0).1.held = "sit" :: g0.held ∧
    (call parseProg 5 g0).1.held = "set" :: "sit" :: g0.held := by decide

/-- exactly these failure points leak: the stages of `yaep_parse_init` after the first
(`symb_get` is the loop of `yaep_parse_init`; it does not allocate in the real code) -/
theorem generated_parse_leak_window :
    parseLeaks.map (fun k => (failNames parseProg)[k]?) =
      [some "set", some "core_symb_vect", some "symb_get"] := by decide

/-- the states one object can be in between calls (they differ in which parse pools have been
released, i.e. which pointers dangle): closure of `g0` under parses failing outside the window -/
def step1 (R : List State) : List State :=
  (R ++ R.flatMap fun s => (List.range (nFail parseProg + 1)).filterMap fun k =>
    if k ∈ parseLeaks then none else some (call parseProg k s).1).eraseDups
def reach : List State := step1 (step1 [g0])

/-- **C17/C14 (the true statement)** a failure at any point of `yaep_parse` outside that window,
in any state an object can be in: exactly the grammar pools are held afterwards, nothing is
logged, and the state is again one of `reach` (so the statement applies to the next call) -/
theorem generated_parse_balanced (k : Nat) (hk : min k (nFail parseProg) ∉ parseLeaks) (s : State) (hs : s ∈ reach) :
    (call parseProg k s).1 ∈ reach ∧ (call parseProg k s).1.held = g0.held ∧ (call parseProg k s).1.errs = [] := by
  rw [call_clamp]
  have h : ∀ s ∈ reach, ∀ j, j ≤ nFail parseProg → j ∉ parseLeaks →
      (call parseProg j s).1 ∈ reach ∧ (call parseProg j s).1.held = g0.held ∧ (call parseProg j s).1.errs = [] := by decide
  exact h s hs _ (Nat.min_le_right _ _) hk

theorem generated_free_from_reach : ∀ s ∈ reach, (callOk freeProg s).1.held = [] ∧ (callOk freeProg s).1.errs = [] := by decide

/-- non-vacuity: 13 failure points; a failure in `make_parse` (point 10) releases all parse pools -/
example : nFail parseProg = 13 ∧ (failNames parseProg)[10]? = some "make_parse" ∧ 10 ∉ parseLeaks ∧ g0 ∈ reach ∧
    (call parseProg 10 g0).1.released.length = 4 ∧ 2 ≤ reach.length := by decide

/-- **C14, histories**: create (failing at any point, or not), any number of parses each failing
at any point outside the window (or not failing), free: nothing is held at the end and no step
ever logged an error -/
theorem generated_history_clean (ck : Option Nat) (pks : List (Option Nat))
    (hp : ∀ pk ∈ pks, min (kOf parseProg pk) (nFail parseProg) ∉ parseLeaks) :
    (history api ck pks).held = [] ∧ (history api ck pks).errs = [] := by
  have hc := generated_create_failure_frees (kOf createProg ck)
  have hfold : ∀ (l : List (Option Nat)) (s : State), s ∈ reach →
      (∀ pk ∈ l, min (kOf parseProg pk) (nFail parseProg) ∉ parseLeaks) →
      l.foldl (fun s pk => (call parseProg (kOf parseProg pk) s).1) s ∈ reach := by
    intro l
    induction l with
    | nil => intro s hs _; exact hs
    | cons a r ih =>
      intro s hs h
      simp only [List.foldl_cons]
      exact ih _ (generated_parse_balanced _ (h a (by simp)) s hs).1 (fun pk hpk => h pk (by simp [hpk]))
  by_cases h : (call createProg (kOf createProg ck) {}).2 = true
  · have e : history api ck pks = (call freeProg (nFail freeProg)
        (pks.foldl (fun s pk => (call parseProg (kOf parseProg pk) s).1) g0)).1 := by
      simp [history, api, h, hc.2.2 h]
    rw [e]
    exact generated_free_from_reach _ (hfold pks g0 (by decide) hp)
  · have h' : (call createProg (kOf createProg ck) {}).2 = false := by simpa using h
    have e : history api ck pks = (call createProg (kOf createProg ck) {}).1 := by
      simp [history, api, h']
    rw [e]
    exact ⟨hc.2.1 h', hc.1⟩

/-- non-vacuity: create, a parse failing in `build_pl`, a good parse, a parse of an undefined
grammar, free -/
example : (history api none [some 8, none, some 0]).held = [] := by
  set_option maxRecDepth 4000 in decide

/-- the unrestricted history statement is false: after a failure in `set_init` the next parse
overwrites the pointers of the pool `sit_init` left behind -/
example : (history api none [some 4, none]).errs = [.lost "sit"] := by
  set_option maxRecDepth 4000 in decide

/-! ## historic-mistake witnesses -/

/-- `yaep_parse` without the final `pl_fin ();` (the defect repaired by 3599bce) -/
def parseNoPlFin : List Step :=
  parseProg.filter (fun s => s != .h (.atom (.releaseIfHeld "pl")) && s != .h (.atom (.forget "pl")))

/-- the parse list is still held after a successful parse, and the next parse loses it -/
example : (callOk parseNoPlFin g0).1.held = "pl" :: g0.held ∧
    (callOk parseNoPlFin (callOk parseNoPlFin g0).1).1.errs ≠ [] := by decide

/-- the handler calling `yaep_parse_fin` / `tok_fin` unconditionally -/
def unguardH : HStep → List HStep
  | .ifFlag _ body => body.map .atom
  | x => [x]
def unguard : Step → Step
  | .handler hs => .handler (hs.flatMap unguardH)
  | x => x

/-- a failure before `tok_init` (an undefined grammar) then releases pools never acquired -/
example : (call (parseProg.map unguard) 0 g0).1.errs =
    [.releaseUnheld "core_symb_vect", .releaseUnheld "set", .releaseUnheld "sit", .releaseUnheld "tok"] := by decide

/-- `tok_init_p = TRUE;` before `tok_init ();`: a failing `tok_init` is then finalised -/
example : (call ([.handler [.ifFlag "f" [.release "tok"]], .h (.atom (.setFlag "f" true)), .h (.atom (.acquire "tok"))]) 0 {}).1.errs
    = [.releaseUnheld "tok"] := by decide

/-- a `symb_fin` without its NULL test: a failure of `symb_init` in `yaep_create_grammar` frees a
pool that was never created -/
def noNullTest : HStep → HStep
  | .atom (.releaseIfHeld p) => .atom (.release p)
  | x => x
example : (call (createProg.map fun | .handler hs => .handler (hs.map noNullTest) | x => x) 2 {}).1.errs ≠ [] := by decide

end Yaep.Lifecycle
