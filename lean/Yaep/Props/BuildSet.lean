import Yaep.Lemmas.BuildSet
import Yaep.Lemmas.BuildSetMP
import Yaep.Lemmas.BuildSetSafe
import Yaep.Props.C01
/-!
# The Earley-set construction of `src/yaep.c`, step for step, computes the abstract sets

`Yaep/Model/BuildSet.lean` (namespace `Yaep.BS`) transcribes `build_start_set`,
`build_new_set`, `expand_new_start_set`, `set_insert` and the main loop of `build_pl`
(lookahead levels 0 and 1).  This file states what is proved about that model; the proofs are
in `Yaep/Lemmas/BuildSetExpand.lean`, `BuildSetNew.lean`, `BuildSet.lean`, `BuildSetMP.lean`,
`BuildSetSafe.lean`.

Vocabulary used in the statements (defined in the lemma files):

* `filt g sits n X`  = `(List.range n).filter fun k => nextOf g sits k == some X`, the increasing
  list of the indices `k < n` such that situation `k` has `X` after the dot;
* `rfilt g sits n A` = the increasing list of the indices `k < n` such that situation `k` has the dot
  at the end of a rule with left-hand side `A`;
* `vecOf l` = `none` if `l = []`, else `some l` (a vector exists iff it is not empty);
* `TabInv g an tab`: every core `c` stored at index `i` of the table of cores satisfies
  `c = expandNewStartSet g an (Core.fresh i (its start situations))`;
* `PLOK g plA pl`: the C parse list `pl` and the abstract parse list `plA` have the same length and,
  position by position, `pl[k]` has the shape invariants (`SetOK`) and the same items as `plA[k]`
  (as sets).
-/
namespace Yaep.BS
open Yaep

/-! ## termination of the loops that scan a growing list -/

/-- `expand_new_start_set`, second loop: with the fuel `expandFuel` the loop leaves through its
test `i < n_sits` — more fuel does not change the result.  (`c1` is the core after the first
loop, for any start situations `ss`.) -/
theorem expand_fuel_suffices (g : Grammar) (an : Analysis) (num : Nat) (ss : List Sit) (extra : Nat) :
    expandLoop2 g an (expandFuel g (expandLoop1 g an (Core.fresh num ss)) + extra)
        (expandLoop1 g an (Core.fresh num ss)) =
      expandLoop2 g an (expandFuel g (expandLoop1 g an (Core.fresh num ss)))
        (expandLoop1 g an (Core.fresh num ss)) :=
  expandLoop2_stable g an
    (expandLoop1_spec g an (L1Inv_fresh num ss) (by simp [Core.derived, Core.fresh])).1 extra

/-- `build_new_set`, second loop: under the parse-list invariant the fuel `newSetFuel`
suffices (the distances of the start situations are bounded by the position of the set). -/
theorem newSet_fuel_suffices {g : Grammar} {an : Analysis} {ok : Nat → Nat → Bool}
    {plA : List (List Item)} {pl : List CSet} {a : Nat} (hnl : an.nl = g.nullable)
    (h : PLOK g plA pl) (hne : pl ≠ []) (extra : Nat) :
    newSetLoop2 g an ok pl (pl.length - 1) (newSetFuel g pl + extra)
        (newSetLoop1 ok (pl.getLastD default) (((pl.getLastD default).core.transOf (Sym.t a)).getD []),
          false) =
      newSetLoop2 g an ok pl (pl.length - 1) (newSetFuel g pl)
        (newSetLoop1 ok (pl.getLastD default) (((pl.getLastD default).core.transOf (Sym.t a)).getD []),
          false) :=
  (newSetLoop2_spec (P := PairOK g ok plA a) (pairOK_step hnl h) (fun _ hp => hp.in_univ h)
    (by rw [newSetLoop1_eq]; exact addNew_nodup _ List.nodup_nil) (pairOK_loop1 h hne) false).2 extra

/-! ## `expand_new_start_set`: shape of a core, transition and reduce vectors -/

/-- the invariants of a core -/
structure CoreInv (g : Grammar) (c : Core) : Prop where
  nStart_le : c.nStart ≤ c.nAllDists
  nAll_le : c.nAllDists ≤ c.sits.length
  parents_len : c.parents.length = c.nAllDists - c.nStart
  parents_lt : ∀ p ∈ c.parents, p < c.nStart
  /-- initial situations are not repeated -/
  init_nodup : (c.sits.drop c.nAllDists).Nodup
  /-- the transition vector of `X`: exactly the increasing list of the indices with `X` after
  the dot (no vector if there is none) -/
  trans : ∀ X, c.transOf X = vecOf (filt g c.sits c.sits.length X)
  /-- the reduce vector of `A`: exactly the increasing list of the indices with the dot at the
  end of a rule for `A` -/
  reduces : ∀ A, c.reducesOf A = vecOf (rfilt g c.sits c.sits.length A)

/-- whatever the start situations are, `expand_new_start_set` produces a core with these
invariants -/
theorem expand_core_invariants (g : Grammar) (an : Analysis) (num : Nat) (ss : List Sit) :
    CoreInv g (expandNewStartSet g an (Core.fresh num ss)) ∧
    (expandNewStartSet g an (Core.fresh num ss)).sits.take
      (expandNewStartSet g an (Core.fresh num ss)).nStart = ss ∧
    (expandNewStartSet g an (Core.fresh num ss)).num = num :=
  have h := expandNewStartSet_spec g an num ss
  ⟨⟨h.le, h.le', h.plen, h.parents_lt, h.nodup, h.trans, h.reduces⟩, h.start, h.num⟩

/-- every core of the parse list `build_pl` builds has the invariants, and one distance is
stored per start situation -/
theorem core_invariants (g : Grammar) (la : Nat) (w : List Nat) :
    ∀ cs ∈ (buildPLC g la w).2.2, CoreInv g cs.core ∧ cs.dists.length = cs.core.nStart := by
  intro cs hcs
  obtain ⟨num, ss, hc, hd, _⟩ := (buildPLC_spec g la w).2.2.2 cs hcs
  have h : ExpandSpec g g.analysis num ss cs.core := hc ▸ expandNewStartSet_spec g g.analysis num ss
  exact ⟨⟨h.le, h.le', h.plen, h.parents_lt, h.nodup, h.trans, h.reduces⟩, by rw [hd, h.nStart]⟩

/-- In the terms of `Yaep/Model/MakeParse.lean`: the vectors `make_parse` reads from
`core_symb_vect_find (core, symb)` are the functions `MP.transitions` / `MP.reduces` of the set
printed by the hook (situation `i` ↦ `(rule, dot, origin)`). -/
theorem core_vectors_eq_MP (g : Grammar) (la : Nat) (w : List Nat) (sets : Array (Array Item))
    (plToks : Array Int) (one : Bool) (j : Nat) :
    ∀ cs ∈ (buildPLC g la w).2.2,
      (∀ X, (cs.core.transOf X).getD [] =
        MP.transitions (MP.mkCtx g sets plToks one) (cs.items j).toArray X) ∧
      (∀ A, (cs.core.reducesOf A).getD [] =
        MP.reduces (MP.mkCtx g sets plToks one) (cs.items j).toArray A) := by
  intro cs hcs
  have hexp := (buildPLC_spec g la w).2.2.2 cs hcs
  obtain ⟨hinv, _⟩ := core_invariants g la w cs hcs
  refine ⟨fun X => ?_, fun A => ?_⟩
  · rw [hinv.trans, vecOf_getD, mp_transitions_eq_filt]
  · rw [hinv.reduces, vecOf_getD, mp_reduces_eq_rfilt g sets plToks one cs j A hexp.valid]

/-! ## hash-consing of cores on the start situations -/

/-- If `set_insert` finds the core in the table (returns `FALSE`), the stored core — with its
non-start situations and vectors — is what `expand_new_start_set` would compute from the start
situations of the set being formed. -/
theorem setInsert_reuse_sound {g : Grammar} {an : Analysis} {tab : Tab} (hinv : TabInv g an tab)
    (ns : NewStart) (hfound : (setInsert tab ns).2.2 = false) :
    (setInsert tab ns).2.1.core =
      expandNewStartSet g an (Core.fresh (setInsert tab ns).2.1.core.num (ns.map (·.1))) ∧
    (setInsert tab ns).2.1.dists = ns.map (·.2) := by
  have h := insert_expand_spec hinv ns
  dsimp only at h
  rw [hfound] at h
  obtain ⟨_, hd, num, hc⟩ := h
  simp only [Bool.false_eq_true, if_false] at hd hc
  refine ⟨?_, hd⟩
  have hn : (setInsert tab ns).2.1.core.num = num := by rw [hc]; exact expandNewStartSet_num ..
  rw [hn]; exact hc

/-- the table invariant holds initially and is kept by `build_new_set` (see
`buildNewSet_items`), hence at the end of `build_pl` -/
theorem tabInv_empty (g : Grammar) (an : Analysis) : TabInv g an {} := TabInv_empty g an

theorem tabInv_buildPLC (g : Grammar) (la : Nat) (w : List Nat) :
    TabInv g g.analysis (buildPLC g la w).2.1 := (buildPLC_spec g la w).2.1

/-! ## one set -/

/-- `build_start_set` computes `set0` (as a set of items); its core goes into the table. -/
theorem buildStartSet_items (g : Grammar) (an : Analysis) (hnl : an.nl = g.nullable) :
    (∀ it, it ∈ (buildStartSet g an).2.items 0 ↔ it ∈ set0 g) ∧
    TabInv g an (buildStartSet g an).1 ∧ PLOK g [set0 g] [(buildStartSet g an).2] := by
  obtain ⟨h1, h2, _, h4⟩ := buildStartSet_main g an hnl
  refine ⟨h4, h1, rfl, ?_, ?_⟩
  · intro k hk
    have : k = 0 := by simpa using hk
    subst this; simpa using h2
  · intro k hk it
    have : k = 0 := by simpa using hk
    subst this; simpa using h4 it

/-- **`build_new_set` computes `nextSet`.**  `pl` is the C parse list built so far, `plA` any
abstract parse list with the same items position by position (`PLOK`), `tab` a table of cores
satisfying the table invariant.  Then the set built by shifting the terminal `a` has exactly
the items of `nextSet g ok plA a`, and the invariants hold again for the longer lists. -/
theorem buildNewSet_items {g : Grammar} {an : Analysis} {ok : Nat → Nat → Bool} {tab : Tab}
    {pl : List CSet} {plA : List (List Item)} {a : Nat} (hnl : an.nl = g.nullable)
    (htab : TabInv g an tab) (h : PLOK g plA pl) (hne : pl ≠ []) :
    (∀ it, it ∈ (buildNewSet g an ok tab pl (pl.getLastD default) (Sym.t a)).2.items pl.length ↔
      it ∈ nextSet g ok plA a) ∧
    TabInv g an (buildNewSet g an ok tab pl (pl.getLastD default) (Sym.t a)).1 ∧
    PLOK g (plA ++ [nextSet g ok plA a])
      (pl ++ [(buildNewSet g an ok tab pl (pl.getLastD default) (Sym.t a)).2]) := by
  obtain ⟨h1, h2, _, h4⟩ := buildNewSet_main (ok := ok) (a := a) hnl htab h hne
  exact ⟨h4, h1, PLOK_snoc h h2 h4⟩

/-- the test `core_symb_vect_find (set->core, term) == NULL` of `build_pl` is the test
`hasTrans` of the abstract model -/
theorem find_term_iff_hasTrans {g : Grammar} {plA : List (List Item)} {pl : List CSet}
    (h : PLOK g plA pl) (hne : pl ≠ []) (a : Nat) :
    (pl.getLastD default).core.find (Sym.t a) = hasTrans g (plA.getLastD []) a :=
  find_iff_hasTrans h hne a

/-! ## the parse list -/

/-- **`build_pl` (step-for-step model) and `buildPL` (abstract model) agree**: same error index,
same number of sets, and position by position the same set of items.  No hypothesis on the
grammar or the input is needed.  (The statement holds for every `la`; the C code is modelled
for `la ≤ 1` only: at level 2 it uses dynamic contexts, see `Model/Earley2.lean`.) -/
theorem buildPLC_eq_buildPL (g : Grammar) (la : Nat) (w : List Nat) :
    (buildPLC g la w).1 = (buildPL g la w).1 ∧
    (buildPLC g la w).2.2.length = (buildPL g la w).2.length ∧
    ∀ j, j < (buildPL g la w).2.length → ∀ it,
      it ∈ ((buildPLC g la w).2.2.getD j default).items j ↔ it ∈ (buildPL g la w).2.getD j [] := by
  obtain ⟨h1, _, h3, _⟩ := buildPLC_spec g la w
  refine ⟨h1, h3.len.symm, fun j hj it => h3.items j (by rw [← h3.len]; exact hj) it⟩

theorem acceptsC_eq_accepts (g : Grammar) (la : Nat) (w : List Nat) :
    acceptsC g la w = accepts g la w := by
  unfold acceptsC accepts
  rw [(buildPLC_eq_buildPL g la w).1]

/-- At lookahead levels 0 and 1 the step-for-step model accepts exactly the sentences. -/
theorem acceptsC_iff_sentence {g : Grammar} {la : Nat} {w : List Nat} (hwf : g.WF)
    (hsr : g.symsInRange = true) (htok : ∀ a ∈ w, a ≠ g.eofT ∧ a ≠ g.errT) (hla : la ≤ 1) :
    acceptsC g la w = true ↔ Sentence g w := by
  rw [acceptsC_eq_accepts]
  exact accepts_iff_sentence hwf hsr htok hla

/-! ## the `do … while` of `build_new_set` -/

/-- In its second loop `build_new_set` runs `do { sit_ind = *curr_el++; … } while (curr_el < bound)`
over the transition vector of `core_symb_vect_find (prev_set_core, lhs)` (after
`assert (curr_el != NULL)`): a triple that has only a reduce vector would make it read through a
null pointer.  The model records such an entry in `Tab.bad`.  For the grammars
`yaep_read_grammar` builds (`Grammar.WF`) it never happens, whatever the input. -/
theorem doWhile_safe {g : Grammar} (hwf : g.WF) (la : Nat) (w : List Nat) :
    (buildPLC g la w).2.1.bad = false := buildPLC_not_bad hwf la w

example : c01Grammar.WF := by decide

/-- a grammar `yaep_read_grammar` cannot build: `$S : 'a'`, `$S : ` -/
def emptyAxiomGrammar : Grammar :=
  { rules := [ { lhs := 0, rhs := [.t 2] }, { lhs := 0, rhs := [] } ],
    termNames := ["error", "$eof", "a"], termCodes := [-1, -2, 97],
    ntNames := ["$S"], errT := 0, eofT := 1, axiomN := 0, startN := 0 }

/-- TEST: the hypothesis `WF` is needed — here set 0 has a reduce vector for `$S` and no
transition vector, and after `a` the start situation `$S : 'a' .` looks it up -/
example : ¬ emptyAxiomGrammar.WF ∧ (buildPLC emptyAxiomGrammar 0 [2]).2.1.bad = true := by decide

/-! ## the historic defect D13 (test)

`set_new_add_initial_sit` used to start its duplicate scan at `n_start_sits`, so an initial
situation (distance 0) was dropped when a *derived* situation with the same rule and dot —
but another origin — was already there. -/

/-- `S : X; X : Y Y 'x'; Y : ε | 'y' | 'y' X` with terminals `0 = error`, `1 = $eof`, `2 = x`,
`3 = y` and nonterminals `0 = $S`, `1 = S`, `2 = X`, `3 = Y` -/
def d13Grammar : Grammar :=
  { rules := [ { lhs := 0, rhs := [.n 1, .t 1] },
               { lhs := 1, rhs := [.n 2] },
               { lhs := 2, rhs := [.n 3, .n 3, .t 2] },
               { lhs := 3, rhs := [] },
               { lhs := 3, rhs := [.t 3] },
               { lhs := 3, rhs := [.t 3, .n 2] },
               { lhs := 0, rhs := [.t 0, .t 1] } ],
    termNames := ["error", "$eof", "x", "y"], termCodes := [-1, -2, 120, 121],
    ntNames := ["$S", "S", "X", "Y"], errT := 0, eofT := 1, axiomN := 0, startN := 1 }

/-- TEST (evaluation by `decide`): on the input `y x x` the historic version reports a syntax
error at token 2, the present code accepts, as the abstract model does, at both lookahead
levels; the grammar is well formed. -/
theorem d13_witness :
    d13Grammar.WF ∧
    (buildPLCD13 d13Grammar 0 [3, 2, 2]).1 = some 2 ∧ (buildPLCD13 d13Grammar 1 [3, 2, 2]).1 = some 2 ∧
    (buildPLC d13Grammar 0 [3, 2, 2]).1 = none ∧ (buildPLC d13Grammar 1 [3, 2, 2]).1 = none ∧
    accepts d13Grammar 0 [3, 2, 2] = true ∧ accepts d13Grammar 1 [3, 2, 2] = true := by
  decide

/-- TEST: the situation the historic scan drops.  In the set after `y` the present code has the
initial situation `X : Y Y . 'x'` with origin 1 (index 10) besides the derived ones with origin
0 (indices 3 and 4, the C list repeats an item); the historic version has only the latter. -/
example :
    (((buildPLC d13Grammar 0 [3, 2, 2]).2.2.getD 1 default).items 1).count ⟨2, 2, 1⟩ = 1 ∧
    (((buildPLC d13Grammar 0 [3, 2, 2]).2.2.getD 1 default).items 1).count ⟨2, 2, 0⟩ = 2 ∧
    (((buildPLCD13 d13Grammar 0 [3, 2, 2]).2.2.getD 1 default).items 1).count ⟨2, 2, 1⟩ = 0 := by
  decide

/-! ## non-vacuity and evaluation examples -/

/-- the model on `a a b b` with `S : 'a' S 'b' | ε` at level 1: no error, 6 sets, the cores
of the sets after the first and the second `a` are one core, even one set (5 cores and 5 sets
for 6 list elements), the `do … while` of `build_new_set` was never entered with an empty
vector -/
example : (buildPLC c01Grammar 1 [2, 2, 3, 3]).1 = none ∧
    (buildPLC c01Grammar 1 [2, 2, 3, 3]).2.2.length = 6 ∧
    (buildPLC c01Grammar 1 [2, 2, 3, 3]).2.1.nCores = 5 ∧
    (buildPLC c01Grammar 1 [2, 2, 3, 3]).2.1.nSets = 5 ∧
    (buildPLC c01Grammar 1 [2, 2, 3, 3]).2.1.bad = false ∧
    ((buildPLC c01Grammar 1 [2, 2, 3, 3]).2.2.getD 1 default).core =
      ((buildPLC c01Grammar 1 [2, 2, 3, 3]).2.2.getD 2 default).core := by decide

/-- the set after the first `a`, in the order of the C code: start situation `S : a . S b`
(distance 1), derived `S : a S . b` (parent 0), initial `S : . a S b`, `S : .` -/
example : ((buildPLC c01Grammar 1 [2, 3]).2.2.getD 1 default).items 1 =
    [⟨1, 1, 0⟩, ⟨1, 2, 0⟩, ⟨2, 0, 1⟩, ⟨1, 0, 1⟩] ∧
    ((buildPLC c01Grammar 1 [2, 3]).2.2.getD 1 default).core.parents = [0] ∧
    ((buildPLC c01Grammar 1 [2, 3]).2.2.getD 1 default).core.transOf (Sym.t 3) = some [1] ∧
    ((buildPLC c01Grammar 1 [2, 3]).2.2.getD 1 default).core.reducesOf 1 = some [2] := by decide

/-- `buildStartSet_items`: the analysis `build_pl` uses satisfies the hypothesis -/
example : c01Grammar.analysis.nl = c01Grammar.nullable := rfl

/-- `newSet_fuel_suffices`, `buildNewSet_items`, `find_term_iff_hasTrans`: the hypotheses hold
for the parse list after `build_start_set` -/
example : ∃ (an : Analysis) (tab : Tab) (pl : List CSet) (plA : List (List Item)),
    an.nl = c01Grammar.nullable ∧ TabInv c01Grammar an tab ∧ PLOK c01Grammar plA pl ∧ pl ≠ [] ∧
    (pl.getLastD default).core.find (Sym.t 2) = true :=
  ⟨c01Grammar.analysis, (buildStartSet c01Grammar c01Grammar.analysis).1,
    [(buildStartSet c01Grammar c01Grammar.analysis).2], [set0 c01Grammar], rfl,
    (buildStartSet_items c01Grammar _ rfl).2.1, (buildStartSet_items c01Grammar _ rfl).2.2,
    by simp, by decide⟩

/-- `setInsert_reuse_sound`: a table satisfying the invariant in which the start situations of
the set after `a` are found -/
example : ∃ (tab : Tab) (ns : NewStart), TabInv c01Grammar c01Grammar.analysis tab ∧
    (setInsert tab ns).2.2 = false :=
  ⟨(buildPLC c01Grammar 0 [2]).2.1, [((1, 1), 1)], tabInv_buildPLC c01Grammar 0 [2], by decide⟩

/-- `acceptsC_iff_sentence`: the hypotheses hold for `c01Grammar`, and both verdicts occur -/
example : c01Grammar.WF ∧ c01Grammar.symsInRange = true ∧
    (∀ a ∈ [2, 2, 3, 3], a ≠ c01Grammar.eofT ∧ a ≠ c01Grammar.errT) ∧
    acceptsC c01Grammar 1 [2, 2, 3, 3] = true ∧ acceptsC c01Grammar 0 [2, 3, 3] = false := by decide

example : Sentence c01Grammar [2, 2, 3, 3] :=
  (acceptsC_iff_sentence (g := c01Grammar) (la := 1) (by decide) (by decide) (by decide)
    (by decide)).mp (by decide)

end Yaep.BS
