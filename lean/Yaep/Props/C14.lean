import Yaep.Lemmas.Api
/-!
# C14: grammar objects are independent of each other and of their own past

Every API call reads and writes only the object it addresses (`apiStep_local`,
`apiStep_result_local`, `run_projection`); what it returns is determined by that object's
current definition, settings and error code (`call_result_from_state`).  A failed definition
leaves the object undefined until a later successful definition
(`failed_def_then_undefined`, `undefined_persists`), which behaves as on a fresh object
(`redefine_as_fresh`).
-/
namespace Yaep

/-! ## example data -/

/-- terminals `error` (-2), `$eof` (-1), `a` (97), `b` (98) -/
def gApi : Grammar :=
  { rules := [{ lhs := 0, rhs := [.n 1, .t 1] }, { lhs := 1, rhs := [.t 2] },
              { lhs := 0, rhs := [.t 0, .t 1] }],
    termNames := ["error", "$eof", "a", "b"], termCodes := [-2, -1, 97, 98],
    ntNames := ["$S", "S"], errT := 0, eofT := 1, axiomN := 0, startN := 1 }

/-- a table with room for three objects -/
def tab3 : List ObjState := [{}, {}, {}]

/-- two objects used alternately; object 1 gets a failed definition -/
def opsMixed : List ApiOp :=
  [.create 0, .create 1, .define 0 (.ok gApi), .define 1 (.error 9), .set 1 .la 7,
   .parse 0 false false [97, 98, -1], .parse 1 false false [97, -1], .parse 0 false false [5],
   .errcode 0, .errcode 1, .set 1 .la 0]

/-! ## locality -/

theorem apiStep_length (s : List ObjState) (op : ApiOp) : (apiStep s op).1.length = s.length :=
  length_apiStep s op

/-- a call does not touch the other objects -/
theorem apiStep_local {s : List ObjState} {op : ApiOp} {h' : Nat} (hne : h' ≠ op.handle) :
    objAt (apiStep s op).1 h' = objAt s h' := by
  rw [apiStep_eq]
  exact objAt_setAt_ne _ hne _

/-- the result of a call and the new state of its object depend only on that object -/
theorem apiStep_result_local {s s' : List ObjState} {op : ApiOp} (hh : op.handle < s.length)
    (hh' : op.handle < s'.length) (heq : objAt s op.handle = objAt s' op.handle) :
    (apiStep s op).2 = (apiStep s' op).2 ∧
      objAt (apiStep s op).1 op.handle = objAt (apiStep s' op).1 op.handle := by
  rw [apiStep_eq, apiStep_eq, heq]
  exact ⟨rfl, by rw [objAt_setAt_same hh, objAt_setAt_same hh']⟩

example : objAt (apiStep (run tab3 [.create 0, .create 1]).1 (.define 1 (.error 9))).1 0
    = objAt (run tab3 [.create 0, .create 1]).1 0 := apiStep_local (by decide)
example : (apiStep tab3 (.parse 1 false false [97])).2 = .rc 2 := rfl

/-- what a call returns is determined by the definition, the settings and the error code of
its object -- so it is what the same call returns on a fresh object brought to that state -/
theorem call_result_from_state {s s' : List ObjState} {op : ApiOp}
    (hd : (objAt s op.handle).defn = (objAt s' op.handle).defn)
    (hst : (objAt s op.handle).st = (objAt s' op.handle).st)
    (hle : (objAt s op.handle).lastErr = (objAt s' op.handle).lastErr) :
    (apiStep s op).2 = (apiStep s' op).2 := by
  rw [apiStep_eq, apiStep_eq]
  show (objStep _ op).2 = (objStep _ op).2
  cases op with
  | create h => rfl
  | set h k v => show ApiRes.prev _ = ApiRes.prev _; rw [hst]
  | define h res => cases res <;> rfl
  | parse h an fg codes =>
    show ApiRes.rc _ = ApiRes.rc _
    rw [parseRc_defn hd]
  | errcode h => show ApiRes.code _ = ApiRes.code _; rw [hle]
  | free h => rfl

/-- the calls on `h` inside any interleaving return what they return when run alone, and leave
`h` in the same state (`resultsFor h ops rs`: the results of the calls addressed to `h`) -/
theorem run_projection {s s' : List ObjState} {h : Nat} (hh : h < s.length) (hh' : h < s'.length)
    (heq : objAt s h = objAt s' h) (ops : List ApiOp) :
    resultsFor h ops (run s ops).2 = (run s' (ops.filter (·.handle = h))).2 ∧
      objAt (run s ops).1 h = objAt (run s' (ops.filter (·.handle = h))).1 h := by
  obtain ⟨h1, h2⟩ := run_obj hh ops
  obtain ⟨h3, h4⟩ := run_obj hh' (ops.filter (·.handle = h))
  have hall : ∀ op ∈ ops.filter (·.handle = h), op.handle = h := by
    intro op hop
    simpa using (List.mem_filter.mp hop).2
  rw [filter_handle_all hall] at h3 h4
  rw [resultsFor_all hall (length_run_results _ _)] at h4
  rw [h1, h2, h3, h4, heq]
  exact ⟨rfl, rfl⟩

/-- a sequence of calls on one table entry behaves like the sequence on the object alone -/
theorem run_single_object {s : List ObjState} {h : Nat} (hh : h < s.length) (ops : List ApiOp) :
    resultsFor h ops (run s ops).2 = (runObj (objAt s h) (ops.filter (·.handle = h))).2 ∧
      objAt (run s ops).1 h = (runObj (objAt s h) (ops.filter (·.handle = h))).1 :=
  ⟨(run_obj hh ops).2, (run_obj hh ops).1⟩

example : (run tab3 opsMixed).2 =
    [.unit, .unit, .rc 0, .rc 9, .prev 1, .rc 0, .rc 2, .rc 17, .code 17, .code 2, .prev 2] := by
  decide
example : resultsFor 0 opsMixed (run tab3 opsMixed).2
    = (run [{}] (opsMixed.filter (·.handle = 0))).2 :=
  (run_projection (s := tab3) (s' := [{}]) (h := 0) (by decide) (by decide) rfl opsMixed).1
example : resultsFor 1 opsMixed (run tab3 opsMixed).2
    = [.unit, .rc 9, .prev 1, .rc 2, .code 2, .prev 2] := by decide
example : (run [{}, {}] (opsMixed.filter (·.handle = 1))).2
    = [.unit, .rc 9, .prev 1, .rc 2, .code 2, .prev 2] := by decide

/-! ## failed and repeated definitions -/

/-- `yaep_parse` on an object without grammar returns `YAEP_UNDEFINED_OR_BAD_GRAMMAR`
(or `YAEP_NO_MEMORY` for the bad allocator pair, which is checked first) -/
theorem parse_undefined {s : List ObjState} {h : Nat} (hd : (objAt s h).defn = none)
    (an fg : Bool) (codes : List Int) :
    (apiStep s (.parse h an fg codes)).2 = .rc (if an && fg then 1 else 2) := by
  show ApiRes.rc (parseRc (objAt s h) an fg codes) = _
  unfold parseRc
  rw [hd]

/-- a failed definition leaves the object undefined, whatever it was before -/
theorem failed_def_then_undefined (s : List ObjState) (h : Nat) (e : ErrCode) (an fg : Bool)
    (codes : List Int) :
    (objAt (apiStep s (.define h (.error e))).1 h).defn = none ∧
      (apiStep (apiStep s (.define h (.error e))).1 (.parse h an fg codes)).2
        = .rc (if an && fg then 1 else 2) := by
  have hd : (objAt (apiStep s (.define h (.error e))).1 h).defn = none := by
    by_cases hh : h < s.length
    · rw [apiStep_eq]
      show (objAt (setAt s h _) h).defn = none
      rw [objAt_setAt_same hh]
      rfl
    · rw [objAt_out_of_range (by rw [length_apiStep]; exact hh)]
  exact ⟨hd, parse_undefined hd an fg codes⟩

/-- ... and it stays undefined through any calls (on any objects) that contain no successful
definition of `h` -/
theorem undefined_persists {s : List ObjState} {h : Nat} (hd : (objAt s h).defn = none)
    {ops : List ApiOp} (hops : ∀ op ∈ ops, ∀ g, op ≠ .define h (.ok g)) :
    (objAt (run s ops).1 h).defn = none := by
  by_cases hh : h < s.length
  · rw [(run_obj hh ops).1]
    apply runObj_defn_none hd
    intro op hop h' g heq
    have hm := List.mem_filter.mp hop
    have hh' : op.handle = h := by simpa using hm.2
    subst heq
    exact hops _ hm.1 g (by rw [← hh']; rfl)
  · rw [objAt_out_of_range (by rw [length_run]; exact hh)]

/-- so every parse in such a sequence reports the undefined grammar -/
theorem failed_def_parse_later (s : List ObjState) (h : Nat) (e : ErrCode) {ops : List ApiOp}
    (hops : ∀ op ∈ ops, ∀ g, op ≠ .define h (.ok g)) (an fg : Bool) (codes : List Int) :
    (apiStep (run (apiStep s (.define h (.error e))).1 ops).1 (.parse h an fg codes)).2
      = .rc (if an && fg then 1 else 2) :=
  parse_undefined (undefined_persists (failed_def_then_undefined s h e an fg codes).1 hops)
    an fg codes

example : (run tab3 [.create 1, .define 1 (.ok gApi), .parse 1 false false [97, -1],
    .define 1 (.error 15), .parse 1 false false [97, -1], .set 1 .one 0, .errcode 1,
    .parse 1 true true [97, -1], .parse 1 false false []]).2
    = [.unit, .rc 0, .rc 0, .rc 15, .rc 2, .prev 1, .code 2, .rc 1, .rc 2] := by decide

/-- a successful definition installs the grammar whatever the object's past; settings, error
code and the other objects are untouched -/
theorem redefine_as_fresh {s : List ObjState} {h : Nat} (hh : h < s.length) (g : Grammar) :
    (apiStep s (.define h (.ok g))).2 = .rc 0 ∧
      objAt (apiStep s (.define h (.ok g))).1 h = { objAt s h with defn := some g } := by
  rw [apiStep_eq]
  exact ⟨rfl, objAt_setAt_same hh _⟩

/-- hence a following parse returns what it returns on a freshly created object defined with
the same grammar -/
theorem parse_after_redefine {s : List ObjState} {h : Nat} (hh : h < s.length) (g : Grammar)
    (an fg : Bool) (codes : List Int) :
    (apiStep (apiStep s (.define h (.ok g))).1 (.parse h an fg codes)).2
      = (run [{}] [.create 0, .define 0 (.ok g), .parse 0 an fg codes]).2.getD 2 .unit := by
  show ApiRes.rc (parseRc (objAt (apiStep s (.define h (.ok g))).1 h) an fg codes) = _
  rw [(redefine_as_fresh hh g).2]
  exact congrArg ApiRes.rc (parseRc_defn rfl an fg codes)

example : (run tab3 [.create 2, .define 2 (.error 16), .parse 2 false false [97, -1],
    .define 2 (.ok gApi), .parse 2 false false [97, -1], .errcode 2]).2
    = [.unit, .rc 16, .rc 2, .rc 0, .rc 0, .code 2] := by decide
example : (run [{}] [.create 0, .define 0 (.ok gApi), .parse 0 false false [97, -1]]).2
    = [.unit, .rc 0, .rc 0] := by decide

end Yaep
