import Yaep.Lemmas.PruneC
import Yaep.Lemmas.PruneCWit
import Yaep.Lemmas.PruneCHistoric
import Yaep.Props.C04
import Yaep.Props.MakeParse
/-!
# `find_minimal_translation` of `src/yaep.c`, modelled step for step (`Model/PruneC.lean`),
proved against the declarative `prune` (`Spec/Forest.lean`, `Props/C04.lean`)

Hypotheses of all theorems: `WfHeap h0 rk hd` (`Lemmas/PruneCBasic.lean`: `rk` a rank below
`h0.size` that decreases along every reference, `hd` the head of the chain of every ALT cell,
child slots refer to heads only, alternatives are never ALT cells, cost fields `≥ 0`;
decidable through `wfHeapB` / `wfAuto`), the root a cell that is not inside a chain
(`root < h0.size`, `hd root = root`), fuel `≥ h0.size`.

* `pruneC_fuel` — the model never runs out of fuel;
* **`pruneC_denote`**, `pruneC_minimal_all`, `pruneC_minimal_one`, `pruneC_cost` — the final heap
  denotes what `prune` says: exactly the minimal-cost translations with accumulated cost
  fields (all of them / the first one);
* `pruneC_costs_restored` — the additive law on the final heap, every reachable field `≥ 0`;
* **`pruneC_frees`**, `pruneC_frees_nodup`, `pruneC_frees_names`, `pruneC_cleared`,
  `pruneC_cleared_nodup`, `pruneC_nil_used`, `pruneC_err_used`, `pruneC_no_free` — what is freed;
* `pruneC_unfold_is_export`, `pruneC_final_unfold_is_export`, `pruneC_denote_export`,
  **`pruneC_denote_tables`** — the unfoldings are those of the exported node tables;
* `pruneC_memo_sound`, `pruneC_call_deterministic` — the memo table, shared nodes;
* `Ex`, `ExMP` — non-vacuity on a hand-built heap and on a heap built by the model of
  `make_parse`; `HistoricTest` — the three historic defects violate the theorems;
  `HistoricInput` — the model against the library on the historic input (evaluation).
-/
namespace Yaep.PC
open Yaep

section
variable {h0 : Array Cell} {rk hd : Nat → Nat} (wf : WfHeap h0 rk hd) {root fuel : Nat}
  (hr : root < h0.size) (hdr : hd root = root) (hf : h0.size ≤ fuel) (one free : Bool)
  (nameBlk : Nat → Nat) (nu eu : Bool)
include wf hr hdr hf

/-- **fuel**: on a well-formed heap `heap.size` units of fuel suffice for both recursive
functions (and for every loop bound): the model never runs out of fuel -/
theorem pruneC_fuel :
    (findMinimalTranslation fuel h0 root one free nameBlk nu eu).oof = false := by
  rw [fmt_oof, (pass1_facts wf hr hdr hf one free).2.2.2.2.1,
    (pass2_facts wf hr hdr hf one free nameBlk).2.2.1]
  rfl

/-- **what the result denotes**: the trees of the final heap at the new root are exactly the
trees of `prune` applied to the unfolding of the input heap at the old root — as sets, and as
lists (hence: the one tree) when only one parse is kept.  (`f`: the fuel of the two unfoldings;
any `f ≥ heap.size` gives the same forests.) -/
theorem pruneC_denote (f : Nat) (hfu : h0.size ≤ f) :
    (∀ t, t ∈ denote (unfoldC (findMinimalTranslation fuel h0 root one free nameBlk nu eu).heap
                f (findMinimalTranslation fuel h0 root one free nameBlk nu eu).root) ↔
          t ∈ denote (prune (!one) (unfoldC h0 f root)).1) ∧
    (one = true →
      denote (unfoldC (findMinimalTranslation fuel h0 root one free nameBlk nu eu).heap
                f (findMinimalTranslation fuel h0 root one free nameBlk nu eu).root) =
        denote (prune (!one) (unfoldC h0 f root)).1) := by
  obtain ⟨p1, p2, p3, p4, p5, p6⟩ := pass1_facts wf hr hdr hf one free
  obtain ⟨q1, q2, q3, q4, q5⟩ := pass2_facts wf hr hdr hf one free nameBlk
  have hrk := wf.rk_lt root hr
  have hU : unfoldC h0 f root = U h0 rk root :=
    unfoldWith_indep _ wf (rk root) root (Nat.le_refl _) hr _ _ (by omega) (by omega)
  rw [fmt_heap, fmt_root, p2, unfold_restored q1 _ _ q2, hU]
  have := pruned_denote wf p1 (rk root) root (Nat.le_refl _) hr hdr p4 f (by omega)
  exact ⟨this.1, fun ho => this.2 (by simp [ho])⟩

omit hdr hf in
/-- the unfolded input forest has no empty ALT node (the premise of the theorems of C04) -/
theorem pruneC_input_total (f : Nat) (hfu : h0.size ≤ f) : (unfoldC h0 f root).total = true := by
  have hrk := wf.rk_lt root hr
  have hU : unfoldC h0 f root = U h0 rk root :=
    unfoldWith_indep _ wf (rk root) root (Nat.le_refl _) hr _ _ (by omega) (by omega)
  rw [hU]; exact U_total wf (rk root) root (Nat.le_refl _) hr

/-- **minimality, all parses**: the final heap denotes exactly the translations of minimal
total cost of the input forest, with accumulated cost fields -/
theorem pruneC_minimal_all (f : Nat) (hfu : h0.size ≤ f) (t' : Tree) :
    t' ∈ denote (unfoldC (findMinimalTranslation fuel h0 root false free nameBlk nu eu).heap
            f (findMinimalTranslation fuel h0 root false free nameBlk nu eu).root) ↔
      ∃ t, IsMinCost (denote (unfoldC h0 f root)) t ∧ t' = t.accum := by
  rw [(pruneC_denote wf hr hdr hf false free nameBlk nu eu f hfu).1 t']
  exact prune_denote_all (pruneC_input_total wf hr f hfu)

/-- **minimality, one parse**: the final heap denotes exactly one tree, a translation of
minimal total cost of the input forest with accumulated cost fields -/
theorem pruneC_minimal_one (f : Nat) (hfu : h0.size ≤ f) :
    ∃ t, IsMinCost (denote (unfoldC h0 f root)) t ∧
      denote (unfoldC (findMinimalTranslation fuel h0 root true free nameBlk nu eu).heap
            f (findMinimalTranslation fuel h0 root true free nameBlk nu eu).root) =
        [t.accum] := by
  rw [(pruneC_denote wf hr hdr hf true free nameBlk nu eu f hfu).2 rfl]
  exact prune_one_mem (pruneC_input_total wf hr f hfu)

/-- the cost the first pass leaves in the local `cost` is the minimal total cost -/
theorem pruneC_cost :
    (findMinimalTranslation fuel h0 root one free nameBlk nu eu).cost =
      ((prune (!one) (unfoldC h0 h0.size root)).2 : Int) := by
  rw [← U_eq_unfoldC wf hr]
  exact (pass1_facts wf hr hdr hf one free).2.2.1

/-- the heap keeps its size -/
theorem pruneC_heap_size :
    (findMinimalTranslation fuel h0 root one free nameBlk nu eu).heap.size = h0.size := by
  rw [fmt_heap, (pass2_facts wf hr hdr hf one free nameBlk).1.size,
    (pass1_facts wf hr hdr hf one free).1.size]

/-- **the additive law on the heap**: after `find_minimal_translation` every abstract node
reachable from the new root has a non-negative cost field (each shared node is restored exactly
once) that equals its rule cost — the field it had on entry — plus the costs found through its
children (`costOf`: the field of an abstract node, the field of the first alternative of a
chain, 0 for a leaf) -/
theorem pruneC_costs_restored {z : Nat} {nm : String} {c : Int} {ks : Array (Option Nat)}
    (hz : Reach (findMinimalTranslation fuel h0 root one free nameBlk nu eu).heap
      (findMinimalTranslation fuel h0 root one free nameBlk nu eu).root z)
    (hc : cellAt (findMinimalTranslation fuel h0 root one free nameBlk nu eu).heap z = .anode nm c ks) :
    0 ≤ c ∧ ∃ c0 ks0, cellAt h0 z = .anode nm c0 ks0 ∧
      c = c0 + ((kidsOf ks).map
        (costOf (findMinimalTranslation fuel h0 root one free nameBlk nu eu).heap)).sum := by
  obtain ⟨p1, p2, p3, p4, p5, p6⟩ := pass1_facts wf hr hdr hf one free
  obtain ⟨q1, q2, q3, q4, q5⟩ := pass2_facts wf hr hdr hf one free nameBlk
  rw [fmt_heap] at hz hc ⊢
  rw [fmt_root, p2] at hz
  have hzF := (reach_restored q1).1 hz
  have hin := q5.reach wf p1 hzF
  have hdz := q2 z hzF
  -- the cell in the pruned heap is an abstract node, so `z` is a processed abstract node
  have hFan : isAnode (pass1 fuel h0 root one free).1.heap z = true := by
    rcases q1.cells z with h | ⟨_, _, _, _, h, _⟩
    · rw [hc] at h; simp [isAnode, ← h]
    · simp [isAnode, h]
  rcases hin with ⟨hzlt, hal, hv⟩ | ⟨a, ha, hal, hda, hv, hzk⟩
  · have hk := nonalt_kind wf p1 hzlt (fun h => h) hal
    rw [hk.2.1] at hFan
    cases hc0 : cellAt h0 z with
    | anode nm0 c0 ks0 =>
      obtain ⟨ks', e1, e2, e3, e4⟩ := visited_anode wf p1 hzlt hc0 hv
      obtain ⟨-, e5⟩ := hdz.1 _ _ _ e1
      rw [e5] at hc
      injection hc with i1 i2 i3
      subst i1 i3
      obtain ⟨hc0nn, hkids⟩ := wf.anode z nm0 c0 ks0 hzlt hc0
      refine ⟨by omega, c0, ks0, rfl, ?_⟩
      rw [← i2, e2, List.map_map]
      have hsum : ((kidsOf ks0).map (costOf (pass2 fuel h0 root one free nameBlk).heap ∘ res0 h0 rk one)) =
          (kidsOf ks0).map fun y => (cost0 h0 rk one y : Int) := by
        apply List.map_congr_left
        intro y hy
        obtain ⟨y1, y2, y3⟩ := hkids y hy
        apply costOf_res0 wf p1 q1 y1 y3 (e3 y hy)
        intro w hw
        refine q2 w (hzF.trans (.step (b := res0 h0 rk one y) ?_ hw))
        simp only [succs, e1, e2]
        exact List.mem_map.2 ⟨y, hy, rfl⟩
      rw [hsum, cost0_anode wf one hzlt hc0]
      have := sum_cast ((kidsOf ks0).map (cost0 h0 rk one))
      rw [List.map_map] at this
      simp only [Function.comp_def] at this
      rw [← this]
      omega
    | alt _ _ => simp [isAlt, hc0] at hal
    | nil => simp [isAnode, hc0] at hFan
    | err => simp [isAnode, hc0] at hFan
    | term _ _ => simp [isAnode, hc0] at hFan
  · obtain ⟨⟨nx, e⟩, -, -⟩ := (visited_alt_chain wf p1 ha hal hda hv).1 z (kept_subset a z hzk)
    simp [isAnode, e] at hFan

end

/-! ## what is freed (`parse_free != NULL`) -/

theorem nodup_reverse_of {α : Type} {l : List α} (h : l.Nodup) : l.reverse.Nodup := by
  unfold List.Nodup at *
  rw [List.pairwise_reverse]
  exact h.imp fun h => Ne.symm h

/-- the state of the freeing loop when it ends -/
def freeSt (fuel : Nat) (h0 : Array Cell) (root : Nat) (one : Bool) (nameBlk : Nat → Nat) : FSt :=
  freeLoop (pass2 fuel h0 root one true nameBlk).heap nameBlk
    (pass1 fuel h0 root one true).1.coll.toList { resv := (pass2 fuel h0 root one true nameBlk).resv }

theorem fmt_frees (fuel : Nat) (h0 : Array Cell) (root : Nat) (one : Bool) (nameBlk : Nat → Nat)
    (nu eu : Bool) :
    (findMinimalTranslation fuel h0 root one true nameBlk nu eu).frees =
      (freeSt fuel h0 root one nameBlk).frees.reverse := rfl
theorem fmt_cleared (fuel : Nat) (h0 : Array Cell) (root : Nat) (one : Bool) (nameBlk : Nat → Nat)
    (nu eu : Bool) :
    (findMinimalTranslation fuel h0 root one true nameBlk nu eu).cleared =
      (freeSt fuel h0 root one nameBlk).cleared.reverse := rfl

section
variable {h0 : Array Cell} {rk hd : Nat → Nat} (wf : WfHeap h0 rk hd) {root fuel : Nat}
  (hr : root < h0.size) (hdr : hd root = root) (hf : h0.size ≤ fuel) (one : Bool)
  (nameBlk : Nat → Nat) (nu eu : Bool)
include wf hr hdr hf

/-- **the freed cells** are exactly the cells reachable from the old root in the input heap
and not reachable from the new root in the final heap, NIL and ERROR cells excluded (so no
cell reachable from the new root is freed) -/
theorem pruneC_frees (q : Nat) :
    Mem.cell q ∈ (findMinimalTranslation fuel h0 root one true nameBlk nu eu).frees ↔
      Reach h0 root q ∧
      ¬ Reach (findMinimalTranslation fuel h0 root one true nameBlk nu eu).heap
          (findMinimalTranslation fuel h0 root one true nameBlk nu eu).root q ∧
      isNE h0 q = false := by
  rw [fmt_frees, fmt_heap, fmt_root, (pass1_facts wf hr hdr hf one true).2.1, List.mem_reverse,
    freeSt, freeLoop_cell]
  simp only [List.not_mem_nil, false_or, Array.mem_toList_iff,
    coll_iff wf hr hdr hf one true rfl, resv_cell_iff wf hr hdr hf one true nameBlk rfl]
  constructor
  · rintro ⟨h1, h2, h3⟩
    refine ⟨h1, h2, ?_⟩
    rw [isNE_kind, ← kind_final wf hr hdr hf one true nameBlk (coll_seen wf hr hdr hf one true h1),
      ← isNE_kind]
    exact h3
  · rintro ⟨h1, h2, h3⟩
    refine ⟨h1, h2, ?_⟩
    rw [isNE_kind, kind_final wf hr hdr hf one true nameBlk (coll_seen wf hr hdr hf one true h1),
      ← isNE_kind]
    exact h3

omit wf hr hdr hf in
/-- … **each exactly once**, and every name block at most once -/
theorem pruneC_frees_nodup :
    (findMinimalTranslation fuel h0 root one true nameBlk nu eu).frees.Nodup := by
  rw [fmt_frees]
  exact nodup_reverse_of (freeLoop_ok _ _ _ _ ⟨List.nodup_nil, by simp, List.nodup_nil, by simp⟩).1

/-- **the freed name blocks**: a name block is freed iff no abstract node reachable from the
new root uses it and some freed abstract node does -/
theorem pruneC_frees_names (b : Nat) :
    Mem.name b ∈ (findMinimalTranslation fuel h0 root one true nameBlk nu eu).frees ↔
      (∀ z, Reach (findMinimalTranslation fuel h0 root one true nameBlk nu eu).heap
          (findMinimalTranslation fuel h0 root one true nameBlk nu eu).root z →
          isAnode h0 z = true → nameBlk z ≠ b) ∧
      ∃ p, Mem.cell p ∈ (findMinimalTranslation fuel h0 root one true nameBlk nu eu).frees ∧
        isAnode h0 p = true ∧ nameBlk p = b := by
  have hcell := pruneC_frees wf hr hdr hf one nameBlk nu eu
  simp only [hcell]
  rw [fmt_frees, fmt_heap, fmt_root, (pass1_facts wf hr hdr hf one true).2.1, List.mem_reverse,
    freeSt, freeLoop_name]
  simp only [List.not_mem_nil, false_or, Array.mem_toList_iff,
    coll_iff wf hr hdr hf one true rfl, resv_cell_iff wf hr hdr hf one true nameBlk rfl,
    resv_name_iff wf hr hdr hf one true nameBlk rfl]
  have hkind : ∀ p, Reach h0 root p →
      isAnode (pass2 fuel h0 root one true nameBlk).heap p = isAnode h0 p := by
    intro p hp
    rw [isAnode_kind, isAnode_kind,
      kind_final wf hr hdr hf one true nameBlk (coll_seen wf hr hdr hf one true hp)]
  constructor
  · rintro ⟨h1, p, hp1, hp2, hp3, hp4⟩
    refine ⟨fun z hz ha e => h1 ⟨z, hz, ha, e⟩, p, ⟨hp1, hp3, ?_⟩, by rw [← hkind p hp1]; exact hp2, hp4⟩
    have : isAnode h0 p = true := by rw [← hkind p hp1]; exact hp2
    rw [isNE_kind]
    rw [isAnode_kind] at this
    have : kindOf h0 p = 2 := by simpa using this
    simp [this]
  · rintro ⟨h1, p, ⟨hp1, hp3, -⟩, hp2, hp4⟩
    refine ⟨fun ⟨z, hz, ha, e⟩ => h1 z hz ha e, p, hp1, by rw [hkind p hp1]; exact hp2, hp3, hp4⟩

/-- **NIL / ERROR**: the `used` flag of a NIL or ERROR cell is cleared iff the cell was
reachable from the old root and is not reachable from the new root -/
theorem pruneC_cleared (q : Nat) :
    q ∈ (findMinimalTranslation fuel h0 root one true nameBlk nu eu).cleared ↔
      Reach h0 root q ∧
      ¬ Reach (findMinimalTranslation fuel h0 root one true nameBlk nu eu).heap
          (findMinimalTranslation fuel h0 root one true nameBlk nu eu).root q ∧
      isNE h0 q = true := by
  rw [fmt_cleared, fmt_heap, fmt_root, (pass1_facts wf hr hdr hf one true).2.1, List.mem_reverse,
    freeSt, freeLoop_cleared]
  simp only [List.not_mem_nil, false_or, Array.mem_toList_iff,
    coll_iff wf hr hdr hf one true rfl, resv_cell_iff wf hr hdr hf one true nameBlk rfl]
  constructor
  · rintro ⟨h1, h2, h3⟩
    refine ⟨h1, h2, ?_⟩
    rw [isNE_kind, ← kind_final wf hr hdr hf one true nameBlk (coll_seen wf hr hdr hf one true h1),
      ← isNE_kind]
    exact h3
  · rintro ⟨h1, h2, h3⟩
    refine ⟨h1, h2, ?_⟩
    rw [isNE_kind, kind_final wf hr hdr hf one true nameBlk (coll_seen wf hr hdr hf one true h1),
      ← isNE_kind]
    exact h3

omit wf hr hdr hf in
theorem pruneC_cleared_nodup :
    (findMinimalTranslation fuel h0 root one true nameBlk nu eu).cleared.Nodup := by
  rw [fmt_cleared]
  exact nodup_reverse_of (freeLoop_ok _ _ _ _ ⟨List.nodup_nil, by simp, List.nodup_nil, by simp⟩).2.2.1

/-- the `used` field of the NIL node stays set iff it was set and every NIL cell reachable from
the old root is still reachable from the new root -/
theorem pruneC_nil_used :
    (findMinimalTranslation fuel h0 root one true nameBlk nu eu).nilUsed = true ↔
      nu = true ∧ ∀ q, isNilCell h0 q = true → Reach h0 root q →
        Reach (findMinimalTranslation fuel h0 root one true nameBlk nu eu).heap
          (findMinimalTranslation fuel h0 root one true nameBlk nu eu).root q := by
  have hcl := pruneC_cleared wf hr hdr hf one nameBlk nu eu
  have hdef : (findMinimalTranslation fuel h0 root one true nameBlk nu eu).nilUsed =
      (nu && !(freeSt fuel h0 root one nameBlk).cleared.any
        (isNilCell (pass2 fuel h0 root one true nameBlk).heap)) := rfl
  rw [hdef]
  simp only [Bool.and_eq_true, Bool.not_eq_true', List.any_eq_false]
  have hmem : ∀ q, q ∈ (freeSt fuel h0 root one nameBlk).cleared ↔
      q ∈ (findMinimalTranslation fuel h0 root one true nameBlk nu eu).cleared := by
    intro q; rw [fmt_cleared, List.mem_reverse]
  constructor
  · rintro ⟨h1, h2⟩
    refine ⟨h1, fun q hq hr' => ?_⟩
    apply Classical.byContradiction
    intro hn
    have hqc := (hcl q).2 ⟨hr', hn, by simp [isNE, hq]⟩
    have := h2 q ((hmem q).2 hqc)
    rw [isNilCell_kind, kind_final wf hr hdr hf one true nameBlk (coll_seen wf hr hdr hf one true hr'),
      ← isNilCell_kind] at this
    exact this hq
  · rintro ⟨h1, h2⟩
    refine ⟨h1, fun q hq hnil => ?_⟩
    obtain ⟨c1, c2, c3⟩ := (hcl q).1 ((hmem q).1 hq)
    rw [isNilCell_kind, kind_final wf hr hdr hf one true nameBlk (coll_seen wf hr hdr hf one true c1),
      ← isNilCell_kind] at hnil
    exact c2 (h2 q hnil c1)

/-- the same for the ERROR node -/
theorem pruneC_err_used :
    (findMinimalTranslation fuel h0 root one true nameBlk nu eu).errUsed = true ↔
      eu = true ∧ ∀ q, isErrCell h0 q = true → Reach h0 root q →
        Reach (findMinimalTranslation fuel h0 root one true nameBlk nu eu).heap
          (findMinimalTranslation fuel h0 root one true nameBlk nu eu).root q := by
  have hcl := pruneC_cleared wf hr hdr hf one nameBlk nu eu
  have hdef : (findMinimalTranslation fuel h0 root one true nameBlk nu eu).errUsed =
      (eu && !(freeSt fuel h0 root one nameBlk).cleared.any
        (isErrCell (pass2 fuel h0 root one true nameBlk).heap)) := rfl
  rw [hdef]
  simp only [Bool.and_eq_true, Bool.not_eq_true', List.any_eq_false]
  have hmem : ∀ q, q ∈ (freeSt fuel h0 root one nameBlk).cleared ↔
      q ∈ (findMinimalTranslation fuel h0 root one true nameBlk nu eu).cleared := by
    intro q; rw [fmt_cleared, List.mem_reverse]
  constructor
  · rintro ⟨h1, h2⟩
    refine ⟨h1, fun q hq hr' => ?_⟩
    apply Classical.byContradiction
    intro hn
    have hqc := (hcl q).2 ⟨hr', hn, by simp [isNE, hq]⟩
    have := h2 q ((hmem q).2 hqc)
    rw [isErrCell_kind, kind_final wf hr hdr hf one true nameBlk (coll_seen wf hr hdr hf one true hr'),
      ← isErrCell_kind] at this
    exact this hq
  · rintro ⟨h1, h2⟩
    refine ⟨h1, fun q hq hnil => ?_⟩
    obtain ⟨c1, c2, c3⟩ := (hcl q).1 ((hmem q).1 hq)
    rw [isErrCell_kind, kind_final wf hr hdr hf one true nameBlk (coll_seen wf hr hdr hf one true c1),
      ← isErrCell_kind] at hnil
    exact c2 (h2 q hnil c1)

end

/-! ## the unfolding used above is the one of the exported node table -/

/-- `unfoldC` of the input heap is `MP.exportTable` (what the harness prints, `export_node`)
followed by `unfoldAt` (`Spec/Forest.lean`) -/
theorem pruneC_unfold_is_export {h0 : Array Cell} {rk hd : Nat → Nat} (wf : WfHeap h0 rk hd)
    {root : Nat} (hr : root < h0.size) {tab : Array NodeRec} {r : Nat}
    (hx : MP.exportTable (toHeap h0) root = some (tab, r)) :
    unfoldAt tab r = unfoldC h0 h0.size root :=
  unfoldC_eq_export wf hr hx

/-- `pruneC_denote` with the input forest taken from the exported table -/
theorem pruneC_denote_export {h0 : Array Cell} {rk hd : Nat → Nat} (wf : WfHeap h0 rk hd)
    {root fuel : Nat} (hr : root < h0.size) (hdr : hd root = root) (hf : h0.size ≤ fuel)
    (one free : Bool) (nameBlk : Nat → Nat) (nu eu : Bool) {tab : Array NodeRec} {r : Nat}
    (hx : MP.exportTable (toHeap h0) root = some (tab, r)) (t : Tree) :
    t ∈ denote (unfoldC (findMinimalTranslation fuel h0 root one free nameBlk nu eu).heap
            h0.size (findMinimalTranslation fuel h0 root one free nameBlk nu eu).root) ↔
      t ∈ denote (prune (!one) (unfoldAt tab r)).1 := by
  rw [unfoldC_eq_export wf hr hx]
  exact (pruneC_denote wf hr hdr hf one free nameBlk nu eu h0.size (Nat.le_refl _)).1 t

/-- the same for the final heap (which is not a `WfHeap`: the freed cells keep their flags):
what the harness prints for the result of `find_minimal_translation` unfolds to `unfoldC` of
the final heap at the new root -/
theorem pruneC_final_unfold_is_export {h0 : Array Cell} {rk hd : Nat → Nat} (wf : WfHeap h0 rk hd)
    {root fuel : Nat} (hr : root < h0.size) (hdr : hd root = root) (hf : h0.size ≤ fuel)
    (one free : Bool) (nameBlk : Nat → Nat) (nu eu : Bool) {tab : Array NodeRec} {r : Nat}
    (hx : MP.exportTable (toHeap (findMinimalTranslation fuel h0 root one free nameBlk nu eu).heap)
      (findMinimalTranslation fuel h0 root one free nameBlk nu eu).root = some (tab, r)) :
    unfoldAt tab r = unfoldC (findMinimalTranslation fuel h0 root one free nameBlk nu eu).heap
      h0.size (findMinimalTranslation fuel h0 root one free nameBlk nu eu).root :=
  fmt_final_export wf hr hdr hf one free nameBlk nu eu (Nat.le_refl _) hx

/-- **`pruneC_denote` on the exported tables**: `tabI`, `rI` what the harness would print for the
tree `make_parse` built, `tabO`, `rO` what it prints for the tree `find_minimal_translation`
returns.  The trees the output table denotes (`denoteTab`, the function the judge uses) are the
trees of `prune` applied to the unfolded input table; the same list for one parse. -/
theorem pruneC_denote_tables {h0 : Array Cell} {rk hd : Nat → Nat} (wf : WfHeap h0 rk hd)
    {root fuel : Nat} (hr : root < h0.size) (hdr : hd root = root) (hf : h0.size ≤ fuel)
    (one free : Bool) (nameBlk : Nat → Nat) (nu eu : Bool)
    {tabI tabO : Array NodeRec} {rI rO : Nat}
    (hi : MP.exportTable (toHeap h0) root = some (tabI, rI))
    (ho : MP.exportTable (toHeap (findMinimalTranslation fuel h0 root one free nameBlk nu eu).heap)
      (findMinimalTranslation fuel h0 root one free nameBlk nu eu).root = some (tabO, rO)) :
    (∀ t, t ∈ (denoteTab tabO).getD rO [] ↔ t ∈ denote (prune (!one) (unfoldAt tabI rI)).1) ∧
    (one = true → (denoteTab tabO).getD rO [] = denote (prune (!one) (unfoldAt tabI rI)).1) := by
  obtain ⟨w1, w2⟩ := MP.exportTable_wf ho
  rw [denoteTab_getD_unfold w1 rO w2 (rO + 1) (Nat.lt_succ_self _)]
  have e1 : unfold tabO (rO + 1) rO = unfoldAt tabO rO := rfl
  rw [e1, pruneC_final_unfold_is_export wf hr hdr hf one free nameBlk nu eu ho,
    unfoldC_eq_export wf hr hi]
  exact pruneC_denote wf hr hdr hf one free nameBlk nu eu h0.size (Nat.le_refl _)

/-! ## the memo table -/

/-- **`alt_prune_tab` is sound**: what is memoised for the chain with head `a` — the cell to
put in place of the chain and its cost — is what `prune_to_minimal` returns for `a` on the
untouched input heap (and, by `pruneToMinimal_spec`, what every later call for `a` must return:
the specified `res0 a`, `cost0 a`).  This is why a chain shared by several parents may be pruned
once and looked up afterwards, although its cells have been relinked in between. -/
theorem pruneC_memo_sound {h0 : Array Cell} {rk hd : Nat → Nat} (wf : WfHeap h0 rk hd)
    {root fuel fuel' : Nat} (hr : root < h0.size) (hdr : hd root = root) (hf : h0.size ≤ fuel)
    (hf' : h0.size ≤ fuel') (one free : Bool) (nameBlk : Nat → Nat) (nu eu : Bool)
    {a : Nat} {e : AltRes}
    (hm : memoFind (findMinimalTranslation fuel h0 root one free nameBlk nu eu).memo a = some e) :
    a < h0.size ∧ isAlt h0 a = true ∧
    (pruneToMinimal one free fuel' { heap := h0 } a).2 = (e.result, e.cost) ∧
    e.cost = ((prune (!one) (unfoldC h0 h0.size a)).2 : Int) := by
  obtain ⟨p1, -⟩ := pass1_facts wf hr hdr hf one free
  obtain ⟨m1, m2, m3, m4, m5⟩ := p1.memo a e hm
  obtain ⟨r1, r2, r3, -⟩ := prune_top (one := one) (free := free) wf (fuel := fuel') m1 m3
    (by have := wf.rk_lt a m1; omega)
  refine ⟨m1, m2, ?_, by rw [m5, ← U_eq_unfoldC wf m1]; rfl⟩
  rw [m4, m5, ← r2, ← r3]

/-- every call of `prune_to_minimal` in a state the function itself can reach (`Inv`) returns the
specified cell and cost, whatever has been visited, memoised and relinked before — in
particular a second visit of a shared abstract node returns its cost, not a stale one -/
theorem pruneC_call_deterministic {h0 : Array Cell} {rk hd : Nat → Nat} (wf : WfHeap h0 rk hd)
    (one free : Bool) (fuel : Nat) (s : PSt) (k : Nat) (hk : k < h0.size) (hdk : hd k = k)
    (hf : rk k < fuel) (hs : Inv h0 rk hd one free (fun _ => False) s) :
    (pruneToMinimal one free fuel s k).2 = (res0 h0 rk one k, (cost0 h0 rk one k : Int)) ∧
    Inv h0 rk hd one free (fun _ => False) (pruneToMinimal one free fuel s k).1 := by
  obtain ⟨r1, r2, r3, -⟩ := pruneToMinimal_spec (one := one) (free := free) wf fuel
    (fun _ => False) s k hf hk hdk (fun _ h => h.elim) hs
  exact ⟨by rw [← r2, ← r3], r1⟩

/-- without `parse_free` nothing is freed and no flag is touched -/
theorem pruneC_no_free (fuel : Nat) (h0 : Array Cell) (root : Nat) (one : Bool) (nameBlk : Nat → Nat)
    (nu eu : Bool) :
    (findMinimalTranslation fuel h0 root one false nameBlk nu eu).frees = [] ∧
    (findMinimalTranslation fuel h0 root one false nameBlk nu eu).cleared = [] ∧
    (findMinimalTranslation fuel h0 root one false nameBlk nu eu).nilUsed = nu ∧
    (findMinimalTranslation fuel h0 root one false nameBlk nu eu).errUsed = eu := by
  simp [findMinimalTranslation]

/-! ## non-vacuity: a concrete heap -/

namespace Ex

/-- shared abstract node (5: child of 11 and alternative of the chain 3), shared chain
(3 → 4 → 9: child of 2 and of 11), a tie (x and z cost 1, y costs 2), nested under `top` -/
def H : Array Cell := #[
  .nil, .err,
  .anode "top" 5 #[some 3, some 8, none],
  .alt 5 (some 4), .alt 6 (some 9),
  .anode "x" 1 #[some 10, none], .anode "y" 2 #[some 10, none], .anode "z" 1 #[some 10, none],
  .anode "w" 3 #[some 0, none],
  .alt 7 none,
  .term 97 0,
  .anode "root" 0 #[some 2, some 3, some 5, none]]

def rk (i : Nat) : Nat := #[0, 0, 5, 4, 3, 1, 1, 1, 1, 2, 0, 6].getD i 0
def hd (i : Nat) : Nat := #[0, 1, 2, 3, 3, 5, 6, 7, 8, 3, 10, 11].getD i i

/-- the heap is well formed -/
theorem wf : WfHeap H rk hd := wfHeapB_sound (by decide)

-- the computed witnesses are these
set_option maxRecDepth 8000 in
example : wfAuto H = true := by decide
example : autoRank H = #[0, 0, 5, 4, 3, 1, 1, 1, 1, 2, 0, 6] := by decide
set_option maxRecDepth 8000 in
example : autoHead H = #[0, 1, 2, 3, 3, 5, 6, 7, 8, 3, 10, 11] := by decide

/-- a heap with a cycle, a chain entered in the middle, a nested ALT or a negative cost is
rejected -/
example : wfAuto #[.anode "a" 0 #[some 0, none]] = false := by decide
example : wfAuto #[.term 1 1, .alt 0 (some 2), .alt 0 none, .anode "a" 0 #[some 2, none]] = false := by
  decide
example : wfAuto #[.term 1 1, .alt 0 none, .alt 1 none] = false := by decide
example : wfAuto #[.anode "a" (-1) #[none]] = false := by decide

def R1 : Result := findMinimalTranslation 12 H 11 false true id
def R2 : Result := findMinimalTranslation 12 H 11 true true id

/-- what the model computes (tests by evaluation) -/
example : R1.heap = #[
    .nil, .err,
    .anode "top" 9 #[some 9, some 8, none],
    .alt 5 none, .alt 6 (some 9),
    .anode "x" 1 #[some 10, none], .anode "y" (-3) #[some 10, none], .anode "z" 1 #[some 10, none],
    .anode "w" 3 #[some 0, none],
    .alt 7 (some 3),
    .term 97 0,
    .anode "root" 11 #[some 2, some 9, some 5, none]] := by decide
example : R1.root = 11 ∧ R1.cost = 11 ∧ R1.oof = false := by decide
example : R1.frees = [.cell 4, .name 6, .cell 6] := by decide
example : R1.memo = [⟨3, 9, 1⟩] := by decide
example : R2.frees = [.cell 3, .cell 4, .name 6, .cell 6, .cell 9, .name 7, .cell 7] := by decide
example : R2.heap.getD 11 .nil = .anode "root" 11 #[some 2, some 5, some 5, none] := by decide

/-- the theorems applied to it -/
example : R1.oof = false := pruneC_fuel wf (by decide) rfl (by decide) false true id true true
example : ∀ t, t ∈ denote (unfoldC R1.heap 12 R1.root) ↔
    t ∈ denote (prune true (unfoldC H 12 11)).1 :=
  (pruneC_denote wf (by decide) rfl (by decide) false true id true true 12 (by decide)).1
example : ∀ t', t' ∈ denote (unfoldC R1.heap 12 R1.root) ↔
    ∃ t, IsMinCost (denote (unfoldC H 12 11)) t ∧ t' = t.accum :=
  pruneC_minimal_all wf (by decide) rfl (by decide) true id true true 12 (by decide)
example : ∃ t, IsMinCost (denote (unfoldC H 12 11)) t ∧
    denote (unfoldC R2.heap 12 R2.root) = [t.accum] :=
  pruneC_minimal_one wf (by decide) rfl (by decide) true id true true 12 (by decide)
/-- the input denotes 3 · 3 · 1 = 9 trees, the result the 2 · 2 = 4 of cost 11 -/
example : (denote (unfoldC H 12 11)).length = 9 := by decide
example : (denote (unfoldC R1.heap 12 R1.root)).length = 4 := by decide
example : (denote (unfoldC R2.heap 12 R2.root)).length = 1 := by decide
example : (prune true (unfoldC H 12 11)).2 = 11 := by decide
example : Mem.cell 6 ∈ R1.frees ↔ Reach H 11 6 ∧ ¬ Reach R1.heap R1.root 6 ∧ isNE H 6 = false :=
  pruneC_frees wf (by decide) rfl (by decide) false id true true 6
example : R1.frees.Nodup := pruneC_frees_nodup false id true true
example : Reach H 11 6 := .step (b := 3) (by decide) (.step (b := 4) (by decide) (.step (b := 6) (by decide) (.refl _)))
/-- cell 6 (`y`, cost 2) is freed, so it is unreachable in the result -/
example : ¬ Reach R1.heap R1.root 6 :=
  ((pruneC_frees wf (by decide) rfl (by decide) false id true true 6).1 (by decide)).2.1
/-- the additive law at `top`: 9 = 5 + (1 + 3) -/
example : (9 : Int) = 5 + ((kidsOf #[some 9, some 8, none]).map (costOf R1.heap)).sum := by decide
example : Reach R1.heap R1.root 2 := .step (b := 2) (by decide) (.refl _)
example : (0 : Int) ≤ 9 ∧ ∃ c0 ks0, cellAt H 2 = .anode "top" c0 ks0 ∧
    (9 : Int) = c0 + ((kidsOf #[some 9, some 8, none]).map (costOf R1.heap)).sum :=
  pruneC_costs_restored wf (by decide) rfl (by decide) false true id true true
    (z := 2) (.step (b := 2) (by decide) (.refl _)) (by decide)
example : (pruneToMinimal false true 12 { heap := H } 3).2 = (9, 1) :=
  (pruneC_memo_sound wf (root := 11) (fuel := 12) (fuel' := 12) (by decide) rfl (by decide) (by decide)
    false true id true true (a := 3) (e := ⟨3, 9, 1⟩) (by decide)).2.2.1
/-- the NIL cell stays in use (it is a child of `w`), the ERROR cell was never reachable -/
example : R1.nilUsed = true ∧ R1.errUsed = true ∧ R1.cleared = [] := by decide

end Ex

/-! ## non-vacuity: a heap built by the model of `make_parse`

`S : 'c' T # u(1) | 'c' T # v(1)`, `T : A B # t(0 1)`, `A : 'a' # x | 'a' 'a' # y`,
`B : 'a' 'a' # w | 'a' # z` on `c a a a` (the grammar of `D9b`) with the costs
`u` 1, `v` 0, `t` 1, `x` 2, `y` 1, `w` 1, `z` 3. -/
namespace ExMP

def g : Grammar := { D9b.g with rules := [
  { lhs := 1, rhs := [.n 0, .t 3], transLen := 1, order := [some 0, none] },
  { lhs := 0, rhs := [.t 1, .n 2], anode := some "u", cost := 1, transLen := 1, order := [none, some 0] },
  { lhs := 0, rhs := [.t 1, .n 2], anode := some "v", cost := 0, transLen := 1, order := [none, some 0] },
  { lhs := 2, rhs := [.n 3, .n 4], anode := some "t", cost := 1, transLen := 2, order := [some 0, some 1] },
  { lhs := 3, rhs := [.t 0], anode := some "x", cost := 2, order := [none] },
  { lhs := 3, rhs := [.t 0, .t 0], anode := some "y", cost := 1, order := [none, none] },
  { lhs := 4, rhs := [.t 0, .t 0], anode := some "w", cost := 1, order := [none, none] },
  { lhs := 4, rhs := [.t 0], anode := some "z", cost := 3, order := [none] },
  { lhs := 1, rhs := [.t 2, .t 3], order := [none, none] } ] }

/-- the tree memory `make_parse` (model) leaves behind: cell 7 (`t`) is shared by `v` and by
the chain 10 → 11 below `u` -/
def H : Array Cell := #[
  .nil, .err, .anode "$result" 0 #[some 5],
  .anode "v" 0 #[some 7, none], .anode "u" 1 #[some 10, none], .alt 4 (some 6), .alt 3 none,
  .anode "t" 1 #[some 14, some 8, none], .anode "w" 1 #[none],
  .anode "t" 1 #[some 13, some 12, none], .alt 9 (some 11), .alt 7 none,
  .anode "z" 3 #[none], .anode "y" 1 #[none], .anode "x" 2 #[none]]

theorem H_is_make_parse_list :
    (MP.makeParseSt (MP.mkCtx g D9b.sets D9b.plToks false) 100).map
      (fun s => (s.heap.toList.map ofMNode, s.result)) = some (H.toList, some 5) := by
  rfl

theorem H_is_make_parse :
    ∃ s, MP.makeParseSt (MP.mkCtx g D9b.sets D9b.plToks false) 100 = some s ∧
      ofHeap s.heap = H ∧ s.result = some 5 := by
  have h := H_is_make_parse_list
  cases hs : MP.makeParseSt (MP.mkCtx g D9b.sets D9b.plToks false) 100 with
  | none => rw [hs] at h; cases h
  | some s =>
    rw [hs] at h
    simp only [Option.map_some, Option.some.injEq, Prod.mk.injEq] at h
    refine ⟨s, rfl, ?_, h.2⟩
    apply Array.toList_inj.1
    rw [← h.1]
    simp [ofHeap]

set_option maxRecDepth 8000 in
theorem wf : WfHeap H (fun i => (autoRank H).getD i 0) (fun i => (autoHead H).getD i i) :=
  wfAuto_sound (by decide)

def R : Result := findMinimalTranslation 15 H 5 false true id

example : R.root = 3 ∧ R.cost = 4 ∧ R.oof = false := by decide
example : denote (unfoldC H 15 5) =
    [.anode "u" 1 [.anode "t" 1 [.anode "y" 1 [], .anode "z" 3 []]],
     .anode "u" 1 [.anode "t" 1 [.anode "x" 2 [], .anode "w" 1 []]],
     .anode "v" 0 [.anode "t" 1 [.anode "x" 2 [], .anode "w" 1 []]]] := by rfl
example : denote (unfoldC R.heap 15 R.root) =
    [.anode "v" 4 [.anode "t" 4 [.anode "x" 2 [], .anode "w" 1 []]]] := by rfl
example : R.frees = [.cell 5, .name 4, .cell 4, .cell 10, .name 9, .cell 9, .name 13, .cell 13,
    .name 12, .cell 12, .cell 11, .cell 6] := by decide

set_option maxRecDepth 8000 in
example : ∀ t', t' ∈ denote (unfoldC R.heap 15 R.root) ↔
    ∃ t, IsMinCost (denote (unfoldC H 15 5)) t ∧ t' = t.accum :=
  pruneC_minimal_all wf (by decide) (by decide) (by decide) true id true true 15 (by decide)

/-- the same heap as `make_parse` leaves it (`MP.MNode` cells), and what the harness exports -/
def HM : Array MP.MNode := #[
  .nil, .err, .anode "$result" 0 #[some 5],
  .anode "v" 0 #[some 7, none], .anode "u" 1 #[some 10, none], .alt 4 (some 6), .alt 3 none,
  .anode "t" 1 #[some 14, some 8, none], .anode "w" 1 #[none],
  .anode "t" 1 #[some 13, some 12, none], .alt 9 (some 11), .alt 7 none,
  .anode "z" 3 #[none], .anode "y" 1 #[none], .anode "x" 2 #[none]]

def tab : Array NodeRec := #[.anode "y" 1 [], .anode "z" 3 [], .anode "t" 1 [0, 1],
  .anode "x" 2 [], .anode "w" 1 [], .anode "t" 1 [3, 4], .alt [2, 5],
  .anode "u" 1 [6], .anode "v" 0 [5], .alt [7, 8]]

theorem toHeap_H : toHeap H = HM := by
  apply Array.toList_inj.1
  simp [toHeap, H, HM, toMNode]

theorem export_H : MP.exportTable (toHeap H) 5 = some (tab, 9) := by
  rw [toHeap_H]; rfl

example : unfoldAt tab 9 = unfoldC H 15 5 := pruneC_unfold_is_export wf (by decide) export_H
set_option maxRecDepth 8000 in
example : ∀ t, t ∈ denote (unfoldC R.heap 15 R.root) ↔ t ∈ denote (prune true (unfoldAt tab 9)).1 :=
  pruneC_denote_export wf (by decide) (by decide) (by decide) false true id true true export_H

/-- what the harness exports for the pruned tree: `v(t(x w))` with the accumulated costs -/
def tabO : Array NodeRec := #[.anode "x" 2 [], .anode "w" 1 [], .anode "t" 4 [0, 1], .anode "v" 4 [2]]

def RM : Array MP.MNode := #[
  .nil, .err, .anode "$result" 0 #[some 5],
  .anode "v" 4 #[some 7, none], .anode "u" 0 #[some 7, none], .alt 4 none, .alt 3 none,
  .anode "t" 4 #[some 14, some 8, none], .anode "w" 1 #[none],
  .anode "t" 0 #[some 13, some 12, none], .alt 9 none, .alt 7 none,
  .anode "z" 0 #[none], .anode "y" 0 #[none], .anode "x" 2 #[none]]

theorem toHeap_R : toHeap R.heap = RM := by
  apply Array.toList_inj.1
  have : R.heap = #[
      .nil, .err, .anode "$result" 0 #[some 5],
      .anode "v" 4 #[some 7, none], .anode "u" (-6) #[some 7, none], .alt 4 none, .alt 3 none,
      .anode "t" 4 #[some 14, some 8, none], .anode "w" 1 #[none],
      .anode "t" (-6) #[some 13, some 12, none], .alt 9 none, .alt 7 none,
      .anode "z" (-4) #[none], .anode "y" (-2) #[none], .anode "x" 2 #[none]] := by decide
  rw [this]
  simp [toHeap, RM, toMNode]

theorem export_R : MP.exportTable (toHeap R.heap) R.root = some (tabO, 3) := by
  rw [toHeap_R, show R.root = 3 by decide]; rfl

set_option maxRecDepth 8000 in
example : ∀ t, t ∈ (denoteTab tabO).getD 3 [] ↔ t ∈ denote (prune true (unfoldAt tab 9)).1 :=
  (pruneC_denote_tables wf (by decide) (by decide) (by decide) false true id true true export_H
    export_R).1

end ExMP

/-! ## tests: the three historic defects are caught

The variants (`Lemmas/PruneCHistoric.lean`) differ from the model in one place each.  On the
heap below — an abstract node `m` shared twice by `A`, a chain `A | B` — each of them
violates the statement of one of the theorems above; the model itself does not. -/
namespace HistoricTest
open Historic

def H : Array Cell := #[
  .nil, .err, .term 97 0,
  .anode "m" 3 #[some 2, none],
  .anode "big" 10 #[some 2, none],
  .anode "A" 1 #[some 3, some 4, some 3, none],      -- 1 + 3 + 10 + 3 = 17
  .anode "B" 20 #[some 10, some 10, none],           -- 20
  .alt 5 (some 8), .alt 6 none,
  .anode "root" 0 #[some 7, none],
  .term 98 1]

def nameBlk (i : Nat) : Nat := if i == 6 then 100 else i

set_option maxRecDepth 8000 in
theorem wf : WfHeap H (fun i => (autoRank H).getD i 0) (fun i => (autoHead H).getD i i) :=
  wfAuto_sound (by decide)

def treeA : Tree :=
  .anode "root" 17 [.anode "A" 17 [.anode "m" 3 [.term 97 0], .anode "big" 10 [.term 97 0],
    .anode "m" 3 [.term 97 0]]]
def treeB : Tree := .anode "root" 20 [.anode "B" 20 [.term 98 1, .term 98 1]]

/-- what `prune` says, and what the model does -/
example : denote (prune true (unfoldC H 11 9)).1 = [treeA] := by rfl
example : denote (unfoldC (findMinimalTranslation 11 H 9 false true nameBlk).heap 11 9) = [treeA] := by rfl
example : (fmtV false false false 11 H 9 false nameBlk).heap =
    (findMinimalTranslation 11 H 9 false true nameBlk).heap ∧
    (fmtV false false false 11 H 9 false nameBlk).frees =
      (findMinimalTranslation 11 H 9 false true nameBlk).frees := by decide
example : (findMinimalTranslation 11 H 9 false true nameBlk).frees =
    [.cell 7, .cell 8, .name 100, .cell 6, .cell 10] := by decide

/-- **V1** (a visited shared node leaves `*cost` stale): `A` is costed 1 + 3 + 10 + 10 = 24, the
chain keeps `B`: the conclusion of `pruneC_denote` fails -/
theorem v1_result : denote (unfoldC (fmtV true false false 11 H 9 false nameBlk).heap 11
    (fmtV true false false 11 H 9 false nameBlk).root) = [treeB] := by rfl
theorem v1_violates_pruneC_denote :
    ¬ ∀ t, t ∈ denote (unfoldC (fmtV true false false 11 H 9 false nameBlk).heap 11
          (fmtV true false false 11 H 9 false nameBlk).root) ↔
        t ∈ denote (prune true (unfoldC H 11 9)).1 := by
  intro h
  have := (h treeB).1 (by rw [v1_result]; simp)
  rw [show denote (prune true (unfoldC H 11 9)).1 = [treeA] from rfl] at this
  simp [treeA, treeB] at this

/-- **V2** (the restore pass negates a shared node again): `m`, reachable from the root, ends
with the cost field -4: the conclusion of `pruneC_costs_restored` fails -/
theorem v2_violates_pruneC_costs_restored :
    Reach (fmtV false true false 11 H 9 false nameBlk).heap
      (fmtV false true false 11 H 9 false nameBlk).root 3 ∧
    cellAt (fmtV false true false 11 H 9 false nameBlk).heap 3 = .anode "m" (-4) #[some 2, none] :=
  ⟨.step (b := 5) (by decide) (.step (b := 3) (by decide) (.refl _)), by decide⟩

/-- **V3** (the loop does not record what it frees): the TERM cell 10, twice in `tnodes_vlo`, is
freed twice: the conclusion of `pruneC_frees_nodup` fails -/
theorem v3_violates_pruneC_frees_nodup :
    (fmtV false false true 11 H 9 false nameBlk).frees =
      [.cell 7, .cell 8, .name 100, .cell 6, .cell 10, .cell 10] ∧
    ¬ (fmtV false false true 11 H 9 false nameBlk).frees.Nodup := by
  decide

end HistoricTest

/-! ## test: the historic input, end to end against the library

`E : E '+' E # p 1 (0 2) | E '*' E # m 3 (0 2) | 'a' # 0` on `a*a+a*a`, cost flag set.  `sets` /
`plToks` are the parse list the library's hook dumped (`set` and `pltoks` lines of the harness
`yh`, C build of /repo); `implAll`, `implOne` are the `node` / `root` lines the harness printed
for the tree the library returned (all parses: the 5 translations, all of cost 7; one parse:
the first of them).  The model of `make_parse`, then this model of
`find_minimal_translation`, then the model of the harness's export reproduce them line by
line, and the number of `parse_free` calls (16 = 14 cells + the unused NIL and ERROR node).
(The same comparison over 1080 random cost-flag parses is described in `REPORT-L2.md`.) -/
namespace HistoricInput

def g : Grammar :=
  { rules := [
      { lhs := 1, rhs := [.n 0, .t 4], transLen := 1, order := [some 0, none] },
      { lhs := 0, rhs := [.n 0, .t 1, .n 0], anode := some "p", cost := 1, transLen := 2,
        order := [some 0, none, some 1] },
      { lhs := 0, rhs := [.n 0, .t 2, .n 0], anode := some "m", cost := 3, transLen := 2,
        order := [some 0, none, some 1] },
      { lhs := 0, rhs := [.t 0], transLen := 1, order := [some 0] },
      { lhs := 1, rhs := [.t 3, .t 4], order := [none, none] } ],
    termNames := ["a", "+", "*", "error", "$eof"], termCodes := [97, 43, 42, -2, -1],
    ntNames := ["E", "$S"], errT := 3, eofT := 4, axiomN := 1, startN := 0 }

def sets : Array (Array Item) := #[
  #[⟨4,0,0⟩, ⟨0,0,0⟩, ⟨3,0,0⟩, ⟨2,0,0⟩, ⟨1,0,0⟩],
  #[⟨3,1,0⟩, ⟨2,1,0⟩],
  #[⟨2,2,0⟩, ⟨3,0,2⟩, ⟨2,0,2⟩, ⟨1,0,2⟩],
  #[⟨3,1,2⟩, ⟨2,3,0⟩, ⟨1,1,2⟩, ⟨1,1,0⟩],
  #[⟨1,2,2⟩, ⟨1,2,0⟩, ⟨3,0,4⟩, ⟨2,0,4⟩, ⟨1,0,4⟩],
  #[⟨3,1,4⟩, ⟨1,3,2⟩, ⟨1,3,0⟩, ⟨2,1,4⟩, ⟨2,3,0⟩, ⟨2,1,2⟩, ⟨2,1,0⟩],
  #[⟨2,2,4⟩, ⟨2,2,2⟩, ⟨2,2,0⟩, ⟨3,0,6⟩, ⟨2,0,6⟩, ⟨1,0,6⟩],
  #[⟨3,1,6⟩, ⟨2,3,4⟩, ⟨2,3,2⟩, ⟨2,3,0⟩, ⟨1,3,2⟩, ⟨1,3,0⟩, ⟨0,1,0⟩],
  #[⟨0,2,0⟩]]

def plToks : Array Int := #[-1, 0, 1, 2, 3, 4, 5, 6, 7]

/-- name block of a cell: one per rule, here one per name -/
def nameBlk (h : Array Cell) (i : Nat) : Nat :=
  match cellAt h i with
  | .anode "p" _ _ => 1
  | .anode "m" _ _ => 2
  | _ => 0

/-- `make_parse` with the cost flag: all parses are built, then pruned; the exported lines and
the number of `parse_free` calls -/
def run (one : Bool) : List String × Nat :=
  match MP.makeParseSt (MP.mkCtx g sets plToks false) 1000 with
  | some s =>
    match s.result with
    | some r =>
      let h := ofHeap s.heap
      let R := findMinimalTranslation (h.size + 1) h r one true (nameBlk h) s.nilUsed s.errUsed
      match MP.exportTable (toHeap R.heap) R.root with
      | some (tab, rt) =>
        (MP.renderTable tab rt,
          R.frees.length + (if R.nilUsed then 0 else 1) + (if R.errUsed then 0 else 1))
      | none => ([], 0)
    | none => ([], 0)
  | none => ([], 0)

def implAll : List String := [
  "node 0 term 97 0", "node 1 term 97 2", "node 2 anode m 3 0 1", "node 3 term 97 4",
  "node 4 anode p 4 2 3", "node 5 anode p 1 1 3", "node 6 anode m 4 0 5", "node 7 alt 4 6",
  "node 8 term 97 6", "node 9 anode m 7 7 8", "node 10 anode m 3 3 8", "node 11 anode p 7 2 10",
  "node 12 anode m 4 5 8", "node 13 anode p 4 1 10", "node 14 alt 12 13", "node 15 anode m 7 0 14",
  "node 16 alt 9 11 15", "root 16"]

def implOne : List String := [
  "node 0 term 97 0", "node 1 term 97 2", "node 2 term 97 4", "node 3 term 97 6",
  "node 4 anode m 3 2 3", "node 5 anode p 4 1 4", "node 6 anode m 7 0 5", "root 6"]

#guard run false == (implAll, 2)
#guard run true == (implOne, 16)

/-- the heap `make_parse` builds for this input is well formed -/
def heap : Array Cell :=
  match MP.makeParseSt (MP.mkCtx g sets plToks false) 1000 with
  | some s => ofHeap s.heap
  | none => #[]
#guard heap.size == 24 && wfAuto heap

end HistoricInput

/-! ## test: the heaps of the `make_parse` examples of `Props/MakeParse.lean` are well formed -/

def wfMakeParse (g : Grammar) (sets : Array (Array Item)) (plToks : Array Int) (one : Bool) : Bool :=
  match MP.makeParseSt (MP.mkCtx g sets plToks one) 1000 with
  | some s =>
    match s.result with
    | some r =>
      wfAuto (ofHeap s.heap) && (autoHead (ofHeap s.heap)).getD r r == r && decide (r < s.heap.size)
    | none => false
  | none => false

#guard wfMakeParse D9a.g D9a.sets D9a.plToks false && wfMakeParse D9a.g D9a.sets D9a.plToks true
#guard wfMakeParse D9b.g D9b.sets D9b.plToks false && wfMakeParse D9b.g D9b.sets D9b.plToks true
#guard wfMakeParse Rec.g Rec.sets Rec.plToks false && wfMakeParse Rec.g Rec.sets Rec.plToks true

end Yaep.PC
