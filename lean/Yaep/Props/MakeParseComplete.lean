import Yaep.Lemmas.CompleteFinal
import Yaep.Props.MakeParseSound
import Yaep.Props.MakeParseTotal
/-!
# The complete half of C03 for runs of `make_parse` without hook events

`MP.makeParse` (`Yaep/Model/MakeParse.lean`) is the step-for-step model of the C function
`make_parse`; it counts the two events of the instrumented C code: `reuse` (an abstract node that
was already built is attached to a second parent, finding D9b) and `origins` (an untranslated
symbol has candidates of several origins, finding D9a).  In general the all-parses forest misses
translations (`makeParse_forest_incomplete`).  Here:

**a run that counts neither event returns a forest that denotes the translation of EVERY
derivation of the input** (`makeParse_all_complete_eventfree`); with `makeParse_all_sound` the
denoted set EQUALS the set of the translations of all derivations
(`makeParse_all_eventfree_eq`), for every accepted grammar (`accepted_makeParse_all_complete`).

The abstract version `CP.makeParse_all_complete_ctx` (`Yaep/Lemmas/CompleteFinal.lean`) holds for
any parse list whose sets are exactly the items of the Earley relation `EarleyF` for a lookahead
filter that keeps the items of derivations (`OkDer`), in any order and multiplicity.
-/
namespace Yaep

/-- **`make_parse`, all parses, is complete for a run without events.**  `plSets g la w` is the
parse list of `BS.buildPLC` (situations in the order of the C set cores), any lookahead level. -/
theorem makeParse_all_complete_eventfree {g : Grammar} {la : Nat} {w : List Nat} {fuel : Nat}
    {res : MP.Result} {pt : PT} (hwf : g.WF) (hg : g.mpWF = true) (hsr : g.symsInRange = true)
    (htok : g.errT ∉ w) (hacc : (BS.buildPLC g la w).1 = none)
    (hm : MP.makeParse g (plSets g la w) (plTokNums w) false fuel = .ok res)
    (hev : res.reuse = 0 ∧ res.origins = 0) (hpt : PT.IsDerivation g (w ++ [g.eofT]) pt) :
    translate g pt ∈ (denoteTab res.tab).getD res.root [] :=
  CP.makeParse_all_complete_ctx (MP.ctxAllc_plSets hacc) (MP.grOK_of_mpWF hg) hsr
    (okDer_laFilter hsr la _) (rootUniq_of_wf hwf htok) hm hev hpt

/-- **C03 for a run without events**: the trees the returned table denotes are exactly the
translations of the derivations of the input — no denoted tree is spurious and no translation is
missing. -/
theorem makeParse_all_eventfree_eq {g : Grammar} {la : Nat} {w : List Nat} {fuel : Nat}
    {res : MP.Result} (hwf : g.WF) (hg : g.mpWF = true) (hsr : g.symsInRange = true)
    (htok : g.errT ∉ w) (hacc : (BS.buildPLC g la w).1 = none)
    (hm : MP.makeParse g (plSets g la w) (plTokNums w) false fuel = .ok res)
    (hev : res.reuse = 0 ∧ res.origins = 0) (t : Tree) :
    t ∈ (denoteTab res.tab).getD res.root [] ↔
      ∃ pt, PT.IsDerivation g (w ++ [g.eofT]) pt ∧ translate g pt = t := by
  constructor
  · exact (makeParse_all_sound hg hacc hm).1 t
  · rintro ⟨pt, hpt, rfl⟩
    exact makeParse_all_complete_eventfree hwf hg hsr htok hacc hm hev hpt

/-- … in the form the judge checks it (`missing` and `spurious` both empty) for a grammar without
cycles: the denoted trees are the members of the list of the translations of all derivations -/
theorem makeParse_all_eventfree_translations {g : Grammar} {la : Nat} {w : List Nat} {fuel : Nat}
    {res : MP.Result} (hwf : g.WF) (hg : g.mpWF = true) (hcyc : ¬ Cyclic g)
    (hsr : g.symsInRange = true) (htok : g.errT ∉ w) (hacc : (BS.buildPLC g la w).1 = none)
    (hm : MP.makeParse g (plSets g la w) (plTokNums w) false fuel = .ok res)
    (hev : res.reuse = 0 ∧ res.origins = 0) (t : Tree) :
    t ∈ (denoteTab res.tab).getD res.root [] ↔
      t ∈ (derivationsP g (w ++ [g.eofT])).map (translate g) := by
  rw [makeParse_all_eventfree_eq hwf hg hsr htok hacc hm hev t]
  exact (mem_translations_iff_acyclic hcyc hsr t).symm

/-- **for every accepted grammar, any run**: no hypothesis on the grammar is left.  For a grammar
the definition functions accept, tokens that are terminals of the user and an accepted input: if the
model of `make_parse` in all-parses mode returns a forest without having counted a *reuse* or an
*origins* event, the forest denotes exactly the translations of the derivations of `w $eof`. -/
theorem accepted_makeParse_all_eventfree {raw : RawGrammar} {g : Grammar} {la : Nat} {w : List Nat}
    {fuel : Nat} {res : MP.Result} (h : readGrammar raw = .ok g) (htok : UserTokens g w)
    (hacc : (BS.buildPLC g la w).1 = none)
    (hm : MP.makeParse g (plSets g la w) (plTokNums w) false fuel = .ok res)
    (hev : res.reuse = 0 ∧ res.origins = 0) (t : Tree) :
    (t ∈ (denoteTab res.tab).getD res.root [] ↔
      ∃ pt, PT.IsDerivation g (w ++ [g.eofT]) pt ∧ translate g pt = t) ∧
    (t ∈ (denoteTab res.tab).getD res.root [] ↔
      t ∈ (derivationsP g (w ++ [g.eofT])).map (translate g)) := by
  have he : g.errT ∉ w := fun hmem => (htok _ hmem).2 rfl
  exact ⟨makeParse_all_eventfree_eq (readGrammar_wf h) (readGrammar_mpWF h) (readGrammar_symsInRange h)
      he hacc hm hev t,
    makeParse_all_eventfree_translations (readGrammar_wf h) (readGrammar_mpWF h) (readGrammar_semOK h).1
      (readGrammar_symsInRange h) he hacc hm hev t⟩

/-- **for every accepted grammar, with the run**: for a sentence `w` (lookahead level 0 or 1) and
the explicit fuel the all-parses run ends with `.ok res`, and if it counted no event the forest
denotes exactly the translations of all derivations of `w $eof`. -/
theorem accepted_makeParse_all_complete {raw : RawGrammar} {g : Grammar} {la : Nat} {w : List Nat}
    {fuel : Nat} (h : readGrammar raw = .ok g) (htok : UserTokens g w) (hla : la ≤ 1)
    (hs : Sentence g w) (hfuel : MP.mpAllFuel g (w.length + 1) ≤ fuel) :
    ∃ res, MP.makeParse g (plSets g la w) (plTokNums w) false fuel = .ok res ∧
      (res.reuse = 0 ∧ res.origins = 0 → ∀ t,
        (t ∈ (denoteTab res.tab).getD res.root [] ↔
          ∃ pt, PT.IsDerivation g (w ++ [g.eofT]) pt ∧ translate g pt = t) ∧
        (t ∈ (denoteTab res.tab).getD res.root [] ↔
          t ∈ (derivationsP g (w ++ [g.eofT])).map (translate g))) := by
  obtain ⟨res, hm, _⟩ := accepted_makeParse_all h htok hla hs hfuel
  have hacc : (BS.buildPLC g la w).1 = none := by
    have := (BS.acceptsC_iff_sentence (readGrammar_wf h) (readGrammar_symsInRange h) htok hla).mpr hs
    unfold BS.acceptsC at this
    exact Option.isNone_iff_eq_none.mp this
  exact ⟨res, hm, fun hev t => accepted_makeParse_all_eventfree h htok hacc hm hev t⟩

/-! ## non-vacuity: an ambiguous grammar, a run without events, a forest with two trees

`S : A B # s(0 1)`, `A : 'a' # x | 'a' 'a' # y`, `B : 'a' 'a' # w | 'a' # z` on `a a a` (the
nonterminal `T` of D9b as start symbol): two derivations; the state for `S : A B .` meets two
candidates for `B` with different origins, so `copy_anode` makes a second `s` node; no abstract
node is requested twice and no untranslated symbol has two origins. -/
namespace CPEx

def raw : RawGrammar :=
  ⟨[("a", 97)],
   [⟨"S", ["A", "B"], some "s", 0, some [0, 1]⟩,
    ⟨"A", ["a"], some "x", 0, some []⟩,
    ⟨"A", ["a", "a"], some "y", 0, some []⟩,
    ⟨"B", ["a", "a"], some "w", 0, some []⟩,
    ⟨"B", ["a"], some "z", 0, some []⟩], false⟩

/-- terminals: `a` 0, `error` 1, `$eof` 2; nonterminals: `S` 0, `$S` 1, `A` 2, `B` 3 -/
def g : Grammar :=
  { rules := [
      { lhs := 1, rhs := [.n 0, .t 2], transLen := 1, order := [some 0, none] },
      { lhs := 0, rhs := [.n 2, .n 3], anode := some "s", transLen := 2, order := [some 0, some 1] },
      { lhs := 2, rhs := [.t 0], anode := some "x", order := [none] },
      { lhs := 2, rhs := [.t 0, .t 0], anode := some "y", order := [none, none] },
      { lhs := 3, rhs := [.t 0, .t 0], anode := some "w", order := [none, none] },
      { lhs := 3, rhs := [.t 0], anode := some "z", order := [none] },
      { lhs := 1, rhs := [.t 1, .t 2], order := [none, none] } ],
    termNames := ["a", "error", "$eof"], termCodes := [97, -2, -1],
    ntNames := ["S", "$S", "A", "B"], errT := 1, eofT := 2, axiomN := 1, startN := 0 }

def w : List Nat := [0, 0, 0]

/-- `yaep_read_grammar` (model) accepts the description and builds `g` -/
example : (match readGrammar raw with | .ok g' => g'.rules == g.rules && g'.termCodes == g.termCodes
            && g'.errT == g.errT && g'.eofT == g.eofT && g'.axiomN == g.axiomN | .error _ => false) = true := by
  decide

/-- the forest of the all-parses run: `alt (s(y z), s(x w))`, no event -/
def tab : Array NodeRec :=
  #[.anode "y" 0 [], .anode "z" 0 [], .anode "s" 0 [0, 1], .anode "x" 0 [], .anode "w" 0 [],
    .anode "s" 0 [3, 4], .alt [2, 5]]

theorem run_all :
    MP.makeParse g (plSets g 1 w) (plTokNums w) false 100 =
      .ok { amb := true, tab := tab, root := 6, reuse := 0, origins := 0,
            nilUsed := false, errUsed := false, heapSize := 11,
            allocs := [.node, .node, .anode 3, .name 1, .anode 1, .name 1, .anode 3, .node, .node,
                       .anode 1, .name 1, .anode 1, .name 1, .anode 1, .name 1] } := by
  rfl

theorem hyps : g.WF ∧ g.mpWF = true ∧ g.symsInRange = true ∧ g.errT ∉ w ∧
    (BS.buildPLC g 1 w).1 = none := by decide

/-- the forest denotes two trees -/
example : ((denoteTab tab).getD 6 []).map Tree.str = ["s:0(y:0() z:0())", "s:0(x:0() w:0())"] := by
  decide

/-- **the theorem applied**: the translation of every derivation of `a a a $eof` is denoted -/
example : ∀ pt, PT.IsDerivation g (w ++ [g.eofT]) pt → translate g pt ∈ (denoteTab tab).getD 6 [] :=
  fun _ hpt => makeParse_all_complete_eventfree (la := 1) (fuel := 100) hyps.1 hyps.2.1 hyps.2.2.1
    hyps.2.2.2.1 hyps.2.2.2.2 run_all ⟨rfl, rfl⟩ hpt

/-- … and the denoted trees are exactly the translations -/
example (t : Tree) : t ∈ (denoteTab tab).getD 6 [] ↔
    ∃ pt, PT.IsDerivation g (w ++ [g.eofT]) pt ∧ translate g pt = t :=
  makeParse_all_eventfree_eq (la := 1) (fuel := 100) hyps.1 hyps.2.1 hyps.2.2.1 hyps.2.2.2.1
    hyps.2.2.2.2 run_all ⟨rfl, rfl⟩ t

/-- the input has two derivations with different translations -/
example : ((derivationsP g (w ++ [g.eofT])).map fun d => (translate g d).str) =
    ["s:0(x:0() w:0())", "s:0(y:0() z:0())"] := by decide

end CPEx

/-! ## the hypothesis is needed: D9a (an *origins* event), D9b (a *reuse* event) -/

/-- D9a (the parse list `D9a.sets` is `plSets D9a.g 1 D9a.w`): the run counts one *origins* event and
no *reuse* event, and the translation `s(y)` of `a a a` is missing -/
example : (plSets D9a.g 1 D9a.w = D9a.sets ∧ plTokNums D9a.w = D9a.plToks) ∧
    ∃ res, MP.makeParse D9a.g D9a.sets D9a.plToks false 100 = .ok res ∧
      res.reuse = 0 ∧ res.origins = 1 ∧
      ∃ t, t ∈ (derivationsP D9a.g (D9a.w ++ [D9a.g.eofT])).map (translate D9a.g) ∧
        t ∉ (denoteTab res.tab).getD res.root [] := by
  refine ⟨by decide, _, D9a.run_all, rfl, rfl, ?_⟩
  rw [D9a.translations]
  have hd : (denoteTab #[NodeRec.anode "x" 0 [], NodeRec.anode "s" 0 [0]]).getD 1 [] =
      [Tree.anode "s" 0 [.anode "x" 0 []]] := by rfl
  refine ⟨.anode "s" 0 [.anode "y" 0 []], by simp, ?_⟩
  show _ ∉ (denoteTab #[NodeRec.anode "x" 0 [], NodeRec.anode "s" 0 [0]]).getD 1 []
  rw [hd]
  simp

/-- D9b: the run counts one *reuse* event and no *origins* event, and the translation `v(t(y z))`
of `c a a a` is missing -/
example : (plSets D9b.g 1 D9b.w = D9b.sets ∧ plTokNums D9b.w = D9b.plToks) ∧
    ∃ res, MP.makeParse D9b.g D9b.sets D9b.plToks false 100 = .ok res ∧
      res.reuse = 1 ∧ res.origins = 0 ∧
      ∃ t, t ∈ (derivationsP D9b.g (D9b.w ++ [D9b.g.eofT])).map (translate D9b.g) ∧
        t ∉ (denoteTab res.tab).getD res.root [] := by
  refine ⟨by decide, _, D9b.run_all, rfl, rfl, ?_⟩
  have htr : (derivationsP D9b.g (D9b.w ++ [D9b.g.eofT])).map (translate D9b.g) =
      [.anode "u" 0 [.anode "t" 0 [.anode "x" 0 [], .anode "w" 0 []]],
       .anode "u" 0 [.anode "t" 0 [.anode "y" 0 [], .anode "z" 0 []]],
       .anode "v" 0 [.anode "t" 0 [.anode "x" 0 [], .anode "w" 0 []]],
       .anode "v" 0 [.anode "t" 0 [.anode "y" 0 [], .anode "z" 0 []]]] := by rfl
  rw [htr]
  have hd : (denoteTab #[NodeRec.anode "y" 0 [], .anode "z" 0 [], .anode "t" 0 [0, 1], .anode "x" 0 [], .anode "w" 0 [],
                     .anode "t" 0 [3, 4], .alt [2, 5], .anode "u" 0 [6], .anode "v" 0 [5], .alt [7, 8]]).getD 9 [] =
      [.anode "u" 0 [.anode "t" 0 [.anode "y" 0 [], .anode "z" 0 []]],
       .anode "u" 0 [.anode "t" 0 [.anode "x" 0 [], .anode "w" 0 []]],
       .anode "v" 0 [.anode "t" 0 [.anode "x" 0 [], .anode "w" 0 []]]] := by rfl
  refine ⟨.anode "v" 0 [.anode "t" 0 [.anode "y" 0 [], .anode "z" 0 []]], by simp, ?_⟩
  show _ ∉ (denoteTab #[NodeRec.anode "y" 0 [], .anode "z" 0 [], .anode "t" 0 [0, 1], .anode "x" 0 [], .anode "w" 0 [],
                     .anode "t" 0 [3, 4], .alt [2, 5], .anode "u" 0 [6], .anode "v" 0 [5], .alt [7, 8]]).getD 9 []
  rw [hd]
  simp

/-! ## the hypothesis `errT ∉ w` is needed (a corner of the model outside the property)

`errTokGrammar` (`S : error # x`) on the single token `error`: the derivations `$S : S $eof`
(translation `x()`) and `$S : error $eof` (translation `nil`) are both in the last set; `make_parse`
starts from the first situation of that set only (here `$S : error $eof .`).  The run counts no
event, denotes `nil` and misses `x()`.
`UserTokens` excludes this input. -/
example : errTokGrammar.WF ∧ errTokGrammar.mpWF = true ∧ errTokGrammar.symsInRange = true ∧
    (BS.buildPLC errTokGrammar 0 [0]).1 = none ∧
    (match MP.makeParse errTokGrammar (plSets errTokGrammar 0 [0]) (plTokNums [0]) false 1000 with
      | .ok r => r.reuse == 0 && r.origins == 0 &&
          ((denoteTab r.tab).getD r.root []).map Tree.str == ["nil"]
      | _ => false) = true ∧
    ((derivationsP errTokGrammar [0, 1]).map fun d => (translate errTokGrammar d).str) =
      ["x:0()", "nil"] := by decide

end Yaep
