import Yaep.Model.ReadGrammar
import Yaep.Model.Forest
/-!
# Reading cases and observations (line protocol, DESIGN.md appendix A)
-/
namespace Yaep.Driver
open Yaep

def words (s : String) : List String :=
  (s.trimAscii.toString.splitOn " ").filter (· ≠ "")

def toInt (s : String) : Int := s.toInt?.getD 0
def toNat (s : String) : Nat := s.toNat?.getD 0

/-- value of `key=` among the words -/
def kv (ws : List String) (key : String) : Option String :=
  ws.findSome? fun w =>
    if w.startsWith (key ++ "=") then some (w.drop (key.length + 1)).toString else none

def kvInt (ws : List String) (key : String) : Int := ((kv ws key).bind String.toInt?).getD (-999)

structure Op where
  n : Nat
  cmd : String
  h : Nat
  args : List String
  obs : List (List String) := []      -- observation lines of this op, split into words
deriving Repr, Inhabited

structure Case where
  id : String := ""
  kind : String := ""
  grams : List (Nat × RawGrammar) := []
  texts : List (Nat × List UInt8) := []
  ops : List Op := []
  tail : List (List String) := []      -- observation lines without op number (`end`, `crash`)
  raw : List String := []
deriving Inhabited

def parseRule (ws : List String) : RawRule :=
  -- rule <lhs> <anode|-> <cost> <k> <rhs…> / X | <m> <tr…>
  match ws with
  | lhs :: an :: cost :: k :: rest =>
    let k := toNat k
    let rhs := rest.take k
    let after := (rest.drop k).drop 1     -- skip "/"
    let transl := match after with
      | "X" :: _ => none
      | m :: trs => some ((trs.take (toNat m)).map fun t => if t == "N" then NIL_TRANSL else toNat t)
      | [] => none
    { lhs := lhs, rhs := rhs, anode := if an == "-" then none else some an, cost := toInt cost,
      transl := transl }
  | _ => { lhs := "?", rhs := [], anode := none, cost := 0, transl := none }

def hexDigit (c : Char) : Nat :=
  if '0' ≤ c ∧ c ≤ '9' then c.toNat - '0'.toNat
  else if 'a' ≤ c ∧ c ≤ 'f' then c.toNat - 'a'.toNat + 10
  else if 'A' ≤ c ∧ c ≤ 'F' then c.toNat - 'A'.toNat + 10 else 0

def unhex : List Char → List UInt8
  | a :: b :: rest => UInt8.ofNat (hexDigit a * 16 + hexDigit b) :: unhex rest
  | _ => []

/-- fold the lines of one case (between `case` and `end`) into a `Case` -/
def buildCase (lines : List String) : Case := Id.run do
  let mut c : Case := { raw := lines }
  let mut curG : Option (Nat × RawGrammar) := none
  let mut ops : Array Op := #[]
  let mut obsAcc : Array (Array (List String)) := #[]      -- observation lines per op (same index)
  for l in lines do
    let ws := words l
    match ws with
    | "case" :: id :: rest => c := { c with id := id, kind := rest.headD "" }
    | "gram" :: gid :: strict :: _ =>
      curG := some (toNat gid, { terms := [], rules := [], strict := strict != "0" })
    | "term" :: name :: code :: _ =>
      curG := curG.map fun (i, g) => (i, { g with terms := g.terms ++ [(name, toInt code)] })
    | "rule" :: rest =>
      curG := curG.map fun (i, g) => (i, { g with rules := g.rules ++ [parseRule rest] })
    | "endgram" :: _ =>
      match curG with
      | some p => c := { c with grams := c.grams ++ [p] }; curG := none
      | none => pure ()
    | "text" :: tid :: rest =>
      c := { c with texts := c.texts ++ [(toNat tid, unhex (rest.headD "").toList)] }
    | "op" :: n :: cmd :: h :: args =>
      ops := ops.push { n := toNat n, cmd := cmd, h := toNat h, args := args }
      obsAcc := obsAcc.push #[]
    | "o" :: rest =>
      match rest with
      | nstr :: obsWords =>
        match nstr.toNat? with
        | some n =>
          match ops.findIdx? (·.n == n) with
          | some i => obsAcc := obsAcc.modify i (·.push obsWords)
          | none => pure ()
        | none => c := { c with tail := c.tail ++ [rest] }
      | [] => pure ()
    | _ => pure ()
  let opsL := (List.range ops.size).map fun i => { ops[i]! with obs := (obsAcc.getD i #[]).toList }
  return { c with ops := opsL }

/-- observation lines of an op whose first word is `key` (without that word) -/
def Op.get (o : Op) (key : String) : List (List String) :=
  o.obs.filterMap fun ws => match ws with | k :: rest => if k == key then some rest else none | [] => none

def Op.first (o : Op) (key : String) : Option (List String) := (o.get key).head?

/-- node table of a parse op -/
def Op.nodeTable (o : Op) : Array NodeRec :=
  let recs := (o.get "node").map fun ws =>
    match ws with
    | _ :: "nil" :: _ => NodeRec.nil
    | _ :: "err" :: _ => NodeRec.err
    | _ :: "term" :: c :: a :: _ => NodeRec.term (toInt c) (toInt a)
    | _ :: "anode" :: name :: cost :: kids =>
      if kids.any (·.toNat?.isNone) || cost.toNat?.isNone then NodeRec.bad
      else NodeRec.anode name (toNat cost) (kids.map toNat)
    | _ :: "alt" :: alts =>
      if alts.any (·.toNat?.isNone) then NodeRec.bad else NodeRec.alt (alts.map toNat)
    | _ => NodeRec.bad
  recs.toArray

end Yaep.Driver
