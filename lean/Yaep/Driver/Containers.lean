import Yaep.Model.HashTab
import Yaep.Model.ObjStack
import Yaep.Model.Vlo
/-!
# Judge for the container cases (property C19)

Input: the output of `harness/ch.c` for ONE case (echoed input lines and the observation lines
`o …` printed after each of them).  Output: verdict lines

    V <case> <opindex> C19 K ok|bad <detail>     query results (find/insert/remove, top/obj/get)
    V <case> <opindex> C19 D ok|bad <detail>     internal facts (table size, element counter)

`opindex` is the 1-based index of the op line inside the case (`create` is op 1).
Unspecified bytes (added by `expand`) are printed `??` by the model and match anything.
-/
namespace Yaep.Driver.Containers
open Yaep.Model

def words (s : String) : List String := (s.splitOn " ").filter (· ≠ "")

def hexDigit (n : Nat) : Char := "0123456789abcdef".toList.getD n '?'
def hexByte (n : Nat) : String := String.ofList [hexDigit (n / 16 % 16), hexDigit (n % 16)]

def hexVal (c : Char) : Option Nat :=
  if '0' ≤ c ∧ c ≤ '9' then some (c.toNat - '0'.toNat)
  else if 'a' ≤ c ∧ c ≤ 'f' then some (c.toNat - 'a'.toNat + 10)
  else if 'A' ≤ c ∧ c ≤ 'F' then some (c.toNat - 'A'.toNat + 10)
  else none

def unhexChars : List Char → List Nat
  | a :: b :: rest =>
    match hexVal a, hexVal b with
    | some x, some y => (x * 16 + y) :: unhexChars rest
    | _, _ => []
  | _ => []

/-- `-` or the empty string is the empty byte string -/
def unhex (s : String) : List Nat := unhexChars s.toList

def showBytes (bs : List (Option Nat)) : String :=
  if bs.isEmpty then "-"
  else String.join (bs.map fun b => match b with | some v => hexByte v | none => "??")

/-- model string (may contain `??`) against implementation string -/
def hexMatchChars : List Char → List Char → Bool
  | [], [] => true
  | a :: b :: r, c :: d :: r' =>
    ((a == '?' && b == '?') || (a == c && b == d)) && hexMatchChars r r'
  | _, _ => false

def hexMatch (model impl : String) : Bool :=
  if model == "-" || impl == "-" then model == impl else hexMatchChars model.toList impl.toList

def shorten (s : String) : String :=
  if s.length > 48 then (s.take 40).toString ++ "…(" ++ toString (s.length / 2) ++ "B)" else s

structure Verdict where
  kind : String     -- "K" | "D"
  ok : Bool
  detail : String

/-- an op of a case: its 1-based index, its words, the observation lines that followed it -/
structure OpRec where
  idx : Nat
  w : List String
  obs : List (List String)

def groupOps (lines : List String) : List OpRec := Id.run do
  let mut acc : Array OpRec := #[]
  let mut idx := 0
  for l in lines do
    let w := words l
    match w with
    | "o" :: rest =>
      if h : acc.size > 0 then
        let last := acc[acc.size - 1]
        acc := acc.set (acc.size - 1) { last with obs := last.obs ++ [rest] }
      else
        acc := acc.push { idx := 0, w := [], obs := [rest] }
    | "case" :: _ => pure ()
    | "end" :: _ => pure ()
    | [] => pure ()
    | _ =>
      idx := idx + 1
      acc := acc.push { idx := idx, w := w, obs := [] }
  return acc.toList

def nat (s : String) : Nat := s.toNat?.getD 0

/-- compare expected observation lines (as words; hex fields marked by position) -/
def cmpObs (kind : String) (expected : List (List String)) (actual : List (List String))
    (hexField : Option Nat) : List Verdict :=
  let crash := actual.filter (·.head? == some "crash")
  let actual := actual.filter (·.head? != some "crash")
  let n := max expected.length actual.length
  let vs := (List.range n).map fun k =>
    match expected[k]?, actual[k]? with
    | some e, some a =>
      let ok := e.length == a.length &&
        ((List.range e.length).all fun j =>
          let ej := e.getD j ""; let aj := a.getD j ""
          if hexField == some j then hexMatch ej aj else ej == aj)
      ⟨kind, ok, s!"model: {" ".intercalate (e.map shorten)} | impl: {" ".intercalate (a.map shorten)}"⟩
    | some e, none => ⟨kind, false, s!"model: {" ".intercalate (e.map shorten)} | impl: <nothing>"⟩
    | none, some a => ⟨kind, false, s!"model: <nothing> | impl: {" ".intercalate (a.map shorten)}"⟩
    | none, none => ⟨kind, true, ""⟩
  vs ++ crash.map fun c => ⟨"K", false, "impl: " ++ " ".intercalate c⟩

structure St where
  hash : Option (HashTab.Table × Nat) := none      -- table, modulus
  stack : Option ObjStack.Stack := none
  vlo : Option Vlo.Vlo := none

def stepCase (cxxModel : Bool) (st : St) (o : OpRec) : St × List Verdict :=
  let a1 := o.w.getD 2 ""
  match o.w with
  | "h" :: "create" :: _ =>
    let m := nat (o.w.getD 3 "1")
    ({ st with hash := some (HashTab.create (nat a1), if m = 0 then 1 else m) }, cmpObs "K" [] o.obs none)
  | "h" :: cmd :: _ =>
    match st.hash with
    | none => (st, [⟨"K", false, "no table"⟩])
    | some (t, m) =>
      let hash := fun v => v % m
      let x := nat a1
      match cmd with
      | "find" =>
        let r := HashTab.lookup cxxModel hash t x
        ({ st with hash := some (r.1, m) }, cmpObs "K" [["find", if r.2 then "1" else "0"]] o.obs none)
      | "insert" =>
        let r := HashTab.insert cxxModel hash t x
        ({ st with hash := some (r.1, m) }, cmpObs "K" [["insert", if r.2 then "new" else "present"]] o.obs none)
      | "remove" =>
        let r := HashTab.remove cxxModel hash t x
        ({ st with hash := some (r.1, m) },
          cmpObs "K" [if r.2 then ["remove"] else ["remove", "absent"]] o.obs none)
      | "empty" => ({ st with hash := some (t.clear, m) }, cmpObs "K" [] o.obs none)
      | "size" =>
        (st, cmpObs "D" [["size", toString t.size, "elems", toString t.elemsNumber]] o.obs none)
      | _ => (st, [⟨"K", false, "unknown op"⟩])
  | "s" :: "create" :: _ => ({ st with stack := some (ObjStack.create (nat a1)) }, cmpObs "K" [] o.obs none)
  | "s" :: cmd :: _ =>
    match st.stack with
    | none => (st, [⟨"K", false, "no stack"⟩])
    | some s =>
      let upd (s' : ObjStack.Stack) : St × List Verdict := ({ st with stack := some s' }, cmpObs "K" [] o.obs none)
      match cmd with
      | "addbytes" => upd (ObjStack.addBytes s (unhex a1))
      | "addbyte" => upd (ObjStack.addByte s ((unhex a1).headD 0))
      | "expand" => upd (ObjStack.expand s (nat a1))
      | "shorten" => upd (ObjStack.shorten s (nat a1))
      | "nullify" => upd (ObjStack.nullify s)
      | "finish" => upd (ObjStack.finish s)
      | "empty" => upd (ObjStack.empty s)
      | "top" =>
        (st, cmpObs "K" [["top", toString s.topLength, showBytes s.top]] o.obs (some 2))
      | "check" =>
        let exp := (List.range s.finished.length).map fun k =>
          match s.finished[k]? with
          | some ob =>
            match s.readObj ob with
            | some bs => ["obj", toString k, if bs == ob.bytes then "same" else "moved", showBytes bs]
            | none => ["obj", toString k, "freed", "-"]
          | none => []
        (st, cmpObs "K" exp o.obs (some 3))
      | _ => (st, [⟨"K", false, "unknown op"⟩])
  | "v" :: "create" :: _ => ({ st with vlo := some (Vlo.create (nat a1)) }, cmpObs "K" [] o.obs none)
  | "v" :: cmd :: _ =>
    match st.vlo with
    | none => (st, [⟨"K", false, "no vlo"⟩])
    | some v =>
      let upd (v' : Vlo.Vlo) : St × List Verdict := ({ st with vlo := some v' }, cmpObs "K" [] o.obs none)
      match cmd with
      | "add" => upd (Vlo.add v (unhex a1))
      | "expand" => upd (Vlo.expand v (nat a1))
      | "shorten" => upd (Vlo.shorten v (nat a1))
      | "nullify" => upd (Vlo.nullify v)
      | "tailor" => upd (Vlo.tailor v)
      | "get" => (st, cmpObs "K" [["get", toString v.len, showBytes v.contents]] o.obs (some 2))
      | _ => (st, [⟨"K", false, "unknown op"⟩])
  | _ => (st, cmpObs "K" [] o.obs none)

/-- one step of the judge, exposed for tests: state, op record ↦ state, verdicts -/
def containerStep := stepCase

def caseId (lines : List String) : String :=
  match lines.find? (fun l => (words l).head? == some "case") with
  | some l => (words l).getD 1 "?"
  | none => "?"

def judgeWith (cxxModel : Bool) (lines : List String) : List String := Id.run do
  let cid := caseId lines
  let mut st : St := {}
  let mut out : Array String := #[]
  for o in groupOps lines do
    let (st', vs) := stepCase cxxModel st o
    st := st'
    for v in vs do
      if v.detail != "" || !v.ok then
        out := out.push s!"V {cid} {o.idx} C19 {v.kind} {if v.ok then "ok" else "bad"} {v.detail}"
  if !(lines.any fun l => (words l).head? == some "end") then
    out := out.push s!"V {cid} 0 C19 K bad case did not finish (no end line)"
  return out.toList

/-- one case in (harness output lines), verdict lines out; the reference is the model of the
C code (`cxx = false`), which is the one the theorems are about -/
def judgeContainerCase (lines : List String) : List String := judgeWith false lines

end Yaep.Driver.Containers
