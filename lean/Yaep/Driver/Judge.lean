import Yaep.Driver.Case
import Yaep.Model.Earley
import Yaep.Model.Chart
import Yaep.Model.Recovery
import Yaep.Model.Api
import Yaep.Model.Descr
import Yaep.Model.Earley2
import Yaep.Model.DefectCodes
import Yaep.Model.MakeParse
import Yaep.Model.BuildSet
import Yaep.Model.CodeTable
import Yaep.Model.BuildSet2
import Yaep.Model.PruneC
import Yaep.Model.AnalysisC
/-!
# The judge: compares the observations of the real library with the model

For every op of a case the model computes what the properties admit and emits verdict lines
`V <case> <op> <property> <K|D> <ok|bad> <detail>`; `K` = observable named by the property
(a `bad` is a failing input), `D` = deep tie (internal data the model pins down).
Statistics lines `S <case> key=value …` feed the evidence files.
-/
namespace Yaep.Driver
open Yaep

abbrev HState := ObjState

structure Out where
  lines : Array String := #[]

def Out.v (o : Out) (cid : String) (opn : Nat) (prop kind : String) (ok : Bool) (detail : String) : Out :=
  { lines := o.lines.push s!"V {cid} {opn} {prop} {kind} {if ok then "ok" else "bad"} {detail}" }

def Out.s (o : Out) (cid : String) (msg : String) : Out :=
  { lines := o.lines.push s!"S {cid} {msg}" }


def sortStrs (l : List String) : List String := (l.toArray.qsort (· < ·)).toList
def dedupSorted : List String → List String
  | a :: b :: rest => if a == b then dedupSorted (b :: rest) else a :: dedupSorted (b :: rest)
  | l => l
def strSet (l : List String) : List String := dedupSorted (sortStrs l)

def itemStr (it : Item) : String := s!"{it.rule},{it.dot},{it.origin}"

/-- expand `rep <count> <k> c1..ck` fragments of a token list -/
partial def expandToks : List String → List Int
  | "rep" :: cnt :: k :: rest =>
    let k := toNat k
    let frag := (rest.take k).map toInt
    (List.replicate (toNat cnt) frag).flatten ++ expandToks (rest.drop k)
  | t :: rest => toInt t :: expandToks rest
  | [] => []

/-- names in the hook dump are one word: white space, control and non-ASCII bytes as `\\xHH` -/
def hexd (n : Nat) : Char := if n < 10 then Char.ofNat (48 + n) else Char.ofNat (87 + n)
def asciiName (s : String) : String :=
  if s.isEmpty then "@empty" else
  String.join (s.toList.map fun c =>
    let n := c.toNat
    if n ≤ 32 || n ≥ 127 || c == '\\' then s!"\\x{hexd (n / 16 % 16)}{hexd (n % 16)}" else c.toString)

/-- definition ops: `yaep_read_grammar` through the callbacks -/
def judgeDefRes (prop : String) (cid : String) (o : Op) (res : Except ErrCode Grammar) (hs : HState) (out : Out) : HState × Out := Id.run do
  let mut out := out
  let obs := (o.first "def").getD []
  let rc := kvInt obs "rc"
  let code := kvInt obs "code"
  let expRc : Int := match res with | .ok _ => 0 | .error e => e
  -- C10 K: success iff no defect; D: the same code as the model's check order
  out := out.v cid o.n prop "K" ((rc == 0) == (expRc == 0)) s!"rc={rc} model={expRc}"
  out := out.v cid o.n prop "D" (rc == expRc) s!"rc={rc} model={expRc}"
  -- C15: error code = last failing call
  let expCode := (hs.define res).1.lastErr
  out := out.v cid o.n "C15" "K" (code == expCode) s!"error_code={code} expected={expCode}"
  if rc != 0 then
    let msgLen := kvInt obs "msglen"
    out := out.v cid o.n "C15" "K" (msgLen > 0) s!"msglen={msgLen}"
    out := out.v cid o.n "C12" "K" (msgLen ≤ 200) s!"error message fits its buffer: msglen={msgLen}"
    -- the harness fills the stack with a pattern before the call: pattern bytes in the message
    -- (beyond those of the caller's own text) are uninitialised memory
    if (kv obs "poison").isSome then
      out := out.v cid o.n "C12" "K" (kvInt obs "poison" == 0) s!"error message built from initialised memory only: poison={kvInt obs "poison"}"
  out := out.s cid s!"def rc={rc}"
  match res with
  | .ok g =>
    if rc == 0 then
      -- deep tie: flags per nonterminal, rules
      let nl := g.nullable; let pr := g.productive; let rch := g.reachable; let lp := g.loopSet
      let expSyms := strSet ((List.range g.nN).map fun A =>
        s!"{asciiName (g.ntNames.getD A "?")} {A} e={if nl.contains A then 1 else 0} a={if rch.contains A then 1 else 0} d={if pr.contains A then 1 else 0} l={if lp.contains A then 1 else 0}")
      let gotSyms := strSet ((o.get "sym").filterMap fun ws => match ws with
        | "N" :: rest => some (" ".intercalate rest) | _ => none)
      out := out.v cid o.n prop "D" (expSyms == gotSyms) s!"flags model={expSyms} impl={gotSyms}"
      -- the same flags from the step-for-step transcription of the three analysis loops
      -- (Model/AnalysisC.lean; `emptyAccessDerives_eq`, `loopC_eq`)
      let b := fun (x : Bool) => if x then 1 else 0
      -- (list-based transcription: small grammars only)
      let rows := if g.nN + g.nT ≤ 40 && g.rules.length ≤ 60 then AC.flagRows g else []
      let expSymsC := strSet ((List.range g.nN).map fun A =>
        let r := rows.getD A (false, false, false, false)
        s!"{asciiName (g.ntNames.getD A "?")} {A} e={b r.1} a={b r.2.1} d={b r.2.2.1} l={b r.2.2.2}")
      if !rows.isEmpty then
        out := out.v cid o.n prop "D" (expSymsC == gotSyms) s!"flags of the step model of the analysis loops model={expSymsC} impl={gotSyms}"
      let expTerms := strSet ((List.range g.nT).map fun a => s!"{asciiName (g.termNames.getD a "?")} {g.termCodes.getD a 0} {a}")
      let gotTerms := strSet ((o.get "sym").filterMap fun ws => match ws with
        | "T" :: rest => some (" ".intercalate rest) | _ => none)
      out := out.v cid o.n prop "D" (expTerms == gotTerms) s!"terms model={expTerms} impl={gotTerms}"
      let symName := fun (s : Sym) => match s with
        | .t a => asciiName (g.termNames.getD a "?") | .n A => asciiName (g.ntNames.getD A "?")
      let expRules := (List.range g.rules.length).map fun i =>
        let r := g.rules.getD i default
        s!"{i} {asciiName (g.ntNames.getD r.lhs "?")} {asciiName (r.anode.getD "-")} {r.cost} {r.transLen} {r.rhs.length} " ++
          " ".intercalate (r.rhs.map symName) ++ " / " ++
          " ".intercalate (r.order.map fun x => match x with | some k => toString k | none => "-1")
      let gotRules := (o.get "grule").map fun ws => " ".intercalate ws
      let norm := fun (s : String) => " ".intercalate (words s)
      out := out.v cid o.n prop "D" (expRules.map norm == gotRules.map norm)
        s!"rules model={expRules} impl={gotRules}"
      -- how token codes are looked up (Model/CodeTable.lean, C `int` arithmetic: `finish_defined`,
      -- `find_spec`): dense vector with its bounds, or the hash table
      match o.first "codetab" with
      | some ws =>
        let expTab := match CT.finish 10000 g.termCodes with
          | some (some t) => s!"vect start={t.start} end={t.stop}"
          | some none => "hash"
          | none => "undefined"
        out := out.v cid o.n "C15" "D" (" ".intercalate ws == expTab) s!"code table impl=[{" ".intercalate ws}] model=[{expTab}]"
      | none => pure ()
    return ((hs.define res).1, out)
  | .error _ =>
    return ((hs.define res).1, out)

def judgeDef (cid : String) (o : Op) (raw : RawGrammar) (hs : HState) (out : Out) : HState × Out := Id.run do
  let (hs', out') := judgeDefRes "C10" cid o (readGrammar raw) hs out
  let mut out := out'
  -- C10 K: a nonzero code names a defect that is really present (any of them, not necessarily the first)
  let rc := kvInt ((o.first "def").getD []) "rc"
  let present := defectCodes raw
  if rc != 0 && rc != 1 then
    out := out.v cid o.n "C10" "K" (present.any fun c => Int.ofNat c == rc) s!"code {rc} returned, defects present: {present}"
  -- the model's own consistency: its first defect is one of the present ones
  match readGrammar raw with
  | .error e => if !present.contains e then out := out.s cid s!"MODEL-INCONSISTENT readGrammar code {e} not in {present}"
  | .ok _ => if !present.isEmpty then out := out.s cid s!"MODEL-INCONSISTENT readGrammar ok but defects {present}"
  return (hs', out)

/-- `yaep_parse_grammar`: the description text denotes a terminal/rule list (Model/Descr.lean) -/
def judgeDescr (cid : String) (o : Op) (text : List UInt8) (strict : Bool) (hs : HState) (out : Out) : HState × Out := Id.run do
  let mut out := out
  let rawE := descrToRaw text strict
  -- a name declared both with and without a code: outside what the property promises
  let res := parseDescr text strict
  let (hs', out') := judgeDefRes "C11" cid o res hs out
  out := out'
  let obs := (o.first "def").getD []
  let rc := kvInt obs "rc"
  if rc == 3 then
    -- "description syntax error on ln <k>": the line number lies inside the text
    let msg := (o.first "msg").getD []
    let ln := (msg.getLast?.bind String.toNat?).getD 0
    let nl := (text.filter (· == 10)).length
    out := out.v cid o.n "C11" "K" (decide (1 ≤ ln) && decide (ln ≤ nl + 1)) s!"line number {ln} of {nl + 1} lines"
  match rawE with
  | .ok raw => out := out.s cid s!"descr terms={raw.terms.length} rules={raw.rules.length} rc={rc}"
  | .error e => out := out.s cid s!"descr lexparse-error={e} rc={rc}"
  return (hs', out)

structure ParseCfg where
  maxTreeToks : Nat := 9
  derivCap : Nat := 3000
  maxSetToks : Nat := 400

/-- everything observable of a parse op, as one canonical string (C09/C14/C16 comparisons) -/
def parseSignature (o : Op) (tab : Array NodeRec) : String :=
  let p := (o.first "parse").getD []
  let ses := (o.get "se").map fun ws => " ".intercalate ws
  let trees :=
    match (o.first "root") with
    | some (r :: _) =>
      let cnt := countTab tab
      if cnt.getD (toNat r) 0 > 5000 then [s!"count={cnt.getD (toNat r) 0}"]
      else strSet (((denoteTab tab).getD (toNat r) []).map Tree.str)
    | _ => []
  s!"rc={kvInt p "rc"} amb={kvInt p "amb"} root={(kv p "root").getD "?"} se=[{"; ".intercalate ses}] trees={trees}"

/-- a situation of the hook's set dump: `rule,dot,origin` -/
def parseItemW (w : String) : Item :=
  match w.splitOn "," with
  | [r, d, o] => { rule := toNat r, dot := toNat d, origin := toNat o }
  | _ => { rule := 1000000000, dot := 0, origin := 0 }

/-- a structural hash of every node of an exported table (children precede parents): the
packed forest up to the order of alternatives inside an ALT list and up to sharing -/
def forestHashes (tab : Array NodeRec) : Array UInt64 := Id.run do
  let mut h : Array UInt64 := Array.mkEmpty tab.size
  for i in [0:tab.size] do
    let v : UInt64 := match tab.getD i .bad with
      | .nil => 11
      | .err => 13
      | .term c a => mixHash 17 (mixHash (hash c) (hash a))
      | .anode n c ks => ks.foldl (fun acc k => mixHash acc (h.getD k 0)) (mixHash (hash n) (hash c))
      | .alt as => ((as.map fun k => h.getD k 0).toArray.qsort (· < ·)).foldl mixHash 19
      | .bad => 23
    h := h.push v
  return h

/-- deep tie of `make_parse` (cost flag off): the step-for-step model (`Model/MakeParse.lean`) run
on the parse list the hook dumped — situations in the order of the C set cores — must set the
same ambiguity flag and build the same node graph, compared line by line with the export of
the harness -/
def judgeMakeParse (cid : String) (o : Op) (g : Grammar) (oneP : Bool) (amb : Int) (out : Out) : Out := Id.run do
  let mut out := out
  let setLines := o.get "set"
  let implLines := ((o.get "node").map fun ws => " ".intercalate ("node" :: ws)) ++
    ((o.get "root").map fun ws => " ".intercalate ("root" :: ws))
  if setLines.isEmpty || (o.get "root").isEmpty || (o.first "pltoks").isNone then return out
  if setLines.length > 400 then
    return out.s cid s!"makeparse skipped sets={setLines.length}"
  let sets : Array (Array Item) := (setLines.map fun ws => ((ws.drop 2).map parseItemW).toArray).toArray
  let plToks : Array Int := (((o.first "pltoks").getD []).map toInt).toArray
  let prop := if oneP then "C02" else "C03"
  match MP.makeParse g sets plToks oneP 400000 with
  | .ok r =>
    let modelLines := MP.renderTable r.tab r.root
    let ambM : Int := if r.amb then 1 else 0
    out := out.v cid o.n prop "D" (ambM == amb) s!"make_parse model: ambiguity flag equal impl={amb} model={ambM}"
    let exact := modelLines == implLines
    -- the tie: the same packed forest (which alternatives exist at which place), up to the order
    -- of alternatives and up to sharing; the line-by-line identity of the two exports (node
    -- numbering, order inside ALT lists, sharing) and the allocation order are incidental to
    -- every property and only counted (`S` lines)
    let implTab := o.nodeTable
    let implRoot := toNat (((o.first "root").getD ["0"]).headD "0")
    let same := exact || ((forestHashes r.tab).getD r.root 1 == (forestHashes implTab).getD implRoot 2 && tableWF implTab)
    let detail :=
      if same then s!"nodes={r.tab.size} cells={r.heapSize}"
      else
        let k := ((modelLines.zip implLines).takeWhile fun (a, b) => a == b).length
        s!"first difference at line {k}: model=[{modelLines.getD k "<end>"}] impl=[{implLines.getD k "<end>"}] model={modelLines} impl={implLines}"
    out := out.v cid o.n prop "D" same s!"make_parse model: same packed forest {detail}"
    if !exact then out := out.s cid s!"makeparse-export-differs op={o.n}"
    -- the caller-side allocator saw every `parse_alloc` / `parse_free` of make_parse (sizes in
    -- units of the first request, the NIL node; pointers are the fourth part of a node minus its tag)
    let evA := (o.get "ev").filterMap fun ws => match ws with | "a" :: id :: sz :: _ => some (toNat id, toNat sz) | _ => none
    let evF := (o.get "ev").filterMap fun ws => match ws with | "f" :: id :: _ => some (toNat id) | _ => none
    match evA with
    | (id0, unit) :: _ =>
      let ptr := (unit - 8) / 3
      let expA := r.allocs.map fun a => match a with
        | .node => unit | .anode k => unit + ptr * k | .name b => b + 2
      let gotA := evA.map (·.2)
      let expF := (if r.nilUsed then [] else [id0]) ++ (if r.errUsed then [] else [id0 + 1])
      let okF := (o.args.getD 1 "user") != "user" || evF == expF
      -- the number of blocks requested and the unused NIL/ERROR node handed back are tied (C13:
      -- every block of the parse comes from parse_alloc); their order is only counted
      out := out.v cid o.n prop "D" (gotA.length == expA.length && okF)
        s!"make_parse model: number of blocks requested impl={gotA.length} model={expA.length}, frees impl={evF} model={expF}"
      if gotA != expA then out := out.s cid s!"makeparse-alloc-order-differs op={o.n}"
    | [] => pure ()
    -- the hook's event counters are part of the same transcription
    match o.first "mpev" with
    | some mp =>
      if kvInt mp "reuse" != Int.ofNat r.reuse || kvInt mp "origins" != Int.ofNat r.origins then
        out := out.s cid s!"makeparse-mpev-differ op={o.n} impl={mp} model=reuse={r.reuse},origins={r.origins}"
    | none => pure ()
    out := out.s cid s!"makeparse ran one={oneP} sets={sets.size} cells={r.heapSize} nodes={r.tab.size}"
  | .noParse => out := out.s cid s!"makeparse op={o.n} model: no parse (first situation of the last set is not the axiom rule)"
  | .outOfFuel => out := out.s cid s!"makeparse op={o.n} out of fuel"
  | .undefinedBehaviour => out := out.s cid s!"makeparse op={o.n} model hit a step that is undefined in C"
  | .cyclic => out := out.s cid s!"makeparse op={o.n} model graph cyclic"
  return out

/-- deep tie of `find_minimal_translation` (cost flag on): the model of `make_parse` builds all
parses from the dumped parse list (as the C code does under the cost flag), the step-for-step
model of the pruning (`Model/PruneC.lean`: `pruneC_denote`, `pruneC_costs_restored`,
`pruneC_frees`) prunes it with the object's one-parse flag, and the result must be the packed
forest the harness exported, with as many blocks handed back to `parse_free` -/
def judgePrune (cid : String) (o : Op) (g : Grammar) (oneP : Bool) (out : Out) : Out := Id.run do
  let mut out := out
  let setLines := o.get "set"
  let implLines := ((o.get "node").map fun ws => " ".intercalate ("node" :: ws)) ++
    ((o.get "root").map fun ws => " ".intercalate ("root" :: ws))
  if setLines.isEmpty || (o.get "root").isEmpty || (o.first "pltoks").isNone then return out
  if setLines.length > 400 then return out
  let sets : Array (Array Item) := (setLines.map fun ws => ((ws.drop 2).map parseItemW).toArray).toArray
  let plToks : Array Int := (((o.first "pltoks").getD []).map toInt).toArray
  match MP.makeParseSt (MP.mkCtx g sets plToks false) 400000 with
  | some s =>
    if s.bad then return out.s cid s!"prune op={o.n} make_parse model hit a step that is undefined in C"
    match s.result with
    | some r =>
      let h := PC.ofHeap s.heap
      let free := (o.args.getD 1 "user") != "null"
      -- one name block per rule in C, per name here: cells are told apart by the hash of the name
      let nameId := fun (i : Nat) => match PC.cellAt h i with | .anode nm _ _ => (hash nm).toNat | _ => 0
      let R := PC.findMinimalTranslation (h.size + 1) h r oneP free nameId s.nilUsed s.errUsed
      if R.oof then return out.s cid s!"prune op={o.n} out of fuel"
      match MP.exportTable (PC.toHeap R.heap) R.root with
      | some (tab, rt) =>
        let modelLines := MP.renderTable tab rt
        let exact := modelLines == implLines
        let implTab := o.nodeTable
        let implRoot := toNat (((o.first "root").getD ["0"]).headD "0")
        let same := exact || ((forestHashes tab).getD rt 1 == (forestHashes implTab).getD implRoot 2 && tableWF implTab)
        let detail :=
          if same then s!"nodes={tab.size}"
          else
            let k := ((modelLines.zip implLines).takeWhile fun (a, b) => a == b).length
            s!"first difference at line {k}: model=[{modelLines.getD k "<end>"}] impl=[{implLines.getD k "<end>"}] model={modelLines} impl={implLines}"
        out := out.v cid o.n "C04" "D" same s!"pruning model: same packed forest with cost fields {detail}"
        if !exact then out := out.s cid s!"prune-export-differs op={o.n}"
        -- blocks handed back during the parse: the pruned cells and name blocks, then an unused NIL / ERROR node
        let evF := (o.get "ev").filterMap fun ws => match ws with | "f" :: id :: _ => some (toNat id) | _ => none
        let names := (g.rules.filterMap (·.anode))
        if free && (o.args.getD 1 "user") == "user" && names.eraseDups.length == names.length then
          let expN := R.frees.length + (if R.nilUsed then 0 else 1) + (if R.errUsed then 0 else 1)
          out := out.v cid o.n "C13" "D" (evF.length == expN)
            s!"pruning model: blocks handed to parse_free during the parse impl={evF.length} model={expN}"
        out := out.s cid s!"prune ran one={oneP} cells={h.size} freed={R.frees.length}"
      | none => out := out.s cid s!"prune op={o.n} model graph cyclic"
    | none => out := out.s cid s!"prune op={o.n} model: no result"
  | none => out := out.s cid s!"prune op={o.n} make_parse model out of fuel"
  return out

def judgeParse (cfg : ParseCfg) (cid : String) (o : Op) (hs : HState) (out : Out) : HState × Out := Id.run do
  let mut out := out
  let ak := o.args.getD 0 "user"
  let fk := o.args.getD 1 "user"
  let codes := (expandToks (o.args.drop 3)).takeWhile (· ≥ 0)
  let some p := o.first "parse" | return (hs, out.s cid s!"op {o.n} no observation")
  let rc := kvInt p "rc"
  let amb := kvInt p "amb"
  let rootS := (kv p "root").getD "?"
  let nse := kvInt p "nse"
  let code := kvInt p "code"
  let ses := o.get "se"
  -- C12/C13 generic: anything the harness flagged
  let crashy := (o.get "cycle").length + (o.get "badalt").length
  -- expected return code (C15)
  let expRc : Int := parseRc hs (ak == "null") (fk == "user") codes
  out := out.v cid o.n "C15" "K" (rc == expRc) s!"parse rc={rc} expected={expRc}"
  let expCode := (hs.record expRc).lastErr
  out := out.v cid o.n "C15" "K" (code == expCode) s!"error_code={code} expected={expCode}"
  let hs' := hs.record expRc
  -- C09: the goto-cache self-check hook recomputed every reused set
  match o.first "cache" with
  | some ws =>
    let hits := kvInt ws "hits"; let mism := kvInt ws "mismatches"
    if hits > 0 || mism > 0 then
      out := out.v cid o.n "C09" "K" (mism == 0) s!"goto cache: {hits} reused sets recomputed, {mism} differ"
  | none => pure ()
  if expRc != 0 || rc != 0 then
    if rc != 0 then
      out := out.v cid o.n "C15" "K" (rootS == "null" && nse == 0) s!"failed parse root={rootS} nse={nse}"
    return (hs', out)
  let some g := hs.defn | return (hs', out)
  let w := codes.filterMap (termNumOfCode g)
  let n := w.length
  let la := (clampLa hs.st.la).toNat
  let tab := o.nodeTable
  -- deep tie of make_parse itself (cost flag off)
  if hs.st.cost == 0 && rootS == "tree" then
    out := judgeMakeParse cid o g (hs.st.one != 0) amb out
  if hs.st.cost != 0 && rootS == "tree" then
    out := judgePrune cid o g (hs.st.one != 0) out
  -- the model's parse list; verdict from level min(la,1) (levels agree: `verdict_indep_of_la`)
  let mla := if la ≥ 2 then 1 else la
  let (err, pl) := if n ≤ cfg.maxSetToks then buildPL g mla w else (none, [])
  let modelRan : Bool := decide (n ≤ cfg.maxSetToks)
  let sentence : Bool := err.isNone
  out := out.s cid s!"parse n={n} la={la} one={hs.st.one} cost={hs.st.cost} rec={hs.st.recov} sentence={sentence} modelRan={modelRan} amb={amb}"
  if !modelRan then return (hs', out)
  let recOff := hs.st.recov == 0
  let rmatch := hs.st.rmatch.toNat
  -- recovery model (only needed for non-sentences with recovery on)
  let rr : RecResult := if !sentence && !recOff then parseWithRecovery g mla rmatch w else default
  let recModelOk := sentence || recOff || rr.ok
  if !recModelOk then
    out := out.s cid s!"recovery model gave up steps={rr.steps}"
  -- C01 ----------------------------------------------------------------------------------
  if sentence then
    out := out.v cid o.n "C01" "K" (rootS == "tree" && nse == 0) s!"sentence: root={rootS} nse={nse}"
  else if recOff then
    out := out.v cid o.n "C01" "K" (rootS == "null" && nse == 1) s!"non-sentence, recovery off: root={rootS} nse={nse}"
  else
    out := out.v cid o.n "C01" "K" (nse ≥ 1) s!"non-sentence, recovery on: nse={nse}"
    out := out.v cid o.n "C07" "K" (rootS == "tree") s!"recovery on: root={rootS}"
  -- deep tie: Earley sets position by position (levels 0/1)
  if la ≤ 1 && recModelOk && !(o.get "set").isEmpty then
    let implSets := (o.get "set").map fun ws => (ws.getD 1 "-") :: strSet (ws.drop 2)
    let modelSets :=
      if sentence || recOff then pl.map fun s => strSet (s.map itemStr)
      else rr.pl.map fun s => strSet (s.items.map itemStr)
    let modelTerms :=
      if sentence || recOff then "-" :: ((w ++ [g.eofT]).take (pl.length - 1)).map (fun a => g.termNames.getD a "?")
      else rr.pl.map fun s => match s.term with | some a => g.termNames.getD a "?" | none => "-"
    let modelSets := (modelTerms.zip modelSets).map fun (t, s) => t :: s
    out := out.v cid o.n (if sentence || recOff then "C01" else "C07") "D" (implSets == modelSets)
      (if implSets == modelSets then s!"sets={modelSets.length}" else s!"sets differ model={modelSets} impl={implSets}")
    if !(sentence || recOff) then
      let implToks := ((o.first "pltoks").getD []).map toInt
      let modelToks := rr.pl.map fun s => match s.tok with | some k => Int.ofNat k | none => -1
      out := out.v cid o.n "C07" "D" (implToks == modelToks) s!"token numbers of the parse list: impl={implToks} model={modelToks}"
  -- deep tie of the set construction itself (Model/BuildSet.lean, proved equal to `buildPL` as sets
  -- of items: `buildPLC_eq_buildPL`): every set as the C code lays it out -- start situations,
  -- derived non-start situations (one per parent), initial situations; cores shared by their
  -- start situations.  Compared as multisets (an item may legitimately occur twice); the order
  -- inside a set is reported as a statistic only.
  if la ≤ 1 && (sentence || recOff) && !(o.get "set").isEmpty && n ≤ 80 then
    let (errC, tabC, plC) := BS.buildPLC g la w
    let implSeq := (o.get "set").map fun ws => ws.drop 2
    let modelSeq := (BS.plItems plC).map fun s => s.map itemStr
    let implBag := implSeq.map sortStrs
    let modelBag := modelSeq.map sortStrs
    if errC != err then out := out.s cid s!"MODEL-INCONSISTENT step model error position {errC} vs {err}"
    out := out.v cid o.n "C01" "D" (implBag == modelBag)
      (if implBag == modelBag then s!"set construction: situations of {modelBag.length} sets with multiplicity"
       else s!"set construction differs (situations with multiplicity) model={modelBag} impl={implBag}")
    out := out.s cid s!"setorder same={implSeq == modelSeq}"
    match o.first "cnt" with
    | some ws =>
      let cores := kvInt ws "cores"; let dists := kvInt ws "dists"; let sets := kvInt ws "sets"
      let okc := cores == tabC.nCores && dists == tabC.nDists && sets == tabC.nSets
      out := out.v cid o.n "C18" "D" okc
        s!"unique cores/distance vectors/sets: impl={cores}/{dists}/{sets} model={tabC.nCores}/{tabC.nDists}/{tabC.nSets}"
      -- the tables of shared transition / reduce vectors (`core_symb_vect_new_all_stop`): one triple per
      -- (core, symbol) with a vector, one stored vector per distinct non-empty content
      -- (Model/VectShare.lean, `share_canonical`)
      if (kv ws "pairs").isSome then
        let vc := BS.vectCounts tabC
        let impl := [kvInt ws "pairs", kvInt ws "tvects", kvInt ws "tvlen", kvInt ws "rvects", kvInt ws "rvlen"]
        out := out.v cid o.n "C18" "D" (impl == vc.map Int.ofNat)
          s!"(core, symbol) pairs / unique transition vectors, their length / unique reduce vectors, their length: impl={impl} model={vc}"
    | none => pure ()
  -- the same at level 2 (Model/BuildSet2.lean, `buildPLC2_eq_buildPL2`): situations carry their
  -- context; the `la` line of the hook gives the lookahead set of every situation
  if la == 2 && (sentence || recOff) && !(o.get "la").isEmpty && n ≤ 60 then
    let an := g.analysis
    let (errC, tabC, plC) := BS2.buildPLC2 g w
    let fmt := fun (r d i : Nat) (ts : List Nat) => s!"{r},{d},{i}=" ++ String.join ((normSet ts).map fun t => s!"{t}.")
    let modelSeq := (List.range plC.length).map fun j =>
      ((plC.getD j default).items j).map fun it => fmt it.rule it.dot it.origin (la2 g an it.rule it.dot it.ctx)
    let implSeq := (o.get "la").map fun ws => ws.drop 1
    let implBag := implSeq.map sortStrs
    let modelBag := modelSeq.map sortStrs
    if errC != err then out := out.s cid s!"MODEL-INCONSISTENT level-2 step model error position {errC} vs {err}"
    out := out.v cid o.n "C09" "D" (implBag == modelBag)
      (if implBag == modelBag then s!"level-2 set construction: situations of {modelBag.length} sets with lookahead sets and multiplicity"
       else s!"level-2 set construction differs (situations with lookahead sets, multiplicity) model={modelBag} impl={implBag}")
    out := out.s cid s!"setorder2 same={implSeq == modelSeq}"
    match o.first "cnt" with
    | some ws =>
      let cores := kvInt ws "cores"; let dists := kvInt ws "dists"; let sets := kvInt ws "sets"
      let okc := cores == tabC.nCores && dists == tabC.nDists && sets == tabC.nSets
      out := out.v cid o.n "C18" "D" okc
        s!"level 2: unique cores/distance vectors/sets: impl={cores}/{dists}/{sets} model={tabC.nCores}/{tabC.nDists}/{tabC.nSets}"
    | none => pure ()
  -- deep tie of the lookahead sets of all items (static at level 1, dynamic at level 2)
  if la ≥ 1 && (sentence || recOff) && !(o.get "la").isEmpty && n ≤ 60 then
    let an := g.analysis
    let fmt := fun (r d i : Nat) (ts : List Nat) => s!"{r},{d},{i}=" ++ String.join ((normSet ts).map fun t => s!"{t}.")
    let modelLa : List (List String) :=
      if la == 1 then pl.map fun s => strSet (s.map fun it => fmt it.rule it.dot it.origin (laSet g an it.rule it.dot))
      else (buildPL2 g w).2.map fun s => strSet (s.map fun it => fmt it.rule it.dot it.origin (la2 g an it.rule it.dot it.ctx))
    let implLa := (o.get "la").map fun ws => strSet (ws.drop 1)
    out := out.v cid o.n "C09" "D" (implLa == modelLa)
      (if implLa == modelLa then s!"lookahead sets of {modelLa.length} sets" else s!"lookahead sets differ at level {la}: model={modelLa} impl={implLa}")
  -- deep tie at level 2 (dynamic lookahead): items projected to (rule, dot, origin)
  if la == 2 && (sentence || recOff) && !(o.get "set").isEmpty && n ≤ 60 then
    let (err2, pl2) := buildPL2 g w
    if err2 != err then out := out.s cid s!"MODEL-INCONSISTENT level2 error position {err2} vs {err}"
    let implSets := (o.get "set").map fun ws => strSet (ws.drop 2)
    let modelSets := pl2.map fun s => strSet (s.map fun it => s!"{it.rule},{it.dot},{it.origin}")
    out := out.v cid o.n "C09" "D" (implSets == modelSets)
      (if implSets == modelSets then s!"level-2 sets={modelSets.length}" else s!"level-2 sets differ model={modelSets} impl={implSets}")
  -- C06 -----------------------------------------------------------------------------------
  let attrOf := fun (k : Int) => if k ≥ 0 && k < n then k else (-1 : Int)
  if !sentence && recOff then
    let k : Nat := err.getD 0
    let exp := [toString k, toString (attrOf k), "-1", "-1", "-1", "-1"]
    out := out.v cid o.n "C06" "K" (ses == [exp]) s!"se={ses} expected={exp}"
  if !sentence && !recOff then
    let calls := ses.map fun ws => (ws.map toInt)
    -- well-formedness of every call, straight from the property
    let wfCall := fun (c : List Int) =>
      let e := c.getD 0 0; let ea := c.getD 1 0; let ig := c.getD 2 0; let ia := c.getD 3 0
      let rcv := c.getD 4 0; let ra := c.getD 5 0
      decide (0 ≤ ig) && decide (ig ≤ rcv) && decide (rcv ≤ n) && decide (0 ≤ e) && decide (e ≤ n)
        && ea == attrOf e && ia == attrOf ig && ra == attrOf rcv
    out := out.v cid o.n "C06" "K" (calls.all wfCall) s!"callback arguments well-formed: {ses}"
    let errs := calls.map (·.getD 0 0)
    let incr := (errs.zip (errs.drop 1)).all fun (a, b) => decide (a < b)
    out := out.v cid o.n "C06" "K" incr s!"error tokens strictly increase: {errs}"
    let k : Nat := err.getD 0
    out := out.v cid o.n "C06" "K" (errs.head? == some (k : Int)) s!"first error token={errs.head?} model={k}"
    -- C08: the first recovery ignores no more tokens than any simple recovery
    if n ≤ 40 then
      let full := w ++ [g.eofT]
      let pl0 : List PSet := (List.range pl.length).map fun j =>
        { term := if j = 0 then none else full[j - 1]?, tok := if j = 0 then none else some (j - 1), items := pl.getD j [] }
      match simpleRecoveryMin g g.analysis mla rmatch full pl0 k, calls.head? with
      | some m, some c0 =>
        let ignored := c0.getD 4 0 - c0.getD 2 0
        out := out.v cid o.n "C08" "K" (ignored ≤ Int.ofNat m) s!"first recovery ignores {ignored} tokens, cheapest simple recovery {m}"
      | _, _ => out := out.s cid "no simple recovery"
    if recModelOk then
      let exp := rr.calls.map fun (e, a, b) =>
        [toString e, toString (attrOf e), toString a, toString (attrOf a), toString b, toString (attrOf b)]
      out := out.v cid o.n "C07" "D" (ses == exp) s!"callbacks={ses} model={exp}"
  -- trees ---------------------------------------------------------------------------------
  let recovered := !sentence && !recOff && recModelOk
  if (sentence || recovered) && rootS == "tree" && (o.first "notree").isNone then
    let some (rootIdS :: _) := o.first "root" | return (hs', out.v cid o.n "C02" "K" false "no root line")
    let rootId := toNat rootIdS
    let wf := tableWF tab && !hasBad tab && crashy == 0
    out := out.v cid o.n "C03" "K" wf s!"acyclic/wellformed export wf={wf}"
    -- a cost field that is not a non-negative number makes the exported line malformed: under the
    -- cost flag that is a violation of the additive law (C04), in one-parse mode of C02
    if hs.st.cost != 0 then
      out := out.v cid o.n "C04" "K" wf s!"cost flag: every exported node well-formed (cost fields are non-negative numbers) wf={wf}"
    if hs.st.one != 0 then
      out := out.v cid o.n "C02" "K" wf s!"one parse: every exported node well-formed wf={wf}"
    out := out.v cid o.n "C03" "K" (noNestedAlt tab && (o.get "nestedalt").isEmpty) "no ALT directly under ALT"
    let nNil := (tab.toList.filter fun r => match r with | .nil => true | _ => false).length
    let nErr := (tab.toList.filter fun r => match r with | .err => true | _ => false).length
    out := out.v cid o.n "C02" "K" (nNil ≤ 1 && nErr ≤ 1) s!"NIL/ERROR in one exemplar nil={nNil} err={nErr}"
    if !wf then return (hs', out)
    -- the input the tree must be a translation of: the tokens themselves, or (after error
    -- recovery) the repaired input read off the model's final parse list
    let toks := if sentence then w ++ [g.eofT] else (rr.pl.drop 1).map fun s => s.term.getD 0
    let posMap : List Int := if sentence then (List.range (n + 1)).map (fun (k : Nat) => Int.ofNat k)
      else (rr.pl.drop 1).map fun s => match s.tok with | some k => Int.ofNat k | none => -1
    let fixAttr := fun (t : Tree) => t.mapAttr fun a => if a ≥ 0 then posMap.getD a.toNat (-7) else a
    if recovered then
      -- C07: the replaced segments contain as many tokens as the callbacks reported ignored
      let kept := ((rr.pl.drop 1).filter fun s => s.tok.isSome).length
      let reported : Int := (ses.map fun ws => toInt (ws.getD 4 "0") - toInt (ws.getD 2 "0")).foldl (· + ·) 0
      out := out.v cid o.n "C07" "K" (reported + Int.ofNat kept == Int.ofNat (n + 1)) s!"ignored reported={reported} tokens kept={kept} of {n + 1}"
    if n ≤ cfg.maxTreeToks then
      let nd := countDerivationsP g toks cfg.derivCap
      let implCount := (countTab tab).getD rootId 0
      if nd > cfg.derivCap || implCount > cfg.derivCap then
        out := out.s cid s!"trees skipped derivations>{cfg.derivCap}"
      else
        let ds := derivationsP g toks
        let trees := ds.map fun d => fixAttr (translate g d)
        let costOn := hs.st.cost != 0
        let oneP := hs.st.one != 0
        let implTrees := (denoteTab tab).getD rootId []
        let implStrs := strSet (implTrees.map Tree.str)
        let distinctNoCost := strSet (trees.map Tree.strNoCost)
        out := out.s cid s!"trees derivations={ds.length} translations={(strSet (trees.map Tree.str)).length} denoted={implStrs.length} alt={hasAlt tab}"
        -- make_parse events (hook): attribute an incomplete forest to the recorded findings
        let mp := (o.first "mpev").getD []
        let evReuse := kvInt mp "reuse"; let evOrig := kvInt mp "origins"
        let evTag := if evReuse > 0 || evOrig > 0 then s!"KF-D9-forest-incomplete(reuse={evReuse},origins={evOrig}) " else ""
        -- C05 (stated for sentences only)
        if sentence then
          if ds.length < 2 then
            out := out.v cid o.n "C05" "K" (amb == 0) s!"derivations={ds.length} amb={amb}"
          else if distinctNoCost.length ≥ 2 then
            out := out.v cid o.n "C05" "K" (amb == 1) s!"distinct translations={distinctNoCost.length} amb={amb}"
          else
            out := out.v cid o.n "C05" "K" (amb == 0 || amb == 1) s!"derivations={ds.length}, one translation amb={amb}"
        let specStrs := strSet (trees.map Tree.str)
        if recovered then
          -- C07: every denoted tree is a translation of a derivation of the repaired input.
          -- D8: the C code takes the attribute of the token at the *list* index
          let d8Attr := fun (t : Tree) => t.mapAttr fun a => if a ≥ 0 && a < n then a else -1
          let listIdxStrs := strSet (ds.map fun d => (d8Attr (translate g d)).str)
          let okSub := !implStrs.isEmpty && implStrs.all (specStrs.contains ·) && (!oneP || (!hasAlt tab && implStrs.length == 1))
          let d8 := !okSub && !implStrs.isEmpty && implStrs.all (listIdxStrs.contains ·)
          let minC := (trees.map Tree.totalCost).foldl min ((trees.map Tree.totalCost).headD 0)
          let bestStrs := strSet ((trees.filter (·.totalCost == minC)).map fun t => t.accum.str)
          let okCost := !implStrs.isEmpty && implStrs.all (bestStrs.contains ·) && (!oneP || (!hasAlt tab && implStrs.length == 1))
          if !costOn then
            out := out.v cid o.n "C07" "K" okSub
              ((if d8 then "attr-by-list-index " else "") ++ s!"tree(s)={implStrs} translations of repaired input {toks}: {specStrs.length}")
          else
            -- with the cost flag the minimum is taken over the all-parses forest, which may be
            -- incomplete (recorded finding D9): tagged only if every result is a genuine translation
            let allAccum := strSet (trees.map fun t => t.accum.str)
            let genuine := !implStrs.isEmpty && implStrs.all (allAccum.contains ·)
            out := out.v cid o.n "C07" "K" okCost
              ((if genuine then evTag else "") ++ s!"tree(s)={implStrs} minimal translations of repaired input {toks}: {bestStrs}")
            -- the cost flag means the same after a recovery: the repaired input is the input (C04)
            out := out.v cid o.n "C04" "K" okCost
              ((if genuine then evTag else "") ++ s!"after recovery: tree(s)={implStrs} minimal translations of repaired input {toks}: {bestStrs}")
        else if !costOn then
          if oneP then
            let okOne := !hasAlt tab && implStrs.length == 1 && implStrs.all (specStrs.contains ·)
            out := out.v cid o.n "C02" "K" okOne s!"tree={implStrs} translations={specStrs.length} input={toks}"
          else
            let missing := specStrs.filter (!implStrs.contains ·)
            let spurious := implStrs.filter (!specStrs.contains ·)
            out := out.v cid o.n "C03" "K" (missing.isEmpty && spurious.isEmpty)
              (if missing.isEmpty && spurious.isEmpty then s!"set equal size={specStrs.length}"
               else (if spurious.isEmpty then evTag else "") ++ s!"missing={missing} spurious={spurious}")
        else
          -- C04: minimal cost translations with accumulated cost fields
          let minC := (trees.map Tree.totalCost).foldl min ((trees.map Tree.totalCost).headD 0)
          let allAccum := strSet (trees.map fun t => t.accum.str)
          let best := strSet ((trees.filter (·.totalCost == minC)).map fun t => t.accum.str)
          -- when the forest was built incompletely (recorded finding) the pruning can only
          -- minimise over what is there: every result must still be a real translation with
          -- correct fields
          let genuine := !implStrs.isEmpty && implStrs.all (allAccum.contains ·)
          if oneP then
            -- C02 also under the cost flag: the single tree is the translation of a derivation
            let noCostImpl := strSet (implTrees.map Tree.strNoCost)
            out := out.v cid o.n "C02" "K" (!hasAlt tab && noCostImpl.length == 1 && noCostImpl.all (distinctNoCost.contains ·))
              s!"cost flag: tree={noCostImpl} translations={distinctNoCost.length}"
            let okOne := !hasAlt tab && implStrs.length == 1 && implStrs.all (best.contains ·)
            out := out.v cid o.n "C04" "K" okOne
              ((if genuine && !hasAlt tab && implStrs.length == 1 then evTag else "") ++ s!"tree={implStrs} minimal({minC})={best}")
          else
            out := out.v cid o.n "C04" "K" (implStrs == best)
              (if implStrs == best then s!"set equal size={best.length} min={minC}"
               else (if genuine then evTag else "") ++ s!"min={minC} missing={best.filter (!implStrs.contains ·)} spurious={implStrs.filter (!best.contains ·)}")
    else
      out := out.s cid "trees skipped long"
  -- C13: caller-side memory discipline as seen by the harness
  if ak == "user" then
    let mem := (o.first "mem").getD []
    let bad := kvInt mem "bad"
    let nbadev := (o.get "ev").filter fun ws => ws.headD "" == "fbad"
    out := out.v cid o.n "C13" "K" (bad == 0 && nbadev.isEmpty && (o.get "reachbad").isEmpty)
      s!"bad frees={bad} reachbad={(o.get "reachbad").length}"
  return (hs', out)

end Yaep.Driver
