import Yaep.Model.Basic
/-!
# Parse trees, the documented syntax-directed translation, and the enumerator of all
derivations of an input (the specification side of C02–C05, C07)
-/
namespace Yaep

/-- translation trees as the caller sees them (`struct yaep_tree_node` without ALT) -/
inductive Tree where
  | nil
  | error
  | term (code : Int) (attr : Int)
  | anode (name : String) (cost : Nat) (kids : List Tree)
deriving Repr, Inhabited

/-- parse trees (derivations): `leaf a pos` = terminal number `a` at token position `pos` -/
inductive PT where
  | leaf (a : Nat) (pos : Nat)
  | node (r : Nat) (kids : List PT)
deriving Repr, Inhabited

mutual
  def Tree.str : Tree → String
    | .nil => "nil"
    | .error => "err"
    | .term c a => s!"t{c}@{a}"
    | .anode n c ks => s!"{n}:{c}(" ++ Tree.strList ks ++ ")"
  def Tree.strList : List Tree → String
    | [] => ""
    | [t] => t.str
    | t :: ts => t.str ++ " " ++ Tree.strList ts
end

mutual
  /-- canonical form without the cost fields -/
  def Tree.strNoCost : Tree → String
    | .nil => "nil"
    | .error => "err"
    | .term c a => s!"t{c}@{a}"
    | .anode n _ ks => s!"{n}(" ++ Tree.strNoCostList ks ++ ")"
  def Tree.strNoCostList : List Tree → String
    | [] => ""
    | [t] => t.strNoCost
    | t :: ts => t.strNoCost ++ " " ++ Tree.strNoCostList ts
end

mutual
  def PT.str : PT → String
    | .leaf a p => s!"{a}@{p}"
    | .node r ks => s!"r{r}(" ++ PT.strList ks ++ ")"
  def PT.strList : List PT → String
    | [] => ""
    | t :: ts => t.str ++ " " ++ PT.strList ts
end

mutual
  /-- total cost: sum of the (own) costs of the abstract nodes -/
  def Tree.totalCost : Tree → Nat
    | .anode _ c ks => c + Tree.totalCostList ks
    | _ => 0
  def Tree.totalCostList : List Tree → Nat
    | [] => 0
    | t :: ts => t.totalCost + Tree.totalCostList ts
end

/-- the slot list of an abstract node: slot `s` holds the translation of the right-hand-side
position `p` with `order[p] = some s`, NIL where no position maps to it -/
def fillSlots (order : List (Option Nat)) (kids : List Tree) (len : Nat) : List Tree :=
  (List.range len).map fun s =>
    match (List.range order.length).find? (fun p => order.getD p none == some s) with
    | some p => kids.getD p .nil
    | none => .nil

/-- translation of one rule application given the translations of its right-hand side -/
def translateRule (rl : Rule) (kids : List Tree) : Tree :=
  match rl.anode with
  | some name => .anode name rl.cost (fillSlots rl.order kids rl.transLen)
  | none =>
    match (List.range rl.order.length).find? (fun p => (rl.order.getD p none).isSome) with
    | some p => kids.getD p .nil
    | none => .nil

mutual
  /-- the documented syntax-directed translation of a derivation -/
  def translate (g : Grammar) : PT → Tree
    | .leaf a pos => if a = g.errT then .error else .term (g.termCodes.getD a 0) pos
    | .node r kids =>
      match g.rules[r]? with
      | some rl => translateRule rl (translateList g kids)
      | none => .nil
  def translateList (g : Grammar) : List PT → List Tree
    | [] => []
    | k :: ks => translate g k :: translateList g ks
end

/-- all ways to derive `toks[i, j)` from a symbol string, given the enumerator for single
symbols -/
def derivSeq (symF : Sym → Nat → Nat → List PT) : List Sym → Nat → Nat → List (List PT)
  | [], i, j => if i = j then [[]] else []
  | X :: rest, i, j =>
    (List.range (j + 1 - i)).flatMap fun d =>
      let m := i + d
      let firsts := symF X i m
      if firsts.isEmpty then [] else
        let rests := derivSeq symF rest m j
        firsts.flatMap fun a => rests.map fun b => a :: b

/-- all derivations of `toks[i, j)` from symbol `X` of nesting depth `≤ fuel` -/
def derivSym (g : Grammar) (toks : List Nat) : Nat → Sym → Nat → Nat → List PT
  | _, .t a, i, j => if j = i + 1 ∧ toks[i]? = some a then [.leaf a i] else []
  | 0, .n _, _, _ => []
  | fuel + 1, .n A, i, j =>
    (g.rulesFor A).flatMap fun r =>
      match g.rules[r]? with
      | some rl => (derivSeq (derivSym g toks fuel) rl.rhs i j).map fun kids => PT.node r kids
      | none => []

/-- depth that suffices for a grammar without loops (see `depth_bound`) -/
def Grammar.derivFuel (g : Grammar) (n : Nat) : Nat := (g.nN + 1) * (n + 2)

/-- all derivations of the token list (terminal numbers, *including* the end marker) from
the axiom `$S` -/
def derivations (g : Grammar) (toks : List Nat) : List PT :=
  derivSym g toks (g.derivFuel toks.length) (.n g.axiomN) 0 toks.length

end Yaep

namespace Yaep

/-- number of derivations, saturating at `cap + 1` (same recursion as `derivSeq`/`derivSym`,
used to decide whether the enumeration is affordable) -/
def countSeq (cap : Nat) (symF : Sym → Nat → Nat → Nat) : List Sym → Nat → Nat → Nat
  | [], i, j => if i = j then 1 else 0
  | X :: rest, i, j =>
    (List.range (j + 1 - i)).foldl (fun acc d =>
      if acc > cap then acc else
      let m := i + d
      let a := symF X i m
      if a = 0 then acc else min (cap + 1) (acc + a * countSeq cap symF rest m j)) 0

def countSym (g : Grammar) (toks : List Nat) (cap : Nat) : Nat → Sym → Nat → Nat → Nat
  | _, .t a, i, j => if j = i + 1 ∧ toks[i]? = some a then 1 else 0
  | 0, .n _, _, _ => 0
  | fuel + 1, .n A, i, j =>
    (g.rulesFor A).foldl (fun acc r =>
      if acc > cap then acc else
      match g.rules[r]? with
      | some rl => min (cap + 1) (acc + countSeq cap (countSym g toks cap fuel) rl.rhs i j)
      | none => acc) 0

def countDerivations (g : Grammar) (toks : List Nat) (cap : Nat) : Nat :=
  countSym g toks cap (g.derivFuel toks.length) (.n g.axiomN) 0 toks.length

mutual
  /-- the tree the cost flag produces: every abstract node's field is its own cost plus the
  fields of its children -/
  def Tree.accum : Tree → Tree
    | .anode n c ks => let ks' := Tree.accumList ks; .anode n (c + Tree.fieldSum ks') ks'
    | t => t
  def Tree.accumList : List Tree → List Tree
    | [] => []
    | t :: ts => t.accum :: Tree.accumList ts
  def Tree.fieldSum : List Tree → Nat
    | [] => 0
    | .anode _ c _ :: ts => c + Tree.fieldSum ts
    | _ :: ts => Tree.fieldSum ts
end

end Yaep

namespace Yaep
mutual
  /-- rename the attributes (token positions) of the TERM leaves -/
  def Tree.mapAttr (f : Int → Int) : Tree → Tree
    | .term c a => .term c (f a)
    | .anode n c ks => .anode n c (Tree.mapAttrList f ks)
    | t => t
  def Tree.mapAttrList (f : Int → Int) : List Tree → List Tree
    | [] => []
    | t :: ts => t.mapAttr f :: Tree.mapAttrList f ts
end
end Yaep
