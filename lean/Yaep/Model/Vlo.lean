import Yaep.Model.ObjStack
/-!
# Model of `vlobject.h` / `vlobject.c` / `vlobject.cpp` (property C19)

One memory block (`vlo_start … vlo_boundary`), `len = vlo_free - vlo_start`,
`cap = vlo_boundary - vlo_start`.  `realloc` is modelled as a move into fresh memory that keeps
the first `min (old cap, new cap)` bytes and leaves the rest unspecified (`none`), so nothing
in the model depends on whether the block really moves.
-/
namespace Yaep.Model.Vlo
open Yaep.Model.ObjStack (Mem Mem.get tabulate emptyMem writeAt havoc readMem)

/-- `VLO_DEFAULT_LENGTH` -/
def defaultLength : Nat := 512

structure Vlo where
  mem : Mem
  /-- `VLO_LENGTH` -/
  len : Nat
  /-- allocated bytes (internal) -/
  cap : Nat

/-- `VLO_CREATE` -/
def create (initialLength : Nat) : Vlo :=
  ⟨emptyMem, 0, if initialLength = 0 then defaultLength else initialLength⟩

/-- `realloc (vlo_start, newCap)` -/
def realloc (v : Vlo) (newCap : Nat) : Vlo :=
  { v with mem := tabulate (min v.cap newCap) (fun i => v.mem.get i), cap := newCap }

/-- `_VLO_expand_memory (vlo, additional_length)` -/
def expandMemory (v : Vlo) (add : Nat) : Vlo :=
  let l := v.len + add
  realloc v (l + (l / 2 + 1))

/-- `VLO_ADD_MEMORY` -/
def add (v : Vlo) (bs : List Nat) : Vlo :=
  let v1 := if v.len + bs.length > v.cap then expandMemory v bs.length else v
  { v1 with mem := writeAt v1.mem v1.len bs, len := v1.len + bs.length }

/-- `VLO_EXPAND` -/
def expand (v : Vlo) (n : Nat) : Vlo :=
  let v1 := if v.len + n > v.cap then expandMemory v n else v
  { v1 with mem := havoc v1.mem v1.len n, len := v1.len + n }

/-- `VLO_SHORTEN` -/
def shorten (v : Vlo) (n : Nat) : Vlo :=
  if v.len < n then { v with len := 0 } else { v with len := v.len - n }

/-- `VLO_NULLIFY` -/
def nullify (v : Vlo) : Vlo := { v with len := 0 }

/-- `VLO_TAILOR` -/
def tailor (v : Vlo) : Vlo := realloc v (if v.len = 0 then 1 else v.len)

/-- `VLO_BEGIN … VLO_BOUND` -/
def Vlo.contents (v : Vlo) : List (Option Nat) := readMem v.mem 0 v.len

inductive Op where
  | add (bs : List Nat)
  | expand (n : Nat)
  | shorten (n : Nat)
  | nullify
  | tailor
  | get     -- observation only

def stepOp (v : Vlo) : Op → Vlo
  | .add bs => add v bs
  | .expand n => expand v n
  | .shorten n => shorten v n
  | .nullify => nullify v
  | .tailor => tailor v
  | .get => v

def run (v : Vlo) (ops : List Op) : Vlo := ops.foldl stepOp v

end Yaep.Model.Vlo
