import Yaep.Model.Forest
/-!
# `make_parse` of `src/yaep.c`, step for step (cost flag off)

The C routine walks the finished Earley parse list from the end to the beginning with an
explicit stack of *parse states* and builds the translation (one tree, or the all-parses DAG
with ALT nodes) in place.  This file is an executable transcription of that routine as a
pure function on explicit heaps.  Nothing is "improved": the recorded finding D9 (forest
incomplete) is a property of this algorithm and the model reproduces it.

## Map from the C code to this file

| C (`src/yaep.c`)                                             | here |
|---|---|
| `pl[j]`, `set->core->sits[i]`, `set->dists`, `parent_indexes`: situation `i` of set `j` as `(rule, pos, origin)` — exactly what the hook `yaep_verif_dump_pl` prints, in the order of the core | `Ctx.sets : Array (Array Item)` |
| `core_symb_vect_find (core, symb)->transitions` — `expand_new_start_set` appends index `i` for every situation `i = 0, 1, …` with `symb` after the dot (`core_symb_vect_new_add_transition_el`); `TRANSITIVE_TRANSITION` is off | `transitions` |
| `…->reduces` — second loop of `expand_new_start_set`: index `i` for every situation with the dot at the end and `lhs = symb`, increasing `i` (`core_symb_vect_new_add_reduce_el`) | `reduces` |
| `pl_toks[j]` (token number of list element `j`, `-1` for `error` shifts) | `Ctx.plToks` |
| `struct yaep_tree_node` allocated with `parse_alloc` | `MNode`, `St.heap` (index = address) |
| `empty_node`, `error_node`, `root_anode` (`children = &result`) | heap cells `nilId = 0`, `errId = 1`, `rootId = 2` (an abstract node with the single slot `result`) |
| `struct parse_state`, `parse_state_alloc` | `PState`, `St.states` (index = address).  The free list of `parse_state_free` is not modelled: a state is only referred to (as `parent_anode_state`, in `orig_states`) while it is on the stack below the referring state, so reuse of freed cells is unobservable; table copies are never freed |
| `root_state` | state `0` (`anode = rootId`) |
| `VLO stack`, variable `state` (always the top) | `St.stack` (head = top) |
| `parse_state_tab`, `parse_state_hash/eq` (key `rule, orig, pl_ind`; only `anode` of the stored copy is ever read), `parse_state_insert` | `St.table` (bucket per `pl_ind`, entries `(rule, orig, anode)`), `tableFind` |
| `term_node_array[tok]` | `St.termNodes` |
| `orig_states` (VLO, searched from the end) | argument `os` of `candLoop` (most recent first) |
| `place_translation` | `placeTranslation` (ALT cell allocated first, then the cell for the first alternative) |
| `copy_anode` | `copyAnode` |
| main `while (VLO_LENGTH (stack) != 0)` | `run` (fuel) over `step` |
| `pos = --state->pos; … if (pos < 0)` branch (pop, NIL for an empty translation, final `NULL → empty_node` pass over the children of the finished abstract node) | `step`, first branch (`pos` is a `Nat` here: the test is made before the decrement; the C code reads `rule->order[-1]` before the test and never uses the value) |
| `Terminal before dot` | `stepTerm` |
| `Nonterminal before dot`: `for (i …reduces…)`, `sit_orig`, check loop over `transitions` of `pl[sit_orig]`, `n_candidates`, `*ambiguous_p`, `break` for one parse, `orig_state->pl_ind = sit_orig`, copies for other origins, abstract node creation / reuse, push of a state for a rule without abstract node, NIL for an empty rule | `candLoop`, `candidate` |
| hook counters `yaep_verif_n_reuse`, `yaep_verif_n_untranslated_origins` (`mpev` line) | `St.reuse`, `St.origins` |
| `empty_node->val.nil.used`, `error_node->val.error.used` | `St.nilUsed`, `St.errUsed` |
| `sit_rule->caller_anode` (name block, allocated once per rule and parse right after the first abstract node of the rule) | `St.namedRules`, `St.nameAfter` |
| the sequence of `(*parse_alloc)` calls, the `parse_free` calls for an unused NIL / ERROR node | `allocSeq` (cells in address order), `Result.frees` |
| harness `export_node` (`harness/yh.c`) | `exportNode`, `exportTable`, `renderTable` |

A dereference the C code would perform on a NULL pointer or outside an array (possible only
for a parse list that `build_pl` cannot produce) sets `St.bad`; the judge reports it instead
of a verdict.
-/
namespace Yaep.MP
open Yaep

/-- a cell of the tree memory.  `anode` carries `trans_len + 1` child slots (`none` = NULL),
`alt` is one link of an alternative chain. -/
inductive MNode where
  | nil
  | err
  | term (code : Int) (attr : Int)
  | anode (name : String) (cost : Nat) (kids : Array (Option Nat))
  | alt (node : Nat) (next : Option Nat)
deriving Repr, Inhabited

/-- `struct parse_state` -/
structure PState where
  rule : Nat := 0
  pos : Nat := 0
  orig : Nat := 0
  plInd : Nat := 0
  parent : Nat := 0          -- `parent_anode_state` (index into `St.states`)
  parentDisp : Nat := 0
  anode : Option Nat := none
deriving Repr, Inhabited

structure Ctx where
  rules : Array Rule
  termCodes : Array Int
  errT : Nat
  axiomN : Nat
  sets : Array (Array Item)
  plToks : Array Int
  oneParse : Bool
deriving Inhabited

structure St where
  heap : Array MNode
  states : Array PState
  stack : List Nat
  table : Array (List (Nat × Nat × Nat))
  termNodes : Array (Option Nat)
  amb : Bool := false
  nilUsed : Bool := false
  errUsed : Bool := false
  reuse : Nat := 0
  origins : Nat := 0
  bad : Bool := false
  namedRules : List Nat := []     -- rules whose `caller_anode` is set
  nameAfter : List Nat := []      -- cells after which a name block was allocated
deriving Inhabited

def nilId : Nat := 0
def errId : Nat := 1
def rootId : Nat := 2

def Ctx.rule (c : Ctx) (r : Nat) : Rule := c.rules.getD r default

/-- symbol after the dot of a situation -/
def Ctx.after (c : Ctx) (it : Item) : Option Sym := (c.rule it.rule).rhs[it.dot]?

/-- `transitions` vector of `(core of the set, X)`: increasing situation indices -/
def transitions (c : Ctx) (set : Array Item) (X : Sym) : List Nat :=
  (List.range set.size).filter fun i => c.after (set.getD i default) == some X

/-- `reduces` vector of `(core of the set, A)`: increasing situation indices -/
def reduces (c : Ctx) (set : Array Item) (A : Nat) : List Nat :=
  (List.range set.size).filter fun i =>
    let it := set.getD i default
    let rl := c.rule it.rule
    it.dot == rl.rhs.length && rl.lhs == A

/-! ## tree memory -/

def getKid (h : Array MNode) (n i : Nat) : Option Nat :=
  match h.getD n .nil with
  | .anode _ _ ks => ks.getD i none
  | _ => none

def setKid (h : Array MNode) (n i : Nat) (v : Option Nat) : Array MNode :=
  match h.getD n .nil with
  | .anode nm c ks => h.set! n (.anode nm c (ks.set! i v))
  | _ => h

def isAlt (h : Array MNode) (n : Nat) : Bool :=
  match h.getD n .nil with
  | .alt _ _ => true
  | _ => false

/-- `place_translation (place, node)`; a place is (abstract node, slot) -/
def placeTranslation (h : Array MNode) (place : Nat × Nat) (node : Nat) : Array MNode :=
  match getKid h place.1 place.2 with
  | none => setKid h place.1 place.2 (some node)
  | some old =>
    let altId := h.size
    if isAlt h old then
      setKid (h.push (.alt node (some old))) place.1 place.2 (some altId)
    else
      -- an alternative node for the first alternative too
      let h := h.push (.alt node (some (altId + 1)))
      let h := h.push (.alt old none)
      setKid h place.1 place.2 (some altId)

/-- `copy_anode (place, anode, rule, disp)`: returns the heap and the address of the copy -/
def copyAnode (h : Array MNode) (place : Nat × Nat) (anode : Nat) (disp : Nat) : Array MNode × Nat :=
  let node := h.size
  let cell := match h.getD anode .nil with
    | .anode nm c ks => MNode.anode nm c (ks.set! disp none)
    | m => m
  (placeTranslation (h.push cell) place node, node)

/-! ## the parse state table (all parses only) -/

def tableFind (t : Array (List (Nat × Nat × Nat))) (rule orig plInd : Nat) : Option Nat :=
  ((t.getD plInd []).find? fun e => e.1 == rule && e.2.1 == orig).map (·.2.2)

def tableInsert (t : Array (List (Nat × Nat × Nat))) (rule orig plInd node : Nat) :
    Array (List (Nat × Nat × Nat)) :=
  if plInd < t.size then t.set! plInd ((rule, orig, node) :: t.getD plInd []) else t

/-! ## the main loop -/

def St.state (s : St) (sid : Nat) : PState := s.states.getD sid default

def St.setState (s : St) (sid : Nat) (p : PState) : St := { s with states := s.states.set! sid p }

/-- `parse_state_alloc` + `VLO_EXPAND (stack)`: a new state on top of the stack -/
def St.push (s : St) (p : PState) : St × Nat :=
  let sid := s.states.size
  ({ s with states := s.states.push p, stack := sid :: s.stack }, sid)

def St.place (s : St) (place : Nat × Nat) (node : Nat) : St :=
  { s with heap := placeTranslation s.heap place node,
           nilUsed := s.nilUsed || node == nilId, errUsed := s.errUsed || node == errId }

/-- what is fixed while the reduces of one nonterminal occurrence are tried (the local
variables of `make_parse` that do not change in the `for` loop) -/
structure Loc where
  origSid : Nat              -- `orig_state`
  rule : Nat                 -- `rule` (number)
  pos : Nat                  -- `pos`
  disp : Option Nat          -- `disp = rule->order[pos]` (`none` = negative)
  plInd : Nat                -- `pl_ind`
  orig : Nat                 -- `orig`
  parentAnode : Option Nat   -- `parent_anode`
  parentDisp : Nat           -- `parent_disp`
  A : Nat                    -- `symb`
deriving Inhabited

/-- the check loop over `transitions` of `pl[sit_orig]`: is there a situation
`(rule, pos)` with origin `orig` waiting for `symb`? -/
def checkFound (c : Ctx) (L : Loc) (sitOrig : Nat) : Bool :=
  let cset := c.sets.getD sitOrig #[]
  (transitions c cset (.n L.A)).any fun ci =>
    let cs := cset.getD ci default
    cs.rule == L.rule && cs.dot == L.pos && cs.origin == L.orig

/-- body of the `for` loop for a candidate that passed the check (`found`), after the
ambiguity bookkeeping.  Returns the new `orig_states`. -/
def candidate (c : Ctx) (L : Loc) (sit : Item) (nCand : Nat) (os : List Nat) (s : St) :
    St × List Nat :=
  let sitOrig := sit.origin
  let sitRule := c.rule sit.rule
  let needTr := L.parentAnode.isSome && L.disp.isSome
  -- hook: YAEP_VERIF counter of untranslated symbols with several origins
  let s := if nCand != 0 && !needTr && (s.state L.origSid).plInd != sitOrig
           then { s with origins := s.origins + 1 } else s
  let s := if nCand == 0 then s.setState L.origSid { s.state L.origSid with plInd := sitOrig } else s
  match L.parentAnode, L.disp with
  | some parentAnode, some disp =>
    let parentPlace := (parentAnode, L.parentDisp)
    -- curr_state = orig_state; anode = orig_state->anode;
    let origSt := s.state L.origSid
    let (s, os, currSid, anode) : St × List Nat × Nat × Option Nat :=
      if nCand != 0 then
        let os := if nCand == 1 then L.origSid :: os else os
        match os.find? fun sid => (s.state sid).plInd == sitOrig with
        | some sid => (s, os, sid, (s.state sid).anode)      -- [A -> x., n] & [A -> y., n]
        | none =>
          -- [A -> x., n] & [A -> y., m], n != m: a copy of the state for the other origin
          let (s, anode') : St × Option Nat :=
            match origSt.anode with
            | some a =>
              let (h, cp) := copyAnode s.heap parentPlace a disp
              ({ s with heap := h }, some cp)
            | none => (s, none)
          let (s, sid) := s.push { origSt with plInd := sitOrig, anode := anode' }
          (s, sid :: os, sid, anode')
      else (s, os, L.origSid, origSt.anode)
    let place : Nat × Nat := match anode with
      | none => parentPlace
      | some a => (a, disp)
    let childParent : Nat := match anode with
      | none => (s.state currSid).parent
      | some _ => currSid
    let childDisp : Nat := match anode with
      | none => L.parentDisp
      | some _ => disp
    match sitRule.anode with
    | some name =>
      -- this rule creates an abstract node
      let found : Option Nat := if c.oneParse then none else tableFind s.table sit.rule sitOrig L.plInd
      match found with
      | none =>
        let node := s.heap.size
        let s := { s with heap := s.heap.push (.anode name sitRule.cost (Array.replicate (sitRule.transLen + 1) none)),
                          table := if c.oneParse then s.table else tableInsert s.table sit.rule sitOrig L.plInd node }
        -- `if (sit_rule->caller_anode == NULL)`: the name block of the rule, once per parse
        let s := if s.namedRules.contains sit.rule then s
                 else { s with namedRules := sit.rule :: s.namedRules, nameAfter := node :: s.nameAfter }
        let (s, _) := s.push { rule := sit.rule, pos := sit.dot, orig := sitOrig, plInd := L.plInd,
                               parent := childParent, parentDisp := childDisp, anode := some node }
        (s.place place node, os)
      | some node =>
        -- we already have the translation
        ({ s with reuse := s.reuse + 1 }.place place node, os)
    | none =>
      if sit.dot != 0 then
        let (s, _) := s.push { rule := sit.rule, pos := sit.dot, orig := sitOrig, plInd := L.plInd,
                               parent := childParent, parentDisp := childDisp, anode := none }
        (s, os)
      else
        -- empty rule without abstract node: the empty node
        (s.place place nilId, os)
  | _, _ => (s, os)

/-- `for (i = 0; i < core_symb_vect->reduces.len; i++)` -/
def candLoop (c : Ctx) (L : Loc) (set : Array Item) : List Nat → Nat → List Nat → St → St × Nat
  | [], nCand, _, s => (s, nCand)
  | i :: rest, nCand, os, s =>
    let sit := set.getD i default
    if !checkFound c L sit.origin then candLoop c L set rest nCand os s
    else
      let s := if nCand != 0 then { s with amb := true } else s
      if nCand != 0 && c.oneParse then (s, nCand)      -- break
      else
        let (s, os) := candidate c L sit nCand os s
        candLoop c L set rest (nCand + 1) os s

/-- `Terminal before dot` -/
def stepTerm (c : Ctx) (sid : Nat) (st : PState) (pos : Nat) (disp : Option Nat) (a : Nat)
    (parentAnode : Option Nat) (s : St) : St :=
  let bad := st.plInd == 0
  let plInd := st.plInd - 1
  let s := { s with bad := s.bad || bad }
  let s : St :=
    match parentAnode, disp with
    | some pa, some d =>
      let place : Nat × Nat := match st.anode with
        | some an => (an, d)
        | none => (pa, st.parentDisp)
      if a == c.errT then s.place place errId
      else
        let tok := c.plToks.getD (plInd + 1) (-1)
        let known : Option Nat := if c.oneParse then none else s.termNodes.getD tok.toNat none
        match known with
        | some node => s.place place node
        | none =>
          let node := s.heap.size
          let s := { s with heap := s.heap.push (.term (c.termCodes.getD a 0) tok),
                            bad := s.bad || tok < 0 || (!c.oneParse && tok.toNat ≥ s.termNodes.size),
                            termNodes := if c.oneParse then s.termNodes else s.termNodes.set! tok.toNat (some node) }
          s.place place node
    | _, _ => s
  s.setState sid { st with pos := pos, plInd := if pos != 0 then plInd else st.plInd }

/-- one iteration of `while (VLO_LENGTH (stack) != 0)` -/
def step (c : Ctx) (s : St) : St :=
  match s.stack with
  | [] => s
  | sid :: rest =>
    let st := s.state sid
    let rl := c.rule st.rule
    let parentAnode := (s.state st.parent).anode
    if st.pos == 0 then
      -- we have processed the whole right-hand side: pop
      let s := { s with stack := rest }
      match st.anode with
      | none =>
        match parentAnode with
        | some pa => if rl.transLen == 0 then s.place (pa, st.parentDisp) nilId else s
        | none => s
      | some an =>
        -- change NULLs into empty nodes
        (List.range rl.transLen).foldl (fun s i =>
          if (getKid s.heap an i).isNone then
            { s with heap := setKid s.heap an i (some nilId), nilUsed := true }
          else s) s
    else
      let pos := st.pos - 1
      let disp := rl.order.getD pos none
      match rl.rhs.getD pos (.t 0) with
      | .t a => stepTerm c sid st pos disp a parentAnode s
      | .n A =>
        let s := s.setState sid { st with pos := pos }
        let L : Loc := { origSid := sid, rule := st.rule, pos := pos, disp := disp, plInd := st.plInd,
                         orig := st.orig, parentAnode := parentAnode, parentDisp := st.parentDisp, A := A }
        let set := c.sets.getD st.plInd #[]
        let (s, nCand) := candLoop c L set (reduces c set A) 0 [] s
        -- `assert (n_candidates != 0 …)`
        if nCand == 0 then { s with bad := true } else s

/-- the main loop; `none` = out of fuel -/
def run (c : Ctx) : Nat → St → Option St
  | 0, s => if s.stack.isEmpty then some s else none
  | fuel + 1, s => if s.stack.isEmpty then some s else run c fuel (step c s)

/-- state before the loop: `$S : start $eof .` with origin 0 in the last set, translation
into `result`; `none` when the first situation of the last set is not that one (`make_parse`
returns NULL) -/
def init (c : Ctx) : Option St :=
  let plCurr := c.sets.size - 1
  let last := c.sets.getD plCurr #[]
  match last[0]? with
  | none => none
  | some sit =>
    let rl := c.rule sit.rule
    if sit.origin != 0 || rl.lhs != c.axiomN || sit.dot != rl.rhs.length then none
    else
      some {
        heap := #[.nil, .err, .anode "$result" 0 #[none]]
        states := #[{ anode := some rootId },
                    { rule := sit.rule, pos := sit.dot, orig := 0, plInd := plCurr, parent := 0,
                      parentDisp := 0, anode := none }]
        stack := [1]
        table := Array.replicate c.sets.size []
        -- `toks_len` cells; only the token numbers of `pl_toks` are ever used as indices
        termNodes := Array.replicate ((c.plToks.foldl max 0).toNat + 1) none }

/-- `make_parse` with the cost flag off: final machine state (`result` is slot 0 of cell
`rootId`) -/
def makeParseSt (c : Ctx) (fuel : Nat) : Option St :=
  match init c with
  | none => none
  | some s => run c fuel s

def St.result (s : St) : Option Nat := getKid s.heap rootId 0

/-! ## export, as the harness does it (`export_node`) -/

structure ExSt where
  ids : Array (Option Nat)       -- exported number of a finished cell
  visiting : Array Bool
  out : Array NodeRec := #[]
  cycle : Bool := false
deriving Inhabited

/-- the cells of an ALT chain starting at `n` -/
def altChain (h : Array MNode) : Nat → Option Nat → List Nat
  | 0, _ => []
  | _, none => []
  | fuel + 1, some n =>
    match h.getD n .nil with
    | .alt node next => node :: altChain h fuel next
    | _ => []

/-- the cells `export_node` visits before it numbers cell `n`: the children of an abstract
node up to the first NULL (`for (k = 0; children[k] != NULL; k++)`), the alternatives of the
whole chain for an ALT cell -/
def cellKids (h : Array MNode) (n : Nat) : List Nat :=
  match h.getD n .nil with
  | .anode _ _ ks => (ks.toList.takeWhile Option.isSome).filterMap id
  | .alt _ _ => altChain h (h.size + 1) (some n)
  | _ => []

/-- the line printed for cell `n` once its children have the numbers `ids` -/
def cellRec (h : Array MNode) (n : Nat) (ids : List Nat) : NodeRec :=
  match h.getD n .nil with
  | .nil => .nil
  | .err => .err
  | .term cd a => .term cd a
  | .anode nm cost _ => .anode nm cost ids
  | .alt _ _ => .alt ids

/-- export the cells `ks` one after the other with `f`, collecting their numbers -/
def exportKids (f : ExSt → Nat → ExSt × Nat) : List Nat → ExSt → List Nat → ExSt × List Nat
  | [], ex, acc => (ex, acc)
  | k :: ks, ex, acc =>
    let p := f ex k
    exportKids f ks p.1 (acc ++ [p.2])

/-- depth-first, children before the node, every cell once (`e->state`: 0 = `ids` and
`visiting` unset, 1 = `visiting`, 2 = `ids` set; meeting a cell in state 1 is a cycle) -/
def exportNode (h : Array MNode) : Nat → ExSt → Nat → ExSt × Nat
  | 0, ex, _ => ({ ex with cycle := true }, 0)
  | fuel + 1, ex, n =>
    match ex.ids.getD n none with
    | some id => (ex, id)
    | none =>
      if ex.visiting.getD n false then ({ ex with cycle := true }, 0)
      else
        let p := exportKids (exportNode h fuel) (cellKids h n) { ex with visiting := ex.visiting.set! n true } []
        let my := p.1.out.size
        ({ p.1 with out := p.1.out.push (cellRec h n p.2), ids := p.1.ids.set! n (some my) }, my)

/-- node table and root number as the harness prints them; `none` on a cycle -/
def exportTable (h : Array MNode) (root : Nat) : Option (Array NodeRec × Nat) :=
  let (ex, r) := exportNode h (h.size + 1) { ids := Array.replicate h.size none, visiting := Array.replicate h.size false } root
  if ex.cycle then none else some (ex.out, r)

def renderRec (i : Nat) : NodeRec → String
  | .nil => s!"node {i} nil"
  | .err => s!"node {i} err"
  | .term c a => s!"node {i} term {c} {a}"
  | .anode nm c ks => s!"node {i} anode {nm} {c}" ++ String.join (ks.map fun k => s!" {k}")
  | .alt as => s!"node {i} alt" ++ String.join (as.map fun k => s!" {k}")
  | .bad => s!"node {i} bad"

/-- the `node …` lines followed by the `root …` line -/
def renderTable (tab : Array NodeRec) (root : Nat) : List String :=
  (tab.toList.zipIdx.map fun (r, i) => renderRec i r) ++ [s!"root {root}"]

/-! ## entry point -/

/-- one `(*parse_alloc) (size)` request: a node, an abstract node with `slots` child
pointers (`trans_len + 1`), a name block of `bytes + 2` bytes -/
inductive AllocReq where
  | node
  | anode (slots : Nat)
  | name (bytes : Nat)
deriving Repr, Inhabited, DecidableEq

/-- all requests of `make_parse` in order: the cells in address order (`root_anode` lives on the
C stack), a name block right after the first abstract node of its rule -/
def allocSeq (s : St) : List AllocReq :=
  (List.range s.heap.size).flatMap fun i =>
    if i == rootId then [] else
    match s.heap.getD i .nil with
    | .anode nm _ ks =>
      AllocReq.anode ks.size :: (if s.nameAfter.contains i then [AllocReq.name (if nm == "@empty" then 0 else nm.utf8ByteSize)] else [])
    | _ => [AllocReq.node]

structure Result where
  amb : Bool
  tab : Array NodeRec
  root : Nat
  reuse : Nat
  origins : Nat
  nilUsed : Bool
  errUsed : Bool
  heapSize : Nat
  allocs : List AllocReq := []
deriving Repr, Inhabited

inductive Outcome where
  | ok (r : Result)
  | noParse            -- `make_parse` returns NULL
  | outOfFuel
  | undefinedBehaviour -- the C code would dereference NULL / index out of bounds / fail an assertion
  | cyclic
deriving Repr, Inhabited

def mkCtx (g : Grammar) (sets : Array (Array Item)) (plToks : Array Int) (oneParse : Bool) : Ctx :=
  { rules := g.rules.toArray, termCodes := g.termCodes.toArray, errT := g.errT, axiomN := g.axiomN, sets := sets,
    plToks := plToks, oneParse := oneParse }

/-- a bound on the number of iterations that is generous for every parse list the judge
looks at (every iteration moves one dot or pops one state) -/
def defaultFuel (c : Ctx) : Nat :=
  let items := c.sets.foldl (fun n s => n + s.size) 0
  200000 + 64 * items * (c.sets.size + 1)

def makeParse (g : Grammar) (sets : Array (Array Item)) (plToks : Array Int) (oneParse : Bool)
    (fuel : Nat) : Outcome :=
  let c := mkCtx g sets plToks oneParse
  match init c with
  | none => .noParse
  | some s0 =>
    match run c fuel s0 with
    | none => .outOfFuel
    | some s =>
      if s.bad then .undefinedBehaviour else
      match s.result with
      | none => .undefinedBehaviour        -- `assert (result != NULL)`
      | some r =>
        match exportTable s.heap r with
        | none => .cyclic
        | some (tab, root) =>
          .ok { amb := s.amb, tab := tab, root := root, reuse := s.reuse, origins := s.origins,
                nilUsed := s.nilUsed, errUsed := s.errUsed, heapSize := s.heap.size, allocs := allocSeq s }

end Yaep.MP
