/-!
# Inflationary iteration

`saturate f fuel s` repeatedly adds to the duplicate-free list `s` every element of `f s`
not yet present, until nothing new appears or the fuel is used up.  All the fixpoints of
the model (nullable, productive, reachable, FIRST, FOLLOW, Earley sets) are instances.
-/
namespace Yaep

/-- append the elements of the second list that are not yet present -/
def addNew [DecidableEq α] (s : List α) : List α → List α
  | [] => s
  | x :: xs => if x ∈ s then addNew s xs else addNew (s ++ [x]) xs

def saturate [DecidableEq α] (f : List α → List α) : Nat → List α → List α
  | 0, s => s
  | n+1, s =>
    let s' := addNew s (f s)
    if s'.length = s.length then s else saturate f n s'

/-- greatest-fixpoint style shrinking: keep filtering with a predicate that depends on the
current list until nothing is removed -/
def shrink (p : List α → α → Bool) : Nat → List α → List α
  | 0, s => s
  | n+1, s =>
    let s' := s.filter (p s)
    if s'.length = s.length then s else shrink p n s'

end Yaep
