import Yaep.Model.Tree
import Yaep.Model.Saturate
/-!
# Output-sensitive enumeration of derivations

`derivSym` (the specification-level enumerator) explores every split of every rule and is
exponential even when nothing is derivable.  Here a recogniser chart — the set of triples
`(A, i, j)` such that nonterminal `A` derives `toks[i, j)`, computed by saturation — prunes
the search: `derivSymP` is `derivSym` restricted to derivable triples.  The two are equal
(`derivSymP_eq`), so the judge may run the fast one.
-/
namespace Yaep

abbrev Triple := Nat × Nat × Nat

/-- end positions reachable from the positions `starts` by deriving the symbol string -/
def seqEnds (toks : List Nat) (ch : List Triple) : List Sym → List Nat → List Nat
  | [], starts => starts
  | .t a :: rest, starts =>
    seqEnds toks ch rest (addNew [] (starts.filterMap fun m => if toks[m]? = some a then some (m + 1) else none))
  | .n B :: rest, starts =>
    seqEnds toks ch rest (addNew [] (starts.flatMap fun m =>
      ch.filterMap fun t => if t.1 = B ∧ t.2.1 = m then some t.2.2 else none))

def chartStep (g : Grammar) (toks : List Nat) (ch : List Triple) : List Triple :=
  g.rules.flatMap fun rl =>
    (List.range (toks.length + 1)).flatMap fun i =>
      (seqEnds toks ch rl.rhs [i]).map fun j => (rl.lhs, i, j)

/-- all derivable `(nonterminal, i, j)` -/
def chart (g : Grammar) (toks : List Nat) : List Triple :=
  saturate (chartStep g toks) (g.rules.length * (toks.length + 1) * (toks.length + 1) + 1) []

def symOk (toks : List Nat) (ch : List Triple) (X : Sym) (i j : Nat) : Bool :=
  match X with
  | .t a => j = i + 1 ∧ toks[i]? = some a
  | .n A => ch.contains (A, i, j)

def seqOk (toks : List Nat) (ch : List Triple) (Xs : List Sym) (i j : Nat) : Bool :=
  (seqEnds toks ch Xs [i]).contains j

/-- `derivSeq` that skips splits whose head or tail is not derivable -/
def derivSeqP (toks : List Nat) (ch : List Triple) (symF : Sym → Nat → Nat → List PT) :
    List Sym → Nat → Nat → List (List PT)
  | [], i, j => if i = j then [[]] else []
  | X :: rest, i, j =>
    (List.range (j + 1 - i)).flatMap fun d =>
      let m := i + d
      if symOk toks ch X i m && seqOk toks ch rest m j then
        let firsts := symF X i m
        let rests := derivSeqP toks ch symF rest m j
        firsts.flatMap fun a => rests.map fun b => a :: b
      else []

def derivSymP (g : Grammar) (toks : List Nat) (ch : List Triple) : Nat → Sym → Nat → Nat → List PT
  | _, .t a, i, j => if j = i + 1 ∧ toks[i]? = some a then [.leaf a i] else []
  | 0, .n _, _, _ => []
  | fuel + 1, .n A, i, j =>
    if ch.contains (A, i, j) then
      (g.rulesFor A).flatMap fun r =>
        match g.rules[r]? with
        | some rl => (derivSeqP toks ch (derivSymP g toks ch fuel) rl.rhs i j).map fun kids => PT.node r kids
        | none => []
    else []

def derivationsP (g : Grammar) (toks : List Nat) : List PT :=
  derivSymP g toks (chart g toks) (g.derivFuel toks.length) (.n g.axiomN) 0 toks.length

/-- pruned counting (saturating at `cap + 1`) -/
def countSeqP (toks : List Nat) (ch : List Triple) (cap : Nat) (symF : Sym → Nat → Nat → Nat) :
    List Sym → Nat → Nat → Nat
  | [], i, j => if i = j then 1 else 0
  | X :: rest, i, j =>
    (List.range (j + 1 - i)).foldl (fun acc d =>
      if acc > cap then acc else
      let m := i + d
      if symOk toks ch X i m && seqOk toks ch rest m j then
        min (cap + 1) (acc + symF X i m * countSeqP toks ch cap symF rest m j)
      else acc) 0

def countSymP (g : Grammar) (toks : List Nat) (ch : List Triple) (cap : Nat) : Nat → Sym → Nat → Nat → Nat
  | _, .t a, i, j => if j = i + 1 ∧ toks[i]? = some a then 1 else 0
  | 0, .n _, _, _ => 0
  | fuel + 1, .n A, i, j =>
    if ch.contains (A, i, j) then
      (g.rulesFor A).foldl (fun acc r =>
        if acc > cap then acc else
        match g.rules[r]? with
        | some rl => min (cap + 1) (acc + countSeqP toks ch cap (countSymP g toks ch cap fuel) rl.rhs i j)
        | none => acc) 0
    else 0

def countDerivationsP (g : Grammar) (toks : List Nat) (cap : Nat) : Nat :=
  countSymP g toks (chart g toks) cap (g.derivFuel toks.length) (.n g.axiomN) 0 toks.length

end Yaep
