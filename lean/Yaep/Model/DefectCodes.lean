import Yaep.Model.ReadGrammar
/-!
# All documented defects present in a definition (executable)

`readGrammar` returns the *first* defect in the order the C code checks; the property only
says that the returned code names a defect that is really present.  `defectCodes` lists the
codes of all documented defects of the raw input, each condition evaluated on its own; the
semantic ones (14 unreachable, 15 unproductive, 16 cyclic) are evaluated on the internal
grammar and only when there is no structural defect (otherwise no internal grammar exists).
-/
namespace Yaep

def dupes [BEq α] : List α → Bool
  | [] => false
  | a :: rest => rest.contains a || dupes rest

def structuralDefects (raw : RawGrammar) : List Nat :=
  let names := raw.terms.map (·.1)
  let tnames := names ++ [TERM_ERROR_NAME]
  let reserved := fun (x : String) => x == AXIOM_NAME || x == END_MARKER_NAME
  let c6 := raw.terms.any fun t => t.2 < 0
  let c5 := dupes names
  let c7 := dupes (raw.terms.map (·.2))
  let c4 := names.any (fun x => x == TERM_ERROR_NAME || reserved x) ||
            raw.rules.any (fun r => reserved r.lhs || r.rhs.any reserved)
  let c8 := raw.rules.isEmpty
  let c9 := raw.rules.any fun r => tnames.contains r.lhs
  let c10 := raw.rules.any fun r => r.anode.isNone && (match r.transl with | some (_ :: _ :: _) => true | _ => false)
  let c11 := raw.rules.any fun r => r.anode.isSome && r.cost < 0
  let c12 := raw.rules.any fun r => match r.transl with
    | some tr => tr.any fun e => e ≥ r.rhs.length && e != NIL_TRANSL
    | none => false
  let c13 := raw.rules.any fun r => match r.transl with
    | some tr => dupes (tr.filter fun e => e < r.rhs.length)
    | none => false
  (if c4 then [4] else []) ++ (if c5 then [5] else []) ++ (if c6 then [6] else []) ++ (if c7 then [7] else []) ++
  (if c8 then [8] else []) ++ (if c9 then [9] else []) ++ (if c10 then [10] else []) ++ (if c11 then [11] else []) ++
  (if c12 then [12] else []) ++ (if c13 then [13] else [])

/-- `readGrammar` without the final `check_grammar` -/
def internalGrammar (raw : RawGrammar) : Option Grammar :=
  match readTerms raw.terms {} with
  | .error _ => none
  | .ok s =>
    if (s.find TERM_ERROR_NAME).isSome then none else
    let (s, e) := s.addTerm TERM_ERROR_NAME (-2)
    match readRules raw.rules { s with errT := e } with
    | .error _ => none
    | .ok s =>
      if s.startN.isNone then none else
      let errRule : Rule := { lhs := s.axiomN, rhs := [.t s.errT, .t s.eofT], transLen := 0, order := [none, none] }
      some ({ s with rules := s.rules ++ [errRule] } : RG).toGrammar

def semanticDefects (g : Grammar) (strict : Bool) : List Nat :=
  let pr := g.productive
  let rc := g.reachable
  let nts := List.range g.nN
  let c15 := if strict then nts.any (fun A => !pr.contains A) else !pr.contains g.startN
  let c14 := strict && nts.any (fun A => !rc.contains A)
  let c16 := !g.loopSet.isEmpty
  (if c14 then [14] else []) ++ (if c15 then [15] else []) ++ (if c16 then [16] else [])

def defectCodes (raw : RawGrammar) : List Nat :=
  match structuralDefects raw with
  | [] => match internalGrammar raw with
    | some g => semanticDefects g raw.strict
    | none => [0]          -- cannot happen: no structural defect yet no internal grammar
  | l => l

end Yaep
