import Yaep.Model.Tree
/-!
# The result of `yaep_parse` as exported by the harness: a node table (DAG), and the set of
trees it denotes
-/
namespace Yaep

/-- one exported node; children are table indices.  The harness numbers nodes in
post-order, so in an acyclic result every child index is smaller than the node's own. -/
inductive NodeRec where
  | nil
  | err
  | term (code : Int) (attr : Int)
  | anode (name : String) (cost : Nat) (kids : List Nat)
  | alt (alts : List Nat)
  | bad
deriving Repr, Inhabited

/-- all ways to pick one element from each list -/
def prodAll : List (List α) → List (List α)
  | [] => [[]]
  | xs :: rest => let r := prodAll rest; xs.flatMap fun x => r.map fun l => x :: l

def NodeRec.children : NodeRec → List Nat
  | .anode _ _ ks => ks
  | .alt as => as
  | _ => []

/-- the table is a topological order: every child index is smaller than its parent's -/
def tableWF (tab : Array NodeRec) : Bool :=
  (List.range tab.size).all fun i => (tab.getD i .bad).children.all fun k => k < i

/-- no alternative of an ALT node is itself an ALT node -/
def noNestedAlt (tab : Array NodeRec) : Bool :=
  tab.toList.all fun r =>
    match r with
    | .alt as => as.all fun k => match tab.getD k .bad with | .alt _ => false | _ => true
    | _ => true

def hasAlt (tab : Array NodeRec) : Bool :=
  tab.toList.any fun r => match r with | .alt _ => true | _ => false

def hasBad (tab : Array NodeRec) : Bool :=
  tab.toList.any fun r => match r with | .bad => true | _ => false

def denoteRec (vals : Array (List Tree)) : NodeRec → List Tree
  | .nil => [.nil]
  | .err => [.error]
  | .term c a => [.term c a]
  | .anode n c ks => (prodAll (ks.map fun k => vals.getD k [])).map fun l => .anode n c l
  | .alt as => as.flatMap fun k => vals.getD k []
  | .bad => []

/-- for every node of the table, the trees it denotes (choose one alternative at every ALT
occurrence, independently) -/
def denoteTab (tab : Array NodeRec) : Array (List Tree) :=
  tab.foldl (fun vals r => vals.push (denoteRec vals r)) #[]

def countRec (vals : Array Nat) : NodeRec → Nat
  | .anode _ _ ks => ks.foldl (fun acc k => acc * vals.getD k 0) 1
  | .alt as => as.foldl (fun acc k => acc + vals.getD k 0) 0
  | .bad => 0
  | _ => 1

/-- number of denoted trees per node (with multiplicity), to bound the enumeration -/
def countTab (tab : Array NodeRec) : Array Nat :=
  tab.foldl (fun vals r => vals.push (countRec vals r)) #[]

/-! ## cost fields (C04) -/

/-- minimal total cost of the trees denoted by each node -/
def minCostRec (vals : Array Nat) : NodeRec → Nat
  | .anode _ c ks => ks.foldl (fun acc k => acc + vals.getD k 0) c
  | .alt as =>
    match as.map (fun k => vals.getD k 0) with
    | [] => 0
    | x :: xs => xs.foldl min x
  | _ => 0

/-- the additive law for the `cost` field under the cost flag: the field of an abstract
node is its rule's cost plus the fields (for ALT: the common value) of its children. `own`
gives the rule cost by node name is not available here, so the law is checked in the form
`field(node) - Σ field(children)` = own cost ≥ 0 against the translation it denotes. -/
def fieldSumRec (vals : Array Nat) : NodeRec → Nat
  | .anode _ c _ => c
  | .alt as => match as with | k :: _ => vals.getD k 0 | [] => 0
  | _ => 0

end Yaep
