import Yaep.Model.ReadGrammar
/-!
# `yaep_parse_grammar`: the description lexer (`yylex`), a recursive-descent reading of the
LALR grammar of `sgramm.y`, and `set_sgrammar` (duplicate elimination, implicit codes)

The result is the terminal / rule lists that are handed to `yaep_read_grammar`.
-/
namespace Yaep

inductive DTok where
  | ident (s : String)
  | semIdent (s : String)
  | chr (c : UInt8)
  | num (n : Nat)
  | term
  | sym (c : Char)
  | eof
deriving Repr, DecidableEq, Inhabited

def isAlpha (c : UInt8) : Bool := (c ≥ 65 && c ≤ 90) || (c ≥ 97 && c ≤ 122)
def isDigit (c : UInt8) : Bool := c ≥ 48 && c ≤ 57
def isIdCh (c : UInt8) : Bool := isAlpha c || isDigit c || c == 95
def isWs (c : UInt8) : Bool := c == 10 || c == 9 || c == 32

def bytesToString (l : List UInt8) : String := String.mk (l.map fun b => Char.ofNat b.toNat)

/-- skip a comment body (after `/*`); returns the rest after `*/`, `none` if unfinished -/
def skipComment : List UInt8 → Option (List UInt8)
  | [] => none
  | 42 :: 47 :: rest => some rest
  | _ :: rest => skipComment rest

def spanWhile (p : UInt8 → Bool) : List UInt8 → List UInt8 × List UInt8
  | [] => ([], [])
  | c :: rest => if p c then let (a, b) := spanWhile p rest; (c :: a, b) else ([], c :: rest)

/-- the lexer; `none` = lexical error (reported as description syntax error).
`maxNum` bounds NUMBER tokens (the C code rejects numbers that do not fit an `int`). -/
def lexDescr : Nat → List UInt8 → List DTok → Option (List DTok)
  | 0, _, _ => none
  | _ + 1, [], acc => some (acc ++ [.eof])
  | fuel + 1, c :: rest, acc =>
    if c == 0 then some (acc ++ [.eof])
    else if isWs c then lexDescr fuel rest acc
    else if c == 47 then          -- '/'
      match rest with
      | 42 :: r2 => match skipComment r2 with
        | some r3 => lexDescr fuel r3 acc
        | none => none
      | _ => none
    else if c == 61 || c == 35 || c == 124 || c == 59 || c == 45 || c == 40 || c == 41 then
      lexDescr fuel rest (acc ++ [.sym (Char.ofNat c.toNat)])
    else if c == 39 then          -- '\''
      match rest with
      | ch :: 39 :: r2 => if ch == 0 then none else lexDescr fuel r2 (acc ++ [.chr ch])
      | _ => none
    else if isAlpha c || c == 95 then
      let (idr, r2) := spanWhile isIdCh rest
      let name := bytesToString (c :: idr)
      if name == "TERM" then lexDescr fuel r2 (acc ++ [.term])
      else
        let (_, r3) := spanWhile isWs r2
        match r3 with
        | 58 :: r4 => lexDescr fuel r4 (acc ++ [.semIdent name])
        | _ => lexDescr fuel r3 (acc ++ [.ident name])
    else if isDigit c then
      let (ds, r2) := spanWhile isDigit rest
      let n := (c :: ds).foldl (fun a d => a * 10 + (d.toNat - 48)) 0
      if n > 2147483647 then none else lexDescr fuel r2 (acc ++ [.num n])
    else none

structure STerm where
  name : String
  code : Int          -- -1 = no explicit code
deriving Repr, Inhabited

structure DescrAcc where
  sterms : List STerm := []
  srules : List RawRule := []
deriving Inhabited

/-- `terms : TERM (IDENT ['=' NUMBER])*` (after TERM has been consumed) -/
def parseTermDecls : Nat → List DTok → DescrAcc → Option (List DTok × DescrAcc)
  | 0, _, _ => none
  | fuel + 1, .ident n :: .sym '=' :: .num k :: rest, a =>
    parseTermDecls fuel rest { a with sterms := a.sterms ++ [⟨n, k⟩] }
  | _ + 1, .ident _ :: .sym '=' :: _, _ => none
  | fuel + 1, .ident n :: rest, a => parseTermDecls fuel rest { a with sterms := a.sterms ++ [⟨n, -1⟩] }
  | _ + 1, ts, a => some (ts, a)

def charName (c : UInt8) : String := bytesToString [39, c, 39]
/-- `term.code = term.repr[1]` with plain (signed) `char` -/
def charCode (c : UInt8) : Int := if c.toNat < 128 then c.toNat else (c.toNat : Int) - 256

/-- `seq` : (IDENT | CHAR)* -/
def parseSeq : Nat → List DTok → List String → List STerm → List DTok × List String × List STerm
  | 0, ts, rhs, st => (ts, rhs, st)
  | fuel + 1, .ident n :: rest, rhs, st => parseSeq fuel rest (rhs ++ [n]) st
  | fuel + 1, .chr c :: rest, rhs, st => parseSeq fuel rest (rhs ++ [charName c]) (st ++ [⟨charName c, charCode c⟩])
  | _ + 1, ts, rhs, st => (ts, rhs, st)

/-- `numbers` : (NUMBER | '-')* -/
def parseNumbers : Nat → List DTok → List Nat → List DTok × List Nat
  | 0, ts, acc => (ts, acc)
  | fuel + 1, .num k :: rest, acc => parseNumbers fuel rest (acc ++ [k])
  | fuel + 1, .sym '-' :: rest, acc => parseNumbers fuel rest (acc ++ [NIL_TRANSL])
  | _ + 1, ts, acc => (ts, acc)

/-- `trans`; returns (rest, anode, cost, transl) -/
def parseTrans (fuel : Nat) : List DTok → Option (List DTok × Option String × Int × List Nat)
  | .sym '#' :: .num k :: rest => some (rest, none, 0, [k])
  | .sym '#' :: .sym '-' :: rest => some (rest, none, 0, [NIL_TRANSL])
  | .sym '#' :: .ident a :: rest =>
    let (rest, cost) : List DTok × Int := match rest with
      | .num c :: r => (r, c)
      | r => (r, 1)
    match rest with
    | .sym '(' :: r =>
      let (r2, nums) := parseNumbers fuel r []
      match r2 with
      | .sym ')' :: r3 => some (r3, some a, cost, nums)
      | _ => none
    | r => some (r, some a, cost, [])
  | .sym '#' :: rest => some (rest, none, 0, [])
  | rest => some (rest, none, 0, [])

/-- `rhs : alt ('|' alt)*` for the left-hand side `lhs` -/
def parseAlts : Nat → String → List DTok → DescrAcc → Option (List DTok × DescrAcc)
  | 0, _, _, _ => none
  | fuel + 1, lhs, ts, a =>
    let (ts, rhs, st) := parseSeq (ts.length + 1) ts [] []
    match parseTrans (ts.length + 1) ts with
    | none => none
    | some (ts, anode, cost, tr) =>
      let rule : RawRule := { lhs := lhs, rhs := rhs, anode := anode, cost := cost, transl := some tr }
      let a := { sterms := a.sterms ++ st, srules := a.srules ++ [rule] }
      match ts with
      | .sym '|' :: rest => parseAlts fuel lhs rest a
      | _ => some (ts, a)

def optSem : List DTok → List DTok
  | .sym ';' :: rest => rest
  | ts => ts

/-- `file : (terms [';'] | rule)+` -/
def parseFile : Nat → Bool → List DTok → DescrAcc → Option DescrAcc
  | 0, _, _, _ => none
  | fuel + 1, first, ts, a =>
    match ts with
    | .term :: rest =>
      match parseTermDecls (rest.length + 1) rest a with
      | some (r2, a2) => parseFile fuel false (optSem r2) a2
      | none => none
    | .semIdent lhs :: rest =>
      match parseAlts (rest.length + 1) lhs rest a with
      | some (r2, a2) => parseFile fuel false (optSem r2) a2
      | none => none
    | [.eof] => if first then none else some a
    | _ => none

/-- `set_sgrammar` after parsing: one entry per name at its first position; two explicit
different codes are an error (7); an occurrence without code says nothing about the code
(the explicit code of another occurrence, earlier or later, is the code of the terminal);
terminals without any explicit code get the next free codes from 256 in order of appearance -/
def dedupTerms : List STerm → List STerm → Except Nat (List STerm)
  | [], acc => .ok acc
  | t :: rest, acc =>
    match acc.find? (·.name == t.name) with
    | none => dedupTerms rest (acc ++ [t])
    | some e =>
      if t.code != -1 && e.code != -1 && e.code != t.code then .error 7
      else if e.code == -1 then dedupTerms rest (acc.map fun x => if x.name == t.name then { x with code := t.code } else x)
      else dedupTerms rest acc

def nextFree (used : List Int) : Nat → Nat → Nat
  | 0, c => c
  | fuel + 1, c => if used.contains (c : Int) then nextFree used fuel (c + 1) else c

def assignCodes (all : List STerm) : List STerm → Nat → List (String × Int)
  | [], _ => []
  | t :: rest, next =>
    if t.code < 0 then
      let c := nextFree (all.map (·.code)) (all.length + 1) next
      (t.name, (c : Int)) :: assignCodes all rest (c + 1)
    else (t.name, t.code) :: assignCodes all rest next

/-- description text → what `yaep_read_grammar` is given, or the error code -/
def descrToRaw (text : List UInt8) (strict : Bool) : Except Nat RawGrammar :=
  match lexDescr (text.length + 2) text [] with
  | none => .error 3
  | some toks =>
    match parseFile (toks.length + 1) true toks {} with
    | none => .error 3
    | some a =>
      match dedupTerms a.sterms [] with
      | .error e => .error e
      | .ok ts => .ok { terms := assignCodes ts ts 256, rules := a.srules, strict := strict }

def parseDescr (text : List UInt8) (strict : Bool) : Except Nat Grammar :=
  match descrToRaw text strict with
  | .error e => .error e
  | .ok raw => readGrammar raw

end Yaep
