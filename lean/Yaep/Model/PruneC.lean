import Yaep.Model.MakeParse
import Yaep.Spec.Forest
/-!
# `find_minimal_translation` of `src/yaep.c`, step for step

With the cost flag set `make_parse` hands the finished translation DAG to
`find_minimal_translation (result)`.  This file is an executable transcription of that
function and of its two helpers on an explicit heap.  Nothing is "improved".

## C ↦ Lean

| C (`src/yaep.c`)                                                        | here |
|---|---|
| `struct yaep_tree_node` (tree memory after `make_parse`)                 | `Cell`, `Array Cell` (index = address); `ofHeap` / `toHeap` convert from / to `MP.MNode` |
| `node->val.anode.cost` — an `int`, its sign is the visit flag (`cost = -cost - 1`) | `Cell.anode _ (cost : Int) _` |
| `node->val.anode.children[i]`, terminated by `NULL`                      | `kids : Array (Option Nat)`, `kidAt`; reading past the array is read as `NULL` |
| `node->val.anode.name` (a block of its own, shared by the abstract nodes of one rule) | parameter `nameBlk : Nat → Nat` (cell ↦ id of its name block) |
| `alt->val.alt.node`, `alt->val.alt.next`                                 | `Cell.alt node next` |
| `struct alt_prune_result`, `alt_prune_tab` + `alt_prune_os` (key `alt`)    | `AltRes`, `PSt.memo` (most recent first), `memoFind` |
| `tnodes_vlo` (filled only when `parse_free != NULL`)                      | `PSt.coll`, `collect` |
| `parse_free != NULL`                                                     | `free : Bool` (`freeGiven`) |
| `grammar->one_parse_p`                                                   | `one : Bool` |
| `prune_to_minimal (node, &cost)`                                         | `pruneToMinimal` (returns state, result cell, `*cost`) |
| … `case YAEP_ANODE`: `for (i = 0; (child = children[i]) != NULL; i++) { children[i] = prune…; cost += *cost; }` | `kidsLoop` (reads slot `i` and the cost from the *current* heap, as C does) |
| … `case YAEP_ALT`: `for (alt = node; alt != NULL; alt = next_alt)` with the locals `min_cost`, `result` | `altLoop` (`next_alt` is read before the recursive call) |
| … `result = (result->val.alt.next == NULL ? result->val.alt.node : result)` | `altResult` |
| `reserv_mem_tab` (addresses of nodes and of name blocks)                  | `TSt.resv : List Mem`, `reserve` |
| `traverse_pruned_translation (node)`; `goto next` over an ALT chain        | `traversePruned`; `travAlt` |
| the loop over `tnodes_vlo` in `find_minimal_translation`                  | `freeLoop` |
| `(*parse_free) (…)` calls in order                                       | `Result.frees` (`Mem.name b` before `Mem.cell p`) |
| `(*node_ptr)->val.nil.used = 0`, `…error.used = 0`                        | `Result.cleared` (cells whose flag was cleared), `Result.nilUsed`, `Result.errUsed` |
| `find_minimal_translation (root)`                                        | `findMinimalTranslation` |

C recursion is modelled with fuel (structural recursion); running out of fuel sets `oof`.
On an acyclic heap the recursion depth is bounded by the number of cells
(`Props/PruneC.lean`, `pruneC_fuel`).  An address outside the heap reads as a NIL cell and a
write to it is dropped (this cannot happen on a well-formed heap).
-/
namespace Yaep.PC
open Yaep

/-- a cell of the tree memory; the cost of an abstract node is a C `int` -/
inductive Cell where
  | nil
  | err
  | term (code : Int) (attr : Int)
  | anode (name : String) (cost : Int) (kids : Array (Option Nat))
  | alt (node : Nat) (next : Option Nat)
deriving Repr, Inhabited, DecidableEq

def ofMNode : MP.MNode → Cell
  | .nil => .nil
  | .err => .err
  | .term c a => .term c a
  | .anode n c ks => .anode n (Int.ofNat c) ks
  | .alt nd nx => .alt nd nx

def toMNode : Cell → MP.MNode
  | .nil => .nil
  | .err => .err
  | .term c a => .term c a
  | .anode n c ks => .anode n c.toNat ks
  | .alt nd nx => .alt nd nx

def ofHeap (h : Array MP.MNode) : Array Cell := h.map ofMNode
def toHeap (h : Array Cell) : Array MP.MNode := h.map toMNode

/-- an address: a tree node or a name block -/
inductive Mem where
  | cell (i : Nat)
  | name (b : Nat)
deriving Repr, Inhabited, DecidableEq

/-- `struct alt_prune_result` -/
structure AltRes where
  alt : Nat
  result : Nat
  cost : Int
deriving Repr, Inhabited, DecidableEq

/-- the state `prune_to_minimal` works on -/
structure PSt where
  heap : Array Cell
  memo : List AltRes := []
  coll : Array Nat := #[]
  oof : Bool := false
deriving Repr, Inhabited

/-! ## heap access -/

def cellAt (h : Array Cell) (n : Nat) : Cell := h.getD n .nil

/-- `node->val.anode.children[i]` -/
def kidAt (h : Array Cell) (n i : Nat) : Option Nat :=
  match cellAt h n with
  | .anode _ _ ks => ks.getD i none
  | _ => none

/-- `node->val.anode.cost` -/
def costAt (h : Array Cell) (n : Nat) : Int :=
  match cellAt h n with
  | .anode _ c _ => c
  | _ => 0

/-- `node->val.anode.children[i] = r` -/
def setKid (h : Array Cell) (n i r : Nat) : Array Cell :=
  match cellAt h n with
  | .anode nm c ks => h.set! n (.anode nm c (ks.set! i (some r)))
  | _ => h

/-- `node->val.anode.cost = c` -/
def setCost (h : Array Cell) (n : Nat) (c : Int) : Array Cell :=
  match cellAt h n with
  | .anode nm _ ks => h.set! n (.anode nm c ks)
  | _ => h

/-- `alt->val.alt.node = r` -/
def setAltNode (h : Array Cell) (a r : Nat) : Array Cell :=
  match cellAt h a with
  | .alt _ nx => h.set! a (.alt r nx)
  | _ => h

/-- `alt->val.alt.next = nx` -/
def setAltNext (h : Array Cell) (a : Nat) (nx : Option Nat) : Array Cell :=
  match cellAt h a with
  | .alt nd _ => h.set! a (.alt nd nx)
  | _ => h

/-- `if (parse_free != NULL) VLO_ADD_MEMORY (tnodes_vlo, &node, sizeof (node))` -/
def collect (free : Bool) (s : PSt) (n : Nat) : PSt :=
  if free then { s with coll := s.coll.push n } else s

/-- `find_hash_table_entry (alt_prune_tab, &alt_result, FALSE)` -/
def memoFind (memo : List AltRes) (n : Nat) : Option AltRes := memo.find? fun e => e.alt == n

/-! ## `prune_to_minimal` -/

/-- the loop over the children of the abstract node `node`; `m` bounds the number of slots -/
def kidsLoop (rec : PSt → Nat → PSt × Nat × Int) (node : Nat) : Nat → Nat → PSt → PSt
  | 0, _, s => s
  | m + 1, i, s =>
    match kidAt s.heap node i with
    | none => s
    | some child =>
      let p := rec s child
      let h := setKid p.1.heap node i p.2.1
      let h := setCost h node (costAt h node + p.2.2)
      kidsLoop rec node m (i + 1) { p.1 with heap := h }

/-- the loop over the alternatives of the chain that starts at `head`; locals `min_cost`
(`mn`) and `result` (`res`); `m` bounds the length of the chain -/
def altLoop (rec : PSt → Nat → PSt × Nat × Int) (one free : Bool) (head : Nat) :
    Nat → Option Nat → Int → Nat → PSt → PSt × Int × Nat
  | _, none, mn, res, s => (s, mn, res)
  | 0, some _, mn, res, s => ({ s with oof := true }, mn, res)
  | m + 1, some alt, mn, res, s =>
    let s := collect free s alt
    match cellAt s.heap alt with
    | .alt nd nextAlt =>
      let p := rec s nd
      let h := setAltNode p.1.heap alt p.2.1
      let c := p.2.2
      if alt == head || mn > c then
        altLoop rec one free head m nextAlt c alt { p.1 with heap := setAltNext h alt none }
      else if mn == c && !one then
        altLoop rec one free head m nextAlt mn alt { p.1 with heap := setAltNext h alt (some res) }
      else
        altLoop rec one free head m nextAlt mn res { p.1 with heap := h }
    | _ => (s, mn, res)

/-- `result->val.alt.next == NULL ? result->val.alt.node : result` -/
def altResult (h : Array Cell) (res : Nat) : Nat :=
  match cellAt h res with
  | .alt nd none => nd
  | _ => res

/-- `prune_to_minimal (node, &cost)`: new state, returned node, `*cost` -/
def pruneToMinimal (one free : Bool) : Nat → PSt → Nat → PSt × Nat × Int
  | 0, s, n => ({ s with oof := true }, n, 0)
  | fuel + 1, s, n =>
    match cellAt s.heap n with
    | .anode _ c ks =>
      if c ≥ 0 then
        let s := collect free s n
        let s := kidsLoop (pruneToMinimal one free fuel) n ks.size 0 s
        let c' := costAt s.heap n
        ({ s with heap := setCost s.heap n (-c' - 1) }, n, c')      -- flag of visit
      else
        -- the node has been already processed: its cost is known
        (s, n, -c - 1)
    | .alt _ _ =>
      match memoFind s.memo n with
      | some e => (s, e.result, e.cost)       -- the list has been already pruned (and relinked)
      | none =>
        let q := altLoop (pruneToMinimal one free fuel) one free n s.heap.size (some n) 0 n s
        let result := altResult q.1.heap q.2.2
        ({ q.1 with memo := ⟨n, result, q.2.1⟩ :: q.1.memo }, result, q.2.1)
    | _ => (collect free s n, n, 0)

/-! ## `traverse_pruned_translation` -/

structure TSt where
  heap : Array Cell
  resv : List Mem := []
  oof : Bool := false
deriving Repr, Inhabited

/-- `if (parse_free != NULL && *(entry = find_hash_table_entry (reserv_mem_tab, m, TRUE)) == NULL) *entry = m` -/
def reserve (free : Bool) (t : TSt) (m : Mem) : TSt :=
  if free && !t.resv.contains m then { t with resv := m :: t.resv } else t

/-- `for (i = 0; (child = node->val.anode.children[i]) != NULL; i++) traverse… (child)` -/
def travKids (rec : TSt → Nat → TSt) (node : Nat) : Nat → Nat → TSt → TSt
  | 0, _, t => t
  | m + 1, i, t =>
    match kidAt t.heap node i with
    | none => t
    | some child => travKids rec node m (i + 1) (rec t child)

/-- the `goto next` loop over a chain: `alt` is the current cell, already reserved; `m` bounds
the length of the chain -/
def travAlt (rec : TSt → Nat → TSt) (free : Bool) : Nat → Nat → TSt → TSt
  | 0, _, t => { t with oof := true }
  | m + 1, alt, t =>
    match cellAt t.heap alt with
    | .alt nd _ =>
      let t := rec t nd
      match cellAt t.heap alt with
      | .alt _ (some nx) =>
        -- `goto next`: reserve, switch on the type
        let t := reserve free t (.cell nx)
        travAlt rec free m nx t
      | _ => t
    -- `goto next` reached a cell that is not an ALT cell (never on a well-formed heap): the
    -- `switch` treats it like any node (it is reserved already)
    | _ => rec t alt

def traversePruned (free : Bool) (nameBlk : Nat → Nat) : Nat → TSt → Nat → TSt
  | 0, t, _ => { t with oof := true }
  | fuel + 1, t, n =>
    let t := reserve free t (.cell n)
    match cellAt t.heap n with
    | .anode _ c ks =>
      let t := reserve free t (.name (nameBlk n))
      if c ≥ 0 then t       -- the node is shared and has been already traversed
      else
        let t := { t with heap := setCost t.heap n (-c - 1) }
        travKids (traversePruned free nameBlk fuel) n ks.size 0 t
    | .alt _ _ => travAlt (traversePruned free nameBlk fuel) free t.heap.size n t
    | _ => t

/-! ## `find_minimal_translation` -/

structure FSt where
  resv : List Mem
  frees : List Mem := []        -- reversed
  cleared : List Nat := []      -- reversed
deriving Repr, Inhabited

/-- the loop over `tnodes_vlo` -/
def freeLoop (h : Array Cell) (nameBlk : Nat → Nat) : List Nat → FSt → FSt
  | [], f => f
  | p :: ps, f =>
    if f.resv.contains (.cell p) then freeLoop h nameBlk ps f
    else
      -- the same reference can be in the vlo several times and a name is shared by abstract
      -- nodes: free them once
      let f := { f with resv := .cell p :: f.resv }
      match cellAt h p with
      | .nil => freeLoop h nameBlk ps { f with cleared := p :: f.cleared }
      | .err => freeLoop h nameBlk ps { f with cleared := p :: f.cleared }
      | .anode _ _ _ =>
        let b := nameBlk p
        if f.resv.contains (.name b) then
          freeLoop h nameBlk ps { f with frees := .cell p :: f.frees }
        else
          freeLoop h nameBlk ps { f with resv := .name b :: f.resv, frees := .cell p :: .name b :: f.frees }
      | _ => freeLoop h nameBlk ps { f with frees := .cell p :: f.frees }

structure Result where
  heap : Array Cell
  root : Nat
  cost : Int                    -- the local `cost` (unused by the C code afterwards)
  frees : List Mem              -- `(*parse_free)` calls in order
  cleared : List Nat            -- NIL / ERROR cells whose `used` was set to 0, in order
  nilUsed : Bool
  errUsed : Bool
  memo : List AltRes            -- `alt_prune_tab` when it is deleted
  coll : List Nat               -- `tnodes_vlo` when it is deleted
  resv : List Mem               -- `reserv_mem_tab` after the traversal
  oof : Bool
deriving Repr, Inhabited

def isNilCell (h : Array Cell) (p : Nat) : Bool := match cellAt h p with | .nil => true | _ => false
def isErrCell (h : Array Cell) (p : Nat) : Bool := match cellAt h p with | .err => true | _ => false

/-- `find_minimal_translation (root)`; `nilUsed`, `errUsed`: the `used` fields of the NIL and
ERROR node on entry -/
def findMinimalTranslation (fuel : Nat) (heap : Array Cell) (root : Nat) (one free : Bool)
    (nameBlk : Nat → Nat) (nilUsed errUsed : Bool := true) : Result :=
  let p := pruneToMinimal one free fuel { heap := heap } root
  let root' := p.2.1
  let t := traversePruned free nameBlk fuel { heap := p.1.heap } root'
  let f := if free then freeLoop t.heap nameBlk p.1.coll.toList { resv := t.resv }
           else { resv := t.resv }
  { heap := t.heap, root := root', cost := p.2.2,
    frees := f.frees.reverse, cleared := f.cleared.reverse,
    nilUsed := nilUsed && !f.cleared.any (isNilCell t.heap),
    errUsed := errUsed && !f.cleared.any (isErrCell t.heap),
    memo := p.1.memo, coll := p.1.coll.toList, resv := t.resv,
    oof := p.1.oof || t.oof }

/-! ## the forest a heap cell stands for -/

/-- decoded cost field: a negative field `-c - 1` is the visit flag on `c` -/
def decode (c : Int) : Nat := if c < 0 then (-c - 1).toNat else c.toNat

/-- the cells of the ALT chain that starts at cell `a` (`m` bounds its length) -/
def chainCells (h : Array Cell) : Nat → Nat → List Nat
  | 0, _ => []
  | m + 1, a =>
    match cellAt h a with
    | .alt _ (some nx) => a :: chainCells h m nx
    | .alt _ none => [a]
    | _ => []

/-- `alt->val.alt.node` -/
def altNode (h : Array Cell) (a : Nat) : Nat :=
  match cellAt h a with
  | .alt nd _ => nd
  | _ => a

/-- the children of an abstract node up to the first `NULL` -/
def kidsOf (ks : Array (Option Nat)) : List Nat := (ks.toList.takeWhile Option.isSome).filterMap id

/-- the cells a cell refers to: children up to the first `NULL`; node and next of an ALT cell -/
def succs (h : Array Cell) (n : Nat) : List Nat :=
  match cellAt h n with
  | .anode _ _ ks => kidsOf ks
  | .alt nd (some nx) => [nd, nx]
  | .alt nd none => [nd]
  | _ => []

/-- the unfolded forest of cell `n` (an ALT cell stands for the chain that starts there);
`cv` reads a cost field; exhausted fuel becomes the empty ALT -/
def unfoldWith (cv : Int → Nat) (h : Array Cell) : Nat → Nat → Node
  | 0, _ => .alt []
  | fuel + 1, n =>
    match cellAt h n with
    | .nil => .nil
    | .err => .err
    | .term c a => .term c a
    | .anode nm c ks => .anode nm (cv c) ((kidsOf ks).map (unfoldWith cv h fuel))
    | .alt _ _ => .alt (((chainCells h h.size n).map (altNode h)).map (unfoldWith cv h fuel))

/-- the forest of a heap whose cost fields are plain numbers -/
def unfoldC (h : Array Cell) (fuel n : Nat) : Node := unfoldWith Int.toNat h fuel n

/-- the forest of a heap between the two passes (visited nodes carry the flag) -/
def unfoldD (h : Array Cell) (fuel n : Nat) : Node := unfoldWith decode h fuel n

/-- cells reachable from the cells `todo` (depth first, `acc` = seen so far) -/
def reachFrom (h : Array Cell) : Nat → List Nat → List Nat → List Nat
  | 0, _, acc => acc
  | _, [], acc => acc
  | fuel + 1, n :: todo, acc =>
    if acc.contains n then reachFrom h fuel todo acc
    else reachFrom h fuel (succs h n ++ todo) (n :: acc)

/-! ## tests of the model against the declarative `prune` (evaluation)

More tests (random heaps, the freed cells, the cost fields) are in `Lemmas/PruneCTest.lean`. -/
namespace Test

/-- the two lists of trees have the same elements -/
def sameSet (a b : List Tree) : Bool :=
  let sa := a.map Tree.str
  let sb := b.map Tree.str
  sa.all sb.contains && sb.all sa.contains

/-- the final heap denotes what `prune` says: as a set, and the same single tree for one parse -/
def agrees (h : Array Cell) (root : Nat) (one free : Bool) : Bool :=
  let F := h.size + 1
  let r := findMinimalTranslation F h root one free id
  let spec := denote (prune (!one) (unfoldC h F root)).1
  let got := denote (unfoldC r.heap F r.root)
  !r.oof && sameSet got spec && (!one || (got.map Tree.str == spec.map Tree.str && got.length == 1)) &&
    r.cost == Int.ofNat (prune (!one) (unfoldC h F root)).2

/-- shared abstract node 5, shared chain 3 → 4 → 9, a tie between `x` and `z` -/
def h1 : Array Cell := #[
  .nil, .err,
  .anode "top" 5 #[some 3, some 8, none],
  .alt 5 (some 4), .alt 6 (some 9),
  .anode "x" 1 #[some 10, none], .anode "y" 2 #[some 10, none], .anode "z" 1 #[some 10, none],
  .anode "w" 3 #[some 0, none],
  .alt 7 none,
  .term 97 0,
  .anode "root" 0 #[some 2, some 3, some 5, none]]

/-- nested ambiguity: the alternatives of the outer chain 8 → 9 contain the inner chain 4 → 5
(shared by both), all alternatives tie at the outer level -/
def h2 : Array Cell := #[
  .nil, .err, .term 97 0, .term 98 1,
  .alt 6 (some 5), .alt 7 none,
  .anode "p" 1 #[some 2, none], .anode "q" 3 #[some 3, none],
  .alt 10 (some 9), .alt 11 none,
  .anode "l" 2 #[some 4, some 2, none], .anode "r" 1 #[some 4, some 4, none],
  .anode "root" 0 #[some 8, some 4, none]]

/-- the historic shape: a node shared twice below one parent next to a more expensive sibling -/
def h3 : Array Cell := #[
  .nil, .err, .term 97 0,
  .anode "m" 3 #[some 2, none], .anode "big" 10 #[some 2, none],
  .anode "A" 1 #[some 3, some 4, some 3, none], .anode "B" 20 #[some 10, some 10, none],
  .alt 5 (some 8), .alt 6 none,
  .anode "root" 0 #[some 7, none], .term 98 1]

#guard agrees h1 11 false true && agrees h1 11 true true && agrees h1 11 false false
#guard agrees h1 2 false true && agrees h1 3 true true && agrees h1 3 false true
#guard agrees h2 12 false true && agrees h2 12 true true && agrees h2 8 false true
#guard agrees h3 9 false true && agrees h3 9 true true && agrees h3 7 true false
#guard (denote (unfoldC h2 20 12)).length == 12
#guard (denote (unfoldC (findMinimalTranslation 20 h2 12 false true id).heap 20 12)).length == 2
#guard (findMinimalTranslation 20 h1 11 false true id).frees == [.cell 4, .name 6, .cell 6]
#guard (findMinimalTranslation 20 h1 11 false false id).frees == []
#guard (findMinimalTranslation 20 h1 11 false false id).heap == (findMinimalTranslation 20 h1 11 false true id).heap
-- round trip of the heap conversion
#guard ofHeap (toHeap h1) == h1

end Test

end Yaep.PC
