import Yaep.Model.Analysis
/-!
# Step-for-step model of the three grammar-analysis loops of `yaep.c`

`set_empty_access_derives`, `set_loop_p`, `create_first_follow_sets` and the part of
`check_grammar` that reads their results, transcribed *as written*: the pass structure
(`do … while (changed)`), the visiting order (nonterminals in numbering order, the rules of a
nonterminal in the order of its `lhs_next` chain, i.e. most recently created first), the
change flags, the `break`s of the inner scans, and the in-place updates (a later iteration of
the same pass already sees what an earlier one stored).  Core Lean only.

`Yaep/Props/AnalysisC.lean` proves that the results are the abstract sets of
`Yaep/Model/Analysis.lean`.

## C ↦ Lean

| C (`/repo/src/yaep.c`)                                         | Lean (`Yaep.AC`)                         |
|----------------------------------------------------------------|------------------------------------------|
| `struct symb *` (terminal `term_num` / nonterminal `nonterm_num`) | `Sym` (`.t a` / `.n A`)               |
| `symb->empty_p`, `symb->derivation_p`, `symb->access_p`        | `Flags.empty/deriv/access : Sym → Bool`  |
| assignment `symb->f = v`                                       | `upd fl.f symb v`                        |
| `nonterm_get (i)`, `i = 0 …`                                   | `List.range g.nN`                        |
| `symb->u.nonterm.rules`, `rule->lhs_next` (built by `rule_new_start`: new rule becomes the head) | `rulesOf g A` (rules with that left-hand side, latest first) |
| `rules_ptr->first_rule`, `rule->next`                          | `g.rules` (creation order)               |
| `do { changed = 0; … } while (changed)`                        | `doWhile pass fuel` (`none` = fuel used up; never happens: `…_fuel_suffices`) |
| `set_empty_access_derives`: initialisation loop over `symb_get (i)` | `eadInit`                           |
| … body of `for (j = 0; j < rule->rhs_len; j++)`                | `eadRhsStep`                             |
| … one rule (`empty_p = derivation_p = 1; for …; if (empty_p) …; if (derivation_p) …`) | `eadRule`         |
| … one pass; `empty_changed_p ‖ derivation_changed_p ‖ accessibility_change_p` | `eadPass`                 |
| `set_empty_access_derives ()`                                  | `emptyAccessDerives`                     |
| `term_set_el_t *` (bit `num` of the word array)                | `Nat` bit mask (`Nat.testBit s num`)     |
| `term_set_clear`, `term_set_up`, `term_set_or`                 | `0`, `termSetUp`, `termSetOr` (result, changed) |
| `symb->u.nonterm.first`, `…follow`                             | `FF.first/follow : Nat → Nat` (by `nonterm_num`) |
| `for (k = j + 1; k < rhs_len; k++) { …; if (!next_rhs_symb->empty_p) break; }` | `followScan` (returns the final `k`) |
| `changed_p \|= term_set_… (x->first / x->follow, …)`            | `storeFirst` / `storeFollow`             |
| `for (j = 0; j < rhs_len; j++)` with `first_continue_p`        | `ffRhs` (body: `ffSym`)                  |
| one pass of `create_first_follow_sets`                         | `ffPass`                                 |
| `create_first_follow_sets ()`                                  | `firstFollowC`                           |
| `for (j = 0; j < rhs_len; j++) if (i == j) continue; else if (!rhs[j]->empty_p) break;` | `othersScan` (returns the final `j`) |
| `symb->u.nonterm.loop_p`                                       | `Nat → Bool` (by `nonterm_num`)          |
| `set_loop_p`: initialisation over all rules                    | `loopInit` (`loopInitRule`, `loopInitStep`) |
| … one left-hand side of the major cycle                        | `loopLhs` (`loopRule`, `loopRuleStep`)   |
| `set_loop_p ()`                                                | `loopC`                                  |
| `check_grammar (strict_p)` (first `yaep_error` = `longjmp`)    | `checkGrammarC`                          |
-/
namespace Yaep.AC

/-! ## generic pieces -/

/-- `do { (s, changed) = pass (s); } while (changed);` — `none` when the fuel is used up -/
def doWhile {σ : Type} (pass : σ → σ × Bool) : Nat → σ → Option σ
  | 0, _ => none
  | n + 1, s =>
    let r := pass s
    if r.2 then doWhile pass n r.1 else some r.1

/-- in-place store into one cell of a table -/
def upd {α β : Type} [DecidableEq α] (f : α → β) (a : α) (v : β) : α → β :=
  fun x => if x = a then v else f x

/-- the `lhs_next` chain of nonterminal `A`: `rule_new_start` puts each new rule in front, so the
chain lists the rules with left-hand side `A` latest first -/
def rulesOf (g : Grammar) (A : Nat) : List Rule :=
  (g.rules.filter fun r => r.lhs == A).reverse

/-! ## `set_empty_access_derives` -/

/-- the three flags of every symbol -/
structure Flags where
  empty : Sym → Bool
  deriv : Sym → Bool
  access : Sym → Bool

/-- state inside the right-hand-side scan of one rule: the flags, `accessibility_change_p`
and the locals `empty_p`, `derivation_p` -/
structure ScanSt where
  fl : Flags
  accCh : Bool
  e : Bool
  d : Bool

/-- state of a pass: the flags and the three change flags -/
structure EadSt where
  fl : Flags
  emptyCh : Bool
  derivCh : Bool
  accCh : Bool

/-- the initialisation loop (`empty_p = 0; derivation_p = term_p; access_p = 0`) and
`grammar->axiom->access_p = 1` -/
def eadInit (g : Grammar) : Flags :=
  { empty := fun _ => false
    deriv := fun s => match s with | .t _ => true | .n _ => false
    access := upd (fun _ => false) (.n g.axiomN) true }

/-- body of `for (j = 0; j < rule->rhs_len; j++)`; `lhs` is `symb`, `x` is `rhs_symb` -/
def eadRhsStep (lhs : Sym) (s : ScanSt) (x : Sym) : ScanSt :=
  let s1 : ScanSt :=
    if s.fl.access lhs then
      { s with accCh := s.accCh || (s.fl.access x ^^ true)
               fl := { s.fl with access := upd s.fl.access x true } }
    else s
  { s1 with e := s1.e && s1.fl.empty x, d := s1.d && s1.fl.deriv x }

/-- one rule of nonterminal `A` -/
def eadRule (A : Nat) (st : EadSt) (r : Rule) : EadSt :=
  let sc := r.rhs.foldl (eadRhsStep (.n A)) { fl := st.fl, accCh := st.accCh, e := true, d := true }
  let st1 : EadSt :=
    if sc.e then
      { fl := { sc.fl with empty := upd sc.fl.empty (.n A) sc.e }
        emptyCh := st.emptyCh || (sc.fl.empty (.n A) ^^ sc.e)
        derivCh := st.derivCh, accCh := sc.accCh }
    else { fl := sc.fl, emptyCh := st.emptyCh, derivCh := st.derivCh, accCh := sc.accCh }
  if sc.d then
    { st1 with fl := { st1.fl with deriv := upd st1.fl.deriv (.n A) sc.d }
               derivCh := st1.derivCh || (st1.fl.deriv (.n A) ^^ sc.d) }
  else st1

/-- all rules of nonterminal `A` -/
def eadNonterm (g : Grammar) (st : EadSt) (A : Nat) : EadSt :=
  (rulesOf g A).foldl (eadRule A) st

/-- one pass of the `do … while` loop -/
def eadPass (g : Grammar) (fl : Flags) : Flags × Bool :=
  let st := (List.range g.nN).foldl (eadNonterm g)
    { fl := fl, emptyCh := false, derivCh := false, accCh := false }
  (st.fl, st.emptyCh || st.derivCh || st.accCh)

/-- all symbols the loop can touch: left-hand sides and right-hand-side symbols -/
def symUniv (g : Grammar) : List Sym :=
  g.rules.flatMap fun r => Sym.n r.lhs :: r.rhs

/-- every pass but the last sets at least one of the three flags of some symbol of `symUniv` -/
def eadFuel (g : Grammar) : Nat := 3 * (symUniv g).length + 1

/-- `set_empty_access_derives ()` -/
def emptyAccessDerives (g : Grammar) : Flags :=
  (doWhile (eadPass g) (eadFuel g) (eadInit g)).getD (eadInit g)

/-! ## `create_first_follow_sets` -/

/-- `term_set_up (set, num)`: the new set and whether it changed -/
def termSetUp (s num : Nat) : Nat × Bool :=
  let bit := 1 <<< num
  (s ||| bit, s &&& bit == 0)

/-- `term_set_or (set, op)` -/
def termSetOr (s op : Nat) : Nat × Bool :=
  (s ||| op, (s ||| op) != s)

/-- FIRST and FOLLOW of every nonterminal as bit masks over terminal numbers -/
structure FF where
  first : Nat → Nat
  follow : Nat → Nat

/-- `changed_p |= term_set_… (A->u.nonterm.first, …)`: `r` is what the `term_set_…` call returns
(the new contents of the set it was given and its result); `st` is the sets and `changed_p` -/
def storeFirst (st : FF × Bool) (A : Nat) (r : Nat × Bool) : FF × Bool :=
  ({ st.1 with first := upd st.1.first A r.1 }, st.2 || r.2)

/-- `changed_p |= term_set_… (B->u.nonterm.follow, …)` -/
def storeFollow (st : FF × Bool) (B : Nat) (r : Nat × Bool) : FF × Bool :=
  ({ st.1 with follow := upd st.1.follow B r.1 }, st.2 || r.2)

/-- `for (k = j + 1; k < rhs_len; k++)`: `B` is `rhs_symb`, the list is `rhs[k …]`; returns the
sets, `changed_p` and the `k` at which the loop was left -/
def followScan (empty : Sym → Bool) (B : Nat) : List Sym → Nat → FF × Bool → (FF × Bool) × Nat
  | [], k, st => (st, k)
  | next :: rest, k, st =>
    let st' :=
      match next with
      | .t b => storeFollow st B (termSetUp (st.1.follow B) b)
      | .n C => storeFollow st B (termSetOr (st.1.follow B) (st.1.first C))
    if !empty next then (st', k) else followScan empty B rest (k + 1) st'

/-- body of `for (j = 0; j < rhs_len; j++)` in a rule of nonterminal `A`: `x` is `rhs_symb`,
`rest` is `rhs[j + 1 …]`, `fc` is `first_continue_p` -/
def ffSym (empty : Sym → Bool) (A rhsLen : Nat) (x : Sym) (rest : List Sym) (j : Nat)
    (st : FF × Bool) (fc : Bool) : FF × Bool :=
  match x with
  | .t b => if fc then storeFirst st A (termSetUp (st.1.first A) b) else st
  | .n B =>
    let st1 := if fc then storeFirst st A (termSetOr (st.1.first A) (st.1.first B)) else st
    let p2 := followScan empty B rest (j + 1) st1
    if p2.2 == rhsLen then storeFollow p2.1 B (termSetOr (p2.1.1.follow B) (p2.1.1.follow A))
    else p2.1

/-- `for (j = 0; j < rhs_len; j++)` of one rule of nonterminal `A`: the list is `rhs[j …]`, the
state is the sets, `changed_p`, and `first_continue_p` -/
def ffRhs (empty : Sym → Bool) (A rhsLen : Nat) : List Sym → Nat → FF × Bool → Bool → FF × Bool
  | [], _, st, _ => st
  | x :: rest, j, st, fc =>
    ffRhs empty A rhsLen rest (j + 1) (ffSym empty A rhsLen x rest j st fc)
      (if !empty x then false else fc)

def ffRule (empty : Sym → Bool) (A : Nat) (st : FF × Bool) (r : Rule) : FF × Bool :=
  ffRhs empty A r.rhs.length r.rhs 0 st true

def ffNonterm (g : Grammar) (empty : Sym → Bool) (st : FF × Bool) (A : Nat) : FF × Bool :=
  (rulesOf g A).foldl (ffRule empty A) st

/-- one pass of the `do … while (changed_p)` loop -/
def ffPass (g : Grammar) (empty : Sym → Bool) (ff : FF) : FF × Bool :=
  (List.range g.nN).foldl (ffNonterm g empty) (ff, false)

/-- `term_set_clear` for every nonterminal -/
def ffInit : FF := { first := fun _ => 0, follow := fun _ => 0 }

/-- every pass but the last adds a terminal to one of the `2 * nN` sets -/
def ffFuel (g : Grammar) : Nat := 2 * (g.nN * g.nT) + 1

/-- `create_first_follow_sets ()` run with the `empty_p` flags `empty` -/
def firstFollowWith (g : Grammar) (empty : Sym → Bool) : FF :=
  (doWhile (ffPass g empty) (ffFuel g) ffInit).getD ffInit

/-- `create_first_follow_sets ()` as `check_grammar` calls it: after `set_empty_access_derives` -/
def firstFollowC (g : Grammar) : FF :=
  firstFollowWith g (emptyAccessDerives g).empty

/-! ## `set_loop_p` -/

/-- `for (j = 0; j < rule->rhs_len; j++) if (i == j) continue; else if (!rhs[j]->empty_p) break;`
— the list is `rhs[j …]`; returns the final `j` -/
def othersScan (empty : Sym → Bool) (i : Nat) : List Sym → Nat → Nat
  | [], j => j
  | x :: rest, j =>
    if i == j then othersScan empty i rest (j + 1)
    else if !empty x then j
    else othersScan empty i rest (j + 1)

/-- body of `for (i = 0; i < rule->rhs_len; i++)` of the initialisation:
`if (!(symb = rule->rhs[i])->term_p) { for (j …) …; if (j >= rule->rhs_len) symb->loop_p = 1; }` -/
def loopInitStep (empty : Sym → Bool) (r : Rule) (lp : Nat → Bool) (i : Nat) : Nat → Bool :=
  match (r.rhs[i]? : Option Sym) with
  | some (Sym.n B) => if othersScan empty i r.rhs 0 ≥ r.rhs.length then upd lp B true else lp
  | _ => lp

/-- the initialisation of one rule -/
def loopInitRule (empty : Sym → Bool) (lp : Nat → Bool) (r : Rule) : Nat → Bool :=
  (List.range r.rhs.length).foldl (loopInitStep empty r) lp

/-- the initialisation: all rules in creation order; `loop_p` is 0 since `symb_add_nonterm` -/
def loopInit (g : Grammar) (empty : Sym → Bool) : Nat → Bool :=
  g.rules.foldl (loopInitRule empty) (fun _ => false)

/-- body of `for (j = 0; j < rule->rhs_len; j++)` of the major cycle:
`if (!(symb = rule->rhs[j])->term_p && symb->loop_p) { for (k …) …; if (k >= rule->rhs_len) loop_p = 1; }`;
`acc` is the local `loop_p` -/
def loopRuleStep (empty : Sym → Bool) (lp : Nat → Bool) (r : Rule) (acc : Bool) (j : Nat) : Bool :=
  match (r.rhs[j]? : Option Sym) with
  | some (Sym.n B) =>
    if lp B then (if othersScan empty j r.rhs 0 ≥ r.rhs.length then true else acc) else acc
  | _ => acc

/-- one rule of the left-hand side under examination -/
def loopRule (empty : Sym → Bool) (lp : Nat → Bool) (acc : Bool) (r : Rule) : Bool :=
  (List.range r.rhs.length).foldl (loopRuleStep empty lp r) acc

/-- one left-hand side of the major cycle; the state is the flags and `changed_p` -/
def loopLhs (g : Grammar) (empty : Sym → Bool) (st : (Nat → Bool) × Bool) (A : Nat) :
    (Nat → Bool) × Bool :=
  if st.1 A then
    let loop_p := (rulesOf g A).foldl (loopRule empty st.1) false
    (upd st.1 A loop_p, if !loop_p then true else st.2)
  else st

/-- one pass of the major cycle -/
def loopPass (g : Grammar) (empty : Sym → Bool) (lp : Nat → Bool) : (Nat → Bool) × Bool :=
  (List.range g.nN).foldl (loopLhs g empty) (lp, false)

/-- every pass but the last clears the flag of one of the `nN` nonterminals -/
def loopFuel (g : Grammar) : Nat := g.nN + 1

/-- `set_loop_p ()` run with the `empty_p` flags `empty` -/
def loopWith (g : Grammar) (empty : Sym → Bool) : Nat → Bool :=
  (doWhile (loopPass g empty) (loopFuel g) (loopInit g empty)).getD (loopInit g empty)

/-- `set_loop_p ()` as `check_grammar` calls it: after `set_empty_access_derives` -/
def loopC (g : Grammar) : Nat → Bool :=
  loopWith g (emptyAccessDerives g).empty

/-! ## `check_grammar` -/

/-- the error code of `check_grammar (strict_p)` (0 = no error): `yaep_error` leaves by `longjmp`,
so the first error found is the one reported -/
def checkGrammarC (g : Grammar) (strict : Bool) : Nat :=
  let fl := emptyAccessDerives g
  let lp := loopC g
  let e1 : Option Nat :=
    if strict then
      (List.range g.nN).findSome? fun A =>
        if !fl.deriv (.n A) then some 15 else if !fl.access (.n A) then some 14 else none
    else
      -- `rules_ptr->first_rule->rhs[0]->derivation_p`
      match g.rules.head? with
      | some r0 =>
        match r0.rhs.head? with
        | some s => if !fl.deriv s then some 15 else none
        | none => none
      | none => none
  match e1 with
  | some e => e
  | none => if (List.range g.nN).any lp then 16 else 0

/-! ## the results as lists (for printing and comparing) -/

/-- `e= a= d= l=` of every nonterminal, as the verification hook prints them -/
def flagRows (g : Grammar) : List (Bool × Bool × Bool × Bool) :=
  let fl := emptyAccessDerives g
  let lp := loopC g
  (List.range g.nN).map fun A => (fl.empty (.n A), fl.access (.n A), fl.deriv (.n A), lp A)

/-- the terminals of a bit mask -/
def maskList (nT s : Nat) : List Nat := (List.range nT).filter fun a => s.testBit a

end Yaep.AC
