/-!
# The situation table of `src/yaep.c` (`sit_create`)

Situations are stored in one exemplar in a two-dimensional table `sit_table[context][offset]`
(`offset = rule->rule_start_offset + pos`).  The table is rebuilt by every `yaep_parse`, but the
context numbers come from the table of terminal sets of the grammar, which survives parses: a
later parse may ask first for a high context number.  `sit_create` therefore grows the table by
exactly the number of missing rows (ten rows at once when just one is missing at lookahead level
2) and initialises every new row.  Two seeded changes lived here (C12-2: only the requested row
initialised; C14-6: growth by a fixed number of rows).

| C (`sit_create`)                                               | here |
|---|---|
| `sit_table`, `VLO_BOUND (sit_table_vlo)`: rows allocated so far | `Tab.rows` (`none` = NULL cell) |
| `diff` in units of rows                                         | `missing` |
| `if (lookahead_level > 1 && diff == sizeof (struct sit **)) diff *= 10` | `growBy` |
| the `while (ptr < bound)` loop: allocate and clear each new row  | `List.replicate … (List.replicate width none)` |
| `(*context_sit_table_ptr)[offset]`: `none` = an access outside the rows / an uninitialised row | `Tab.cell` |
| `n_all_sits`, `sit->sit_number`                                  | `Tab.nSits`, the stored number |

Core Lean only.
-/
namespace Yaep.ST

structure Tab where
  rows : List (List (Option Nat)) := []
  nSits : Nat := 0
deriving Repr, DecidableEq, Inhabited

/-- rows to add for an access to row `ctx` when `have` rows exist (`have ≤ ctx`) -/
def growBy (level2 : Bool) (have_ ctx : Nat) : Nat :=
  let missing := ctx - have_ + 1
  if level2 && missing == 1 then 10 else missing

/-- the historic mistake of seeded change C14-6: "exactly one row is missing here" -/
def growByFixed (level2 : Bool) (_have ctx : Nat) : Nat := if level2 then 10 else 1

/-- the cell `sit_table[ctx][off]`: outer `none` = the access is outside the allocated rows or
the row (undefined behaviour in C) -/
def Tab.cell (t : Tab) (ctx off : Nat) : Option (Option Nat) :=
  match t.rows[ctx]? with
  | none => none
  | some row => row[off]?

def setCell (rows : List (List (Option Nat))) (ctx off v : Nat) : List (List (Option Nat)) :=
  rows.set ctx ((rows.getD ctx []).set off (some v))

/-- `sit_create (rule, pos, context)` with `off = rule_start_offset + pos` and `width` cells per
row; returns the table and the number of the situation, `none` if the C code would read or write
outside the table -/
def sitCreateWith (grow : Bool → Nat → Nat → Nat) (level2 : Bool) (width : Nat) (t : Tab) (ctx off : Nat) :
    Option (Tab × Nat) :=
  let rows := if ctx < t.rows.length then t.rows
    else t.rows ++ List.replicate (grow level2 t.rows.length ctx) (List.replicate width none)
  match (match rows[ctx]? with | none => none | some row => row[off]?) with
  | none => none
  | some (some n) => some ({ t with rows := rows }, n)
  | some none => some ({ rows := setCell rows ctx off (t.nSits + 1), nSits := t.nSits + 1 }, t.nSits + 1)

def sitCreate := sitCreateWith growBy
def sitCreateFixed := sitCreateWith growByFixed

/-- every row has `width` cells -/
def Tab.Wf (width : Nat) (t : Tab) : Prop := ∀ row ∈ t.rows, row.length = width

end Yaep.ST
