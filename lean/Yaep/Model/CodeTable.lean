/-!
# Token code → terminal: `symb_finish_adding_terms` and `symb_find_by_code` with C `int` arithmetic

The grammar keeps a dense vector `symb_code_trans_vect[code - start]` when the terminal codes
span fewer than `SYMB_CODE_TRANS_VECT_SIZE` values and a hash table otherwise.  The property
C15 ("`YAEP_INVALID_TOKEN_CODE` iff the code is not a declared terminal code", in particular for
unused codes lying between the smallest and the largest declared code) and C12 (no integer
overflow, no out-of-bounds access for sparse and dense codes) are about exactly this code, and
the repaired defect D29 (`max_code - min_code` overflowed for codes near `INT_MAX`) lived here.

C `int` operations are modelled partially: `none` is signed overflow, i.e. undefined behaviour.

| C (`src/yaep.c`)                                   | here |
|---|---|
| loop over `term_get (i)` computing `min_code`, `max_code` | `minMax` |
| `max_code - min_code < SIZE` (before the repair)   | `finishHistoric` (`isub`) |
| `(unsigned) max_code - (unsigned) min_code < SIZE` | `finish` (`usub`) |
| `symb_code_trans_vect_start / _end`, the vector, `NULL` entries for unused codes | `Table` |
| `symb_find_by_code` (vector if present, else `code_to_symb_tab`) | `find` |

Core Lean only.
-/
namespace Yaep.CT

def INT_MIN : Int := -2147483648
def INT_MAX : Int := 2147483647

/-- the value is representable in a C `int` -/
def fits (x : Int) : Bool := decide (INT_MIN ≤ x) && decide (x ≤ INT_MAX)

/-- `a - b` on `int`s; `none` = signed overflow -/
def isub (a b : Int) : Option Int := if fits (a - b) then some (a - b) else none

/-- `a + b` on `int`s; `none` = signed overflow -/
def iadd (a b : Int) : Option Int := if fits (a + b) then some (a + b) else none

/-- `(unsigned) a - (unsigned) b`: arithmetic modulo 2^32 on the bit patterns, always defined -/
def usub (a b : Int) : Nat := ((a - b) % 4294967296).toNat

/-- `min_code`, `max_code` as the C loop computes them (first code, then running min / max) -/
def minMax : List Int → Int × Int
  | [] => (0, 0)
  | c :: rest => rest.foldl (fun (p : Int × Int) x => (if p.1 > x then x else p.1, if p.2 < x then x else p.2)) (c, c)

/-- the dense vector: `vect[i]` is the number of the terminal with code `start + i` -/
structure Table where
  start : Int
  stop : Int                     -- `symb_code_trans_vect_end`
  vect : List (Option Nat)
deriving Repr, DecidableEq, Inhabited

/-- position of the terminal with the given code in the declaration order -/
def termOfCode (codes : List Int) (code : Int) : Option Nat :=
  let i := codes.findIdx (· == code)
  if i < codes.length then some i else none

def buildVect (codes : List Int) (start : Int) (len : Nat) : List (Option Nat) :=
  (List.range len).map fun (i : Nat) => termOfCode codes (start + (i : Int))

/-- `symb_finish_adding_terms` as repaired: outer `none` = undefined behaviour, inner `none` = no
vector (the hash table `code_to_symb_tab` is used) -/
def finish (size : Nat) (codes : List Int) : Option (Option Table) :=
  let (mn, mx) := minMax codes
  if usub mx mn < size then
    match iadd mx 1, isub mx mn with
    | some stop, some d =>
      match iadd d 1 with
      | some len => some (some { start := mn, stop := stop, vect := buildVect codes mn len.toNat })
      | none => none
    | _, _ => none
  else some none

/-- the same before the repair of D29: the range test is a signed subtraction -/
def finishHistoric (size : Nat) (codes : List Int) : Option (Option Table) :=
  let (mn, mx) := minMax codes
  match isub mx mn with
  | none => none
  | some d =>
    if d < size then
      match iadd mx 1, iadd d 1 with
      | some stop, some len => some (some { start := mn, stop := stop, vect := buildVect codes mn len.toNat })
      | _, _ => none
    else some none

/-- an access `vect[i]`: `none` = out of bounds (undefined behaviour) -/
def vectGet (t : Table) (i : Int) : Option (Option Nat) :=
  if 0 ≤ i ∧ i.toNat < t.vect.length then some (t.vect.getD i.toNat none) else none

/-- `symb_find_by_code`: outer `none` = undefined behaviour (overflow or out-of-bounds read) -/
def find (codes : List Int) (tab : Option Table) (code : Int) : Option (Option Nat) :=
  match tab with
  | none => some (termOfCode codes code)          -- hash table keyed by the code
  | some t =>
    if code < t.start || code ≥ t.stop then some none
    else match isub code t.start with
      | some i => vectGet t i
      | none => none

end Yaep.CT
