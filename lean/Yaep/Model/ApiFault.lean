import Yaep.Model.Api
/-!
# The API state machine under a single failing allocation (C17)

`apiStepFault s op` is the call `op` during which one internal memory request of the library
fails.  What the property fixes — and what the judge applies to every injected failure of the
fault enumeration — is:

* `yaep_create_grammar` returns NULL: no object comes into being;
* a definition returns `YAEP_NO_MEMORY` (1), records it, and leaves the object *undefined*
  (exactly like any other failed definition: `ObjState.define (.error 1)`);
* `yaep_parse` returns `YAEP_NO_MEMORY`, records it, and leaves definition and settings as they were
  (`ObjState.record 1`: the repaired defect e824b5c was a parse that left the one-parse flag switched off);
* setters, `yaep_error_code` and `yaep_free_grammar` request no memory: a failure "during" them cannot
  happen (the judge reports an allocation inside `yaep_free_grammar` as a violation).

Core Lean only.
-/
namespace Yaep

/-- `YAEP_NO_MEMORY` -/
def noMemory : Int := 1

/-- one object under a call in which an allocation fails; `none`: the call requests no memory -/
def objStepFault (o : ObjState) : ApiOp → Option (ObjState × ApiRes)
  | .create _ => some ({}, .unit)                                   -- NULL: the slot stays dead
  | .define _ _ => some ((o.define (.error (1 : Nat))).1, .rc noMemory)
  | .parse _ _ _ _ => some (o.record noMemory, .rc noMemory)
  | .set _ _ _ | .errcode _ | .free _ => none

/-- the object table under a call in which an allocation fails -/
def apiStepFault (s : List ObjState) (op : ApiOp) : Option (List ObjState × ApiRes) :=
  match objStepFault (objAt s op.handle) op with
  | some (o', r) => some (setAt s op.handle o', r)
  | none => none

end Yaep
