import Yaep.Model.Earley
/-!
# Construction of the Earley sets of `src/yaep.c`, step for step (lookahead levels 0 and 1)

`Yaep/Model/Earley.lean` computes every set as a generic closure.  The C code does not: it
builds a set in phases (start situations with distances; derived non-start situations with
parent indexes; initial situations), stores the situations of a set once per *core* (cores
are hash-consed on their start situations only) and records per (core, symbol) the vectors
of situation indices used for shifts and reductions.  This file is an executable
transcription of that code, function by function, as pure functions on lists.  Nothing is
improved.  Compile-time configuration modelled: `TRANSITIVE_TRANSITION` and
`ABSOLUTE_DISTANCES` undefined, `USE_SET_HASH_TABLE` defined, `lookahead_level ≤ 1` (a
situation is the pair `(rule, dot)`, its context is 0).

## Map from the C code to this file

| C (`src/yaep.c`)                                              | here |
|---|---|
| `struct sit` at levels 0/1 (`rule`, `pos`; `context = 0`)      | `Sit = rule number × dot` |
| `sit->empty_tail_p` (`sit_set_lookahead`)                      | `emptyTailP` |
| `sit->lookahead` and the test `!term_set_test (…lookahead_term_num) && !term_set_test (…term_error_num)` | the argument `ok` of `buildNewSet` (`parseLoopC` passes `okItem g an la nxt`) |
| `symb->empty_p`                                                | `symNullable an.nl` (`an.nl = g.nullable` in `buildPLC`) |
| `symb->u.nonterm.rules`, `rule->lhs_next` (`rule_new_start` puts a new rule at the head of the chain: DEcreasing rule number) | `rulesOf` (`g.rulesFor` reversed) |
| `struct set_core` (`num`, `n_start_sits`, `n_all_dists`, `sits`, `n_sits = |sits|`, `parent_indexes` — the C pointer is shifted by `- n_start_sits`, the list here is not) | `Core` (`num`, `nStart`, `nAllDists`, `sits`, `parents`) |
| `struct core_symb_vect` of a core: `transitions`, `reduces`    | `Core.trans`, `Core.reduces` (association lists in creation order, elements in insertion order); a triple of the C code is born with its first element, see `vadd` |
| `core_symb_vect_find`                                          | `Core.find` (a triple exists iff one of the two vectors has an entry), `Core.transOf`, `Core.reducesOf` |
| `core_symb_vect_new` + `core_symb_vect_new_add_transition_el`  | `Core.addTransEl` |
| `core_symb_vect_new` + `core_symb_vect_new_add_reduce_el`      | `Core.addReduceEl` |
| `struct set` (`core`, `dists`)                                 | `CSet` |
| `new_sits`, `new_dists`, `new_n_start_sits` before `set_insert` | `NewStart` (list of pairs `(situation, distance)`) |
| `set_new_start`                                                | `setNewStart` |
| `set_new_add_start_sit`                                        | `addStartSit` |
| `sit_dist_insert` (emptied by `empty_sit_dist_set` at the start of `build_new_set`; every inserted pair is then added as a start situation) | `sitDistInsert` (membership in the pairs added so far) |
| `set_add_new_nonstart_sit` (duplicate scan `[n_start_sits, n_sits)`, situation AND parent) | `addNonstartSit`, `dupNonstart` |
| `set_new_add_initial_sit` (duplicate scan `[n_all_dists, n_sits)`) | `addInitialSit` |
| the same with the scan starting at `n_start_sits` (historic defect D13) | `addInitialSitD13` |
| `add_derived_nonstart_sits`                                    | `addDerivedNonstartSits`, `addDerivedLoop` |
| `expand_new_start_set`: first `for`                            | `expandLoop1` |
| — second `for` (`i < new_core->n_sits`, `n_sits` grows)         | `expandStep2`, `expandLoop2` (`scanLoop`: index + fuel `expandFuel`) |
| — third `for`                                                  | `expandStep3`, `expandLoop3` |
| — the `lookahead_level > 1` block, `set_new_core_stop`, `core_symb_vect_new_all_stop` (sharing of equal vectors) | not modelled (unobservable at levels 0/1) |
| `set_core_tab`, `set_dists_tab`, `set_tab`, `n_set_cores`, `n_set_dists`, `n_sets` | `Tab` |
| `set_core_eq`                                                  | `coreKeyEq` |
| `set_insert`                                                   | `setInsert` |
| the table entry and `new_core` are the same object: `expand_new_start_set` fills the core the table refers to | `Tab.storeCore` |
| `build_start_set`                                              | `buildStartSet` |
| `build_new_set`: first `for`                                   | `shiftSit`, `addShifted`, `newSetLoop1` |
| — second `for` (`i < new_n_start_sits`, grows)                  | `newSetStep2`, `newSetLoop2` (`scanLoop`: index + fuel `newSetFuel`) |
| `do … while (curr_el < bound)` entered with an empty transition vector (`assert (curr_el != NULL)`; only a reduce vector exists for the left-hand side) | flag `Tab.bad` |
| distance of situation `sit_ind` of a stored set                | `CSet.distOf` |
| hook `yaep_verif_dump_pl`: origin of situation `i` of `pl[j]`   | `CSet.originOf`, `CSet.items` |
| main loop of `build_pl` without goto cache and error recovery  | `parseLoopC`, `buildPLC`, `acceptsC` |

`new_core->term` (used by error recovery only) is not modelled.

Notes.
* `set_add_new_nonstart_sit` is only called while `n_sits = n_all_dists` (first loop of
  `expand_new_start_set`); `dupNonstart` pairs the situations from `n_start_sits` on with the
  parent indexes, which is the C scan in that state.
* The order of the situations (`CSet.items`) and the counters `Tab.nCores`, `Tab.nDists`,
  `Tab.nSets` were compared with the real library (hook `yaep_verif_dump_pl`: lines `set`, `cnt`)
  on several thousand generated grammar/input pairs at levels 0 and 1: identical.
* What is proved about this model: `Yaep/Props/BuildSet.lean`.
-/
namespace Yaep.BS
open Yaep

/-- a situation at lookahead levels 0 and 1: rule number and dot -/
abbrev Sit := Nat × Nat

/-- the chain `symb->u.nonterm.rules`, `rule->lhs_next`: the rules of `A`, the last one first -/
def rulesOf (g : Grammar) (A : Nat) : List Nat := (g.rulesFor A).reverse

/-! ## vectors of a core -/

/-- the vector stored for key `k` -/
def vfind {κ : Type} [DecidableEq κ] : List (κ × List Nat) → κ → Option (List Nat)
  | [], _ => none
  | (k', v) :: rest, k => if k' = k then some v else vfind rest k

/-- append `i` to the vector of `k`; the vector is created (at the end) if there is none -/
def vadd {κ : Type} [DecidableEq κ] : List (κ × List Nat) → κ → Nat → List (κ × List Nat)
  | [], k, i => [(k, [i])]
  | (k', v) :: rest, k, i =>
    if k' = k then (k', v ++ [i]) :: rest else (k', v) :: vadd rest k i

/-- `struct set_core` together with its `core_symb_vect` triples -/
structure Core where
  num : Nat := 0
  sits : List Sit := []
  nStart : Nat := 0
  nAllDists : Nat := 0
  parents : List Nat := []
  trans : List (Sym × List Nat) := []
  reduces : List (Nat × List Nat) := []
deriving Repr, Inhabited, DecidableEq

/-- `struct set` -/
structure CSet where
  core : Core := {}
  dists : List Nat := []
deriving Repr, Inhabited, DecidableEq

def Core.transOf (c : Core) (X : Sym) : Option (List Nat) := vfind c.trans X
def Core.reducesOf (c : Core) (A : Nat) : Option (List Nat) := vfind c.reduces A

/-- `core_symb_vect_find (core, symb) != NULL` -/
def Core.find (c : Core) (X : Sym) : Bool :=
  (c.transOf X).isSome ||
    match X with
    | .n A => (c.reducesOf A).isSome
    | .t _ => false

def Core.addTransEl (c : Core) (X : Sym) (i : Nat) : Core := { c with trans := vadd c.trans X i }
def Core.addReduceEl (c : Core) (A : Nat) (i : Nat) : Core :=
  { c with reduces := vadd c.reduces A i }

/-! ## the set being formed -/

/-- `new_sits[k]`, `new_dists[k]` for `k < new_n_start_sits` -/
abbrev NewStart := List (Sit × Nat)

def setNewStart : NewStart := []

def addStartSit (ns : NewStart) (sit : Sit) (dist : Nat) : NewStart := ns ++ [(sit, dist)]

/-- `TRUE` iff the pair was not there -/
def sitDistInsert (ns : NewStart) (sit : Sit) (dist : Nat) : Bool := !ns.contains (sit, dist)

/-- the scan of `set_add_new_nonstart_sit` -/
def dupNonstart (c : Core) (sit : Sit) (parent : Nat) : Bool :=
  ((c.sits.drop c.nStart).zip c.parents).contains (sit, parent)

def addNonstartSit (c : Core) (sit : Sit) (parent : Nat) : Core :=
  if dupNonstart c sit parent then c
  else { c with sits := c.sits ++ [sit], nAllDists := c.nAllDists + 1,
                parents := c.parents ++ [parent] }

def addInitialSit (c : Core) (sit : Sit) : Core :=
  if (c.sits.drop c.nAllDists).contains sit then c else { c with sits := c.sits ++ [sit] }

/-- the historic version: the scan also covers the derived non-start situations -/
def addInitialSitD13 (c : Core) (sit : Sit) : Core :=
  if (c.sits.drop c.nStart).contains sit then c else { c with sits := c.sits ++ [sit] }

/-- `for (i = pos; (symb = rhs[i]) != NULL && symb->empty_p; i++)`; the list is `rhs[i..]` -/
def addDerivedLoop (nl : List Nat) (r parent : Nat) : List Sym → Nat → Core → Core
  | [], _, c => c
  | s :: rest, i, c =>
    if symNullable nl s then addDerivedLoop nl r parent rest (i + 1) (addNonstartSit c (r, i + 1) parent)
    else c

def addDerivedNonstartSits (g : Grammar) (an : Analysis) (c : Core) (sit : Sit) (parent : Nat) :
    Core :=
  match g.rules[sit.1]? with
  | none => c
  | some rl => addDerivedLoop an.nl sit.1 parent (rl.rhs.drop sit.2) sit.2 c

/-! ## `expand_new_start_set` -/

def expandLoop1 (g : Grammar) (an : Analysis) (c : Core) : Core :=
  (List.range c.nStart).foldl
    (fun c i => addDerivedNonstartSits g an c (c.sits.getD i default) i) c

/-- body of the second loop; `init` is `set_new_add_initial_sit` or its historic version -/
def expandStep2With (init : Core → Sit → Core) (g : Grammar) (an : Analysis) (c : Core)
    (i : Nat) : Core :=
  let sit := c.sits.getD i default
  match g.nextSym sit.1 sit.2 with
  | none => c
  | some symb =>
    let c1 :=
      if c.find symb then c
      else
        match symb with
        | .n B => (rulesOf g B).foldl (fun c r => init c (r, 0)) c
        | .t _ => c
    let c2 := c1.addTransEl symb i
    if symNullable an.nl symb && decide (c2.nAllDists ≤ i) then init c2 (sit.1, sit.2 + 1) else c2

/-- `for (i = 0; i < n_sits; i++)` — the second loop of `expand_new_start_set` —
and `for (i = 0; i < new_n_start_sits; i++)` — the second loop of `build_new_set`: the list
scanned grows while it is scanned.  `len` reads the current length, `step` is the body. -/
def scanLoop {σ : Type} (len : σ → Nat) (step : σ → Nat → σ) : Nat → Nat → σ → σ
  | 0, _, s => s
  | fuel + 1, i, s => if i < len s then scanLoop len step fuel (i + 1) (step s i) else s

def expandLoop2With (init : Core → Sit → Core) (g : Grammar) (an : Analysis) (fuel : Nat)
    (c : Core) : Core :=
  scanLoop (fun c => c.sits.length) (expandStep2With init g an) fuel 0 c

def expandStep3 (g : Grammar) (c : Core) (i : Nat) : Core :=
  let sit := c.sits.getD i default
  match g.rules[sit.1]? with
  | none => c
  | some rl => if sit.2 = rl.rhs.length then c.addReduceEl rl.lhs i else c

def expandLoop3 (g : Grammar) (c : Core) : Core :=
  (List.range c.sits.length).foldl (expandStep3 g) c

/-- number of situations `(rule, dot)` of the grammar, a bound for the initial situations -/
def sitBound (g : Grammar) : Nat := g.rules.length * (g.maxRhs + 1)

/-- fuel of the second loop: it ends at index `n_sits ≤ n_all_dists + sitBound` -/
def expandFuel (g : Grammar) (c : Core) : Nat := c.nAllDists + sitBound g + 1

def expandNewStartSetWith (init : Core → Sit → Core) (g : Grammar) (an : Analysis) (c : Core) :
    Core :=
  let c1 := expandLoop1 g an c
  let c2 := expandLoop2With init g an (expandFuel g c1) c1
  expandLoop3 g c2

abbrev expandStep2 := expandStep2With addInitialSit
abbrev expandLoop2 := expandLoop2With addInitialSit
def expandNewStartSet := expandNewStartSetWith addInitialSit

/-! ## `set_insert` -/

/-- the three tables and the counters; `bad` records an entry into the `do … while` of
`build_new_set` with an empty vector -/
structure Tab where
  cores : List Core := []
  distVecs : List (List Nat) := []
  sets : List (Nat × List Nat) := []
  nCores : Nat := 0
  nDists : Nat := 0
  nSets : Nat := 0
  bad : Bool := false
deriving Repr, Inhabited

/-- `set_core_eq`: same number of start situations, same start situations -/
def coreKeyEq (sits : List Sit) (c : Core) : Bool :=
  c.nStart == sits.length && c.sits.take c.nStart == sits

/-- a fresh core holding only the start situations -/
def Core.fresh (num : Nat) (sits : List Sit) : Core :=
  { num := num, sits := sits, nStart := sits.length, nAllDists := sits.length }

/-- Returns the new table, `new_set`, and the result of `set_insert` (`TRUE`: new core). -/
def setInsert (tab : Tab) (ns : NewStart) : Tab × CSet × Bool :=
  let sits := ns.map (·.1)
  let dists := ns.map (·.2)
  let tab :=
    if tab.distVecs.contains dists then tab
    else { tab with distVecs := tab.distVecs ++ [dists], nDists := tab.nDists + 1 }
  let (tab, core, isNew) :=
    match tab.cores.find? (coreKeyEq sits) with
    | some c => (tab, c, false)
    | none =>
      let c := Core.fresh tab.nCores sits
      ({ tab with cores := tab.cores ++ [c], nCores := tab.nCores + 1 }, c, true)
  let tab :=
    if tab.sets.contains (core.num, dists) then tab
    else { tab with sets := tab.sets ++ [(core.num, dists)], nSets := tab.nSets + 1 }
  (tab, { core := core, dists := dists }, isNew)

/-- What `core_symb_vect_new_all_stop` counts over all cores of a parse: the number of triples
(one per core and symbol with a transition or a reduce vector), the number of distinct non-empty
transition vectors with their total length, the same for the reduce vectors
(`n_core_symb_pairs`, `n_transition_vects`, `n_transition_vect_len`, `n_reduce_vects`,
`n_reduce_vect_len`). -/
def vectCounts (tab : Tab) : List Nat :=
  let pairs := tab.cores.foldl (fun k c =>
    k + ((c.trans.map (·.1)) ++ ((c.reduces.map (Sym.n ·.1)).filter fun X => !(c.trans.map (·.1)).contains X)).length) 0
  let ts := ((tab.cores.flatMap fun c => c.trans.map (·.2)).filter (· != [])).eraseDups
  let rs := ((tab.cores.flatMap fun c => c.reduces.map (·.2)).filter (· != [])).eraseDups
  [pairs, ts.length, (ts.map List.length).sum, rs.length, (rs.map List.length).sum]

/-- the core in the table and `new_core` are one object -/
def Tab.storeCore (tab : Tab) (c : Core) : Tab := { tab with cores := tab.cores.set c.num c }

/-! ## `build_start_set` -/

def buildStartSetWith (init : Core → Sit → Core) (g : Grammar) (an : Analysis) : Tab × CSet :=
  let ns := (rulesOf g g.axiomN).foldl (fun ns r => addStartSit ns (r, 0) 0) setNewStart
  let (tab, cs, _) := setInsert {} ns
  let c := expandNewStartSetWith init g an cs.core
  (tab.storeCore c, { cs with core := c })

def buildStartSet := buildStartSetWith addInitialSit

/-! ## `build_new_set` -/

/-- distance of situation `i` of a stored set (the tests in the order of `build_new_set`) -/
def CSet.distOf (s : CSet) (i : Nat) : Nat :=
  if s.core.nAllDists ≤ i then 0
  else if i < s.core.nStart then s.dists.getD i 0
  else s.dists.getD (s.core.parents.getD (i - s.core.nStart) 0) 0

/-- `sit->empty_tail_p` -/
def emptyTailP (g : Grammar) (an : Analysis) (sit : Sit) : Bool :=
  match g.rules[sit.1]? with
  | some rl => (rl.rhs.drop sit.2).all (symNullable an.nl)
  | none => false

def lhsOf (g : Grammar) (sit : Sit) : Nat := (g.rules.getD sit.1 default).lhs

/-- situation `ind` of the stored set `s` with the dot moved, its distance being the
stored one plus `base`; `none` if the lookahead test fails -/
def shiftSit (ok : Nat → Nat → Bool) (s : CSet) (base : Nat) (ind : Nat) : Option (Sit × Nat) :=
  let sit := s.core.sits.getD ind default
  if ok sit.1 (sit.2 + 1) then some ((sit.1, sit.2 + 1), s.distOf ind + base) else none

def addShifted (ok : Nat → Nat → Bool) (s : CSet) (base : Nat) (ns : NewStart) (ind : Nat) :
    NewStart :=
  match shiftSit ok s base ind with
  | none => ns
  | some (sit, dist) => if sitDistInsert ns sit dist then addStartSit ns sit dist else ns

def newSetLoop1 (ok : Nat → Nat → Bool) (set : CSet) (tr : List Nat) : NewStart :=
  tr.foldl (addShifted ok set 1) setNewStart

/-- body of the second loop; the state is the start situations and the `bad` flag -/
def newSetStep2 (g : Grammar) (an : Analysis) (ok : Nat → Nat → Bool) (pl : List CSet)
    (plCurr : Nat) (st : NewStart × Bool) (i : Nat) : NewStart × Bool :=
  let (newSit, newDist) := st.1.getD i default
  if emptyTailP g an newSit then
    let place := plCurr + 1 - newDist
    let prev := pl.getD place default
    if prev.core.find (.n (lhsOf g newSit)) then
      let tr := (prev.core.transOf (.n (lhsOf g newSit))).getD []
      (tr.foldl (addShifted ok prev newDist) st.1, st.2 || tr.isEmpty)
    else st
  else st

def newSetLoop2 (g : Grammar) (an : Analysis) (ok : Nat → Nat → Bool) (pl : List CSet)
    (plCurr : Nat) (fuel : Nat) (st : NewStart × Bool) : NewStart × Bool :=
  scanLoop (fun st => st.1.length) (newSetStep2 g an ok pl plCurr) fuel 0 st

/-- distinct pairs `(situation, distance)` with `distance ≤ |pl|`, plus one -/
def newSetFuel (g : Grammar) (pl : List CSet) : Nat := sitBound g * (pl.length + 1) + 1

/-- `build_new_set (set, core_symb_vect_find (set->core, X), lookahead)`; `pl_curr` is the
index of the last element of `pl` (which is `set`) -/
def buildNewSetWith (init : Core → Sit → Core) (g : Grammar) (an : Analysis)
    (ok : Nat → Nat → Bool) (tab : Tab) (pl : List CSet) (set : CSet) (X : Sym) : Tab × CSet :=
  let ns1 := newSetLoop1 ok set ((set.core.transOf X).getD [])
  let (ns, bad) := newSetLoop2 g an ok pl (pl.length - 1) (newSetFuel g pl) (ns1, false)
  let (tab, cs, isNew) := setInsert tab ns
  let tab := { tab with bad := tab.bad || bad }
  if isNew then
    let c := expandNewStartSetWith init g an cs.core
    (tab.storeCore c, { cs with core := c })
  else (tab, cs)

def buildNewSet := buildNewSetWith addInitialSit

/-! ## the parse list -/

/-- origin of situation `i` of the set at list position `j` (order of the tests as in the
hook that prints the parse list) -/
def CSet.originOf (s : CSet) (j i : Nat) : Nat :=
  if i < s.core.nStart then j - s.dists.getD i 0
  else if i < s.core.nAllDists then j - s.dists.getD (s.core.parents.getD (i - s.core.nStart) 0) 0
  else j

/-- the items of the set at list position `j`, in the order of the core -/
def CSet.items (j : Nat) (s : CSet) : List Item :=
  (List.range s.core.sits.length).map fun i =>
    let sit := s.core.sits.getD i default
    ⟨sit.1, sit.2, s.originOf j i⟩

def parseLoopCWith (init : Core → Sit → Core) (g : Grammar) (an : Analysis) (la : Nat) :
    List Nat → Tab → List CSet → Nat → Option Nat × Tab × List CSet
  | [], tab, pl, _ => (none, tab, pl)
  | a :: rest, tab, pl, k =>
    let set := pl.getLastD default
    if set.core.find (.t a) then
      let r := buildNewSetWith init g an (okItem g an la rest.head?) tab pl set (.t a)
      parseLoopCWith init g an la rest r.1 (pl ++ [r.2]) (k + 1)
    else (some k, tab, pl)

def parseLoopC := parseLoopCWith addInitialSit

def buildPLCWith (init : Core → Sit → Core) (g : Grammar) (la : Nat) (w : List Nat) :
    Option Nat × Tab × List CSet :=
  let r := buildStartSetWith init g g.analysis
  parseLoopCWith init g g.analysis la (w ++ [g.eofT]) r.1 [r.2] 0

/-- `build_pl`; tokens are terminal numbers, the end marker is appended here -/
def buildPLC := buildPLCWith addInitialSit

/-- the same with the historic `set_new_add_initial_sit` -/
def buildPLCD13 := buildPLCWith addInitialSitD13

def acceptsC (g : Grammar) (la : Nat) (w : List Nat) : Bool := (buildPLC g la w).1.isNone

/-- the parse list as lists of items -/
def plItems (pl : List CSet) : List (List Item) :=
  (List.range pl.length).map fun j => (pl.getD j default).items j

end Yaep.BS
