/-!
# Model of `objstack.h` / `objstack.c` / `objstack.cpp` (property C19)

Memory is modelled explicitly: every segment has its own byte memory (an array of
`Option Nat`, read with `Mem.get`; `none` = contents not specified: fresh `malloc` memory and
bytes added by `OS_TOP_EXPAND`).
Addresses are `(segment id, offset)`; offsets are relative to the aligned beginning of the
segment contents (`_OS_ALIGNED_ADDRESS (segment->os_segment_contest)`), which is `_OS_ALIGNMENT`
aligned, so aligning an address is aligning its offset.

The finished objects are *not* stored separately: the model only records, like a user of the
package, the address of each finished object together with a ghost copy of its bytes taken at
`OS_TOP_FINISH` time.  `readObj` reads the bytes back from the segment memory; the theorem
`os_finished_immutable` says that this always gives the ghost copy.
-/
namespace Yaep.Model.ObjStack

/-- `_OS_ALIGNMENT` = `offsetof (struct {char; double}, double)` (x86-64: 8) -/
def alignment : Nat := 8
/-- `OS_DEFAULT_SEGMENT_LENGTH` -/
def defaultSegmentLength : Nat := 512

/-- `_OS_ALIGNED_ADDRESS` on offsets -/
def alignUp (a : Nat) : Nat := (a + (alignment - 1)) / alignment * alignment

/-- byte memory of one allocation; cells beyond the array and `none` cells are unspecified -/
abbrev Mem := Array (Option Nat)

def Mem.get (m : Mem) (i : Nat) : Option Nat := (m[i]?).getD none

/-- the memory whose first `n` cells are given by `f` -/
def tabulate (n : Nat) (f : Nat → Option Nat) : Mem := (Array.range n).map f

def emptyMem : Mem := #[]

/-- `memcpy (mem + off, bs, bs.length)` -/
def writeAt (m : Mem) (off : Nat) (bs : List Nat) : Mem :=
  let a := bs.toArray
  tabulate (max m.size (off + a.size)) fun i =>
    if off ≤ i ∧ i < off + a.size then a[i - off]? else m.get i

/-- the bytes `[off, off+n)` become unspecified -/
def havoc (m : Mem) (off n : Nat) : Mem :=
  tabulate m.size fun i => if off ≤ i ∧ i < off + n then none else m.get i

def readMem (m : Mem) (off len : Nat) : List (Option Nat) :=
  (List.range len).map fun i => m.get (off + i)

structure Seg where
  id : Nat
  /-- the `segment_length` the segment was allocated with: `os_boundary` never exceeds it; the
  allocation itself is `cap + sizeof (struct _os_segment)`, i.e. at least `cap + alignment`
  bytes after the aligned beginning -/
  cap : Nat
  mem : Mem

structure Obj where
  seg : Nat
  off : Nat
  /-- ghost: the bytes of the object when it was finished -/
  bytes : List (Option Nat)

structure Stack where
  /-- `initial_segment_length` -/
  initLen : Nat
  /-- `os_current_segment` -/
  cur : Seg
  /-- the chain `os_previous_segment`, most recent first -/
  prev : List Seg
  /-- `os_top_object_start`, `os_top_object_free`, `os_boundary` as offsets in `cur` -/
  start : Nat
  free : Nat
  boundary : Nat
  /-- next fresh segment id -/
  nextId : Nat
  /-- addresses (and ghost bytes) of the objects finished since the last `OS_EMPTY` -/
  finished : List Obj

/-- `OS_CREATE` / `_OS_create_function` -/
def create (initialSegmentLength : Nat) : Stack :=
  let l := if initialSegmentLength = 0 then defaultSegmentLength else initialSegmentLength
  { initLen := l, cur := ⟨0, l, emptyMem⟩, prev := [], start := 0, free := 0, boundary := l,
    nextId := 1, finished := [] }

/-- `OS_TOP_LENGTH` -/
def Stack.topLength (s : Stack) : Nat := s.free - s.start

/-- the bytes of the top object, read from memory -/
def Stack.top (s : Stack) : List (Option Nat) := readMem s.cur.mem s.start s.topLength

/-- `_OS_expand_memory (os, additional_length)` -/
def expandMemory (s : Stack) (add : Nat) : Stack :=
  let len := s.topLength
  let l0 := len + add
  let l1 := l0 + (l0 / 2 + 1)
  let segLen := if l1 < defaultSegmentLength then defaultSegmentLength else l1
  let newSeg : Seg :=
    ⟨s.nextId, segLen, tabulate len fun i => s.cur.mem.get (s.start + i)⟩
  { s with
    cur := newSeg
    -- the current segment is freed iff the top object begins at its beginning
    prev := if s.start = 0 then s.prev else s.cur :: s.prev
    start := 0, free := len, boundary := segLen, nextId := s.nextId + 1 }

/-- `OS_TOP_ADD_MEMORY` -/
def addBytes (s : Stack) (bs : List Nat) : Stack :=
  let s1 := if s.free + bs.length > s.boundary then expandMemory s bs.length else s
  { s1 with cur := { s1.cur with mem := writeAt s1.cur.mem s1.free bs }, free := s1.free + bs.length }

/-- `OS_TOP_ADD_BYTE` -/
def addByte (s : Stack) (b : Nat) : Stack :=
  let s1 := if s.free ≥ s.boundary then expandMemory s 1 else s
  { s1 with cur := { s1.cur with mem := writeAt s1.cur.mem s1.free [b] }, free := s1.free + 1 }

/-- `OS_TOP_EXPAND` -/
def expand (s : Stack) (n : Nat) : Stack :=
  let s1 := if s.free + n > s.boundary then expandMemory s n else s
  { s1 with cur := { s1.cur with mem := havoc s1.cur.mem s1.free n }, free := s1.free + n }

/-- `OS_TOP_SHORTEN` -/
def shorten (s : Stack) (n : Nat) : Stack :=
  if s.topLength < n then { s with free := s.start } else { s with free := s.free - n }

/-- `OS_TOP_NULLIFY` -/
def nullify (s : Stack) : Stack := { s with free := s.start }

/-- `OS_TOP_FINISH` (the harness notes `OS_TOP_BEGIN`/`OS_TOP_LENGTH` and the bytes before) -/
def finish (s : Stack) : Stack :=
  { s with
    finished := s.finished ++ [⟨s.cur.id, s.start, s.top⟩]
    start := alignUp s.free, free := alignUp s.free }

/-- the segment with `os_previous_segment == NULL` -/
def Stack.firstSeg (s : Stack) : Seg := (s.prev.getLast?).getD s.cur

/-- `OS_EMPTY` / `_OS_empty_function`: all segments but the first are freed, all objects die -/
def empty (s : Stack) : Stack :=
  { s with cur := s.firstSeg, prev := [], start := 0, free := 0, boundary := s.initLen,
           finished := [] }

def Stack.segs (s : Stack) : List Seg := s.cur :: s.prev

def Stack.findSeg (s : Stack) (id : Nat) : Option Seg := s.segs.find? (·.id == id)

/-- what is now at the address of a finished object (`none`: its segment was freed) -/
def Stack.readObj (s : Stack) (o : Obj) : Option (List (Option Nat)) :=
  match s.findSeg o.seg with
  | some sg => some (readMem sg.mem o.off o.bytes.length)
  | none => if o.bytes.length = 0 then some [] else none

inductive Op where
  | addBytes (bs : List Nat)
  | addByte (b : Nat)
  | expand (n : Nat)
  | shorten (n : Nat)
  | nullify
  | finish
  | empty
  | top      -- observation only
  | check    -- observation only

def stepOp (s : Stack) : Op → Stack
  | .addBytes bs => addBytes s bs
  | .addByte b => addByte s b
  | .expand n => expand s n
  | .shorten n => shorten s n
  | .nullify => nullify s
  | .finish => finish s
  | .empty => empty s
  | .top => s
  | .check => s

def run (s : Stack) (ops : List Op) : Stack := ops.foldl stepOp s

end Yaep.Model.ObjStack
