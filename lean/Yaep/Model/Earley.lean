import Yaep.Model.Analysis
/-!
# The parse list (Earley sets) as yaep computes it — lookahead levels 0 and 1

Set `j+1` is the closure, under *predict* and *completion*, of the items obtained by
*scanning* token `j` from set `j`.  yaep's lookahead test (`build_new_set`) is applied to
exactly the items it creates as "start situations": items produced by a scan and items
produced by a completion whose completed item has an origin before the current set.
Predicted items and completions inside the current set (yaep: advancing over a nullable
nonterminal) are never filtered.
-/
namespace Yaep

/-- static analysis results used by the lookahead test -/
structure Analysis where
  nl : List Nat
  fs : List (Nat × Nat)
  fl : List (Nat × Nat)
deriving Repr, Inhabited

def Grammar.analysis (g : Grammar) : Analysis :=
  { nl := g.nullable, fs := g.firstTab, fl := g.followTab }

/-- `sit->lookahead` at level 1: FIRST(tail) ∪ (FOLLOW(lhs) if the tail is nullable) -/
def laSet (g : Grammar) (an : Analysis) (r d : Nat) : List Nat :=
  match g.rules[r]? with
  | none => []
  | some rl =>
    let (f, e) := firstOfStr an.nl an.fs (rl.rhs.drop d)
    if e then f ++ (an.fl.filterMap fun p => if p.1 == rl.lhs then some p.2 else none) else f

/-- the test of `build_new_set`: `nxt = none` means "lookahead ignored" (level 0, last
token, or an `error` shift) -/
def okItem (g : Grammar) (an : Analysis) (la : Nat) (nxt : Option Nat) (r d : Nat) : Bool :=
  match la, nxt with
  | 0, _ => true
  | _, none => true
  | _, some a => let s := laSet g an r d; s.contains a || s.contains g.errT

/-- advance the dot of every item of `src` that has `X` after the dot and passes `keep` -/
def advanceOver (g : Grammar) (X : Sym) (keep : Nat → Nat → Bool) (src : List Item) : List Item :=
  src.filterMap fun p =>
    if g.nextSym p.rule p.dot = some X ∧ keep p.rule (p.dot + 1) = true
    then some ⟨p.rule, p.dot + 1, p.origin⟩ else none

def Grammar.predictItems (g : Grammar) (B j : Nat) : List Item :=
  (g.rulesFor B).map fun r => ⟨r, 0, j⟩

/-- everything one round of predict / complete derives from the items `cur` of set `j` -/
def closeStep (g : Grammar) (ok : Nat → Nat → Bool) (prev : List (List Item)) (j : Nat)
    (cur : List Item) : List Item :=
  cur.flatMap fun it =>
    match g.rules[it.rule]? with
    | none => []
    | some rl =>
      match rl.rhs[it.dot]? with
      | some (.n B) => g.predictItems B j
      | some (.t _) => []
      | none =>
        if it.origin = j then advanceOver g (.n rl.lhs) (fun _ _ => true) cur
        else advanceOver g (.n rl.lhs) ok (prev.getD it.origin [])

def Grammar.itemFuel (g : Grammar) (j : Nat) : Nat :=
  g.rules.length * (g.maxRhs + 1) * (j + 1) + 1

def closeSet (g : Grammar) (ok : Nat → Nat → Bool) (prev : List (List Item)) (j : Nat)
    (start : List Item) : List Item :=
  saturate (closeStep g ok prev j) (g.itemFuel j) (addNew [] start)

def Grammar.initItems (g : Grammar) : List Item :=
  (g.rulesFor g.axiomN).map fun r => ⟨r, 0, 0⟩

def set0 (g : Grammar) : List Item := closeSet g (fun _ _ => true) [] 0 g.initItems

/-- the set after shifting terminal `a` from the last set of `pl` -/
def nextSet (g : Grammar) (ok : Nat → Nat → Bool) (pl : List (List Item)) (a : Nat) : List Item :=
  closeSet g ok pl pl.length (advanceOver g (.t a) ok (pl.getLastD []))

def hasTrans (g : Grammar) (s : List Item) (a : Nat) : Bool :=
  s.any fun p => g.nextSym p.rule p.dot == some (.t a)

/-- `build_pl` without error recovery: shift tokens until one has no transition.
Returns the index of the offending token (if any) and the parse list built so far. -/
def parseLoop (g : Grammar) (an : Analysis) (la : Nat) :
    List Nat → List (List Item) → Nat → Option Nat × List (List Item)
  | [], pl, _ => (none, pl)
  | a :: rest, pl, k =>
    if hasTrans g (pl.getLastD []) a then
      parseLoop g an la rest (pl ++ [nextSet g (okItem g an la rest.head?) pl a]) (k + 1)
    else (some k, pl)

/-- tokens are terminal numbers; the end marker is appended here, as `read_toks` does -/
def buildPL (g : Grammar) (la : Nat) (w : List Nat) : Option Nat × List (List Item) :=
  parseLoop g g.analysis la (w ++ [g.eofT]) [set0 g] 0

def accepts (g : Grammar) (la : Nat) (w : List Nat) : Bool := (buildPL g la w).1.isNone

end Yaep
