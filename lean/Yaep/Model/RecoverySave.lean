/-!
# Lazy save / restore of the parser list during error recovery (`src/yaep.c`, 4226-4497)

`Model/Recovery.lean` works with "list of a recovery state = original prefix ++ own tail".
The C code implements this with ONE array `pl[]` that is overwritten in place, a stack of the
original sets that is filled lazily (`original_pl_tail_stack`, a VLO that only grows), a shadow
array of the original token numbers (`original_pl_toks[]`) and a watermark
`original_last_pl_el` ("`pl[0 .. original_last_pl_el]` is original").  This file transcribes
these functions step for step; every array / VLO access is bounds-checked and yields `none`
when the C code would read or write outside the object (or would fail one of its `assert`s).

| C (`src/yaep.c`)                                             | here |
|---|---|
| `pl[]`, `pl_toks[]` (`pl_create`, 2231-2234: `2*(toks_len+1)` slots) | `St.pl`, `St.plToks` (fixed-length lists) |
| `original_pl_toks[]` (2235-2236, same size)                  | `St.origToks` |
| `pl_curr`, `tok_curr`, `start_pl_curr`, `back_pl_frontier`   | `St.plCurr`, `St.tokCurr`, `St.start`, `St.frontier` |
| `original_pl_tail_stack` (4247), `VLO_LENGTH/sizeof`         | `St.origStack`, its length |
| `original_last_pl_el` (4254), an `int` in `-1 .. start_pl_curr` | `St.origN` **= `original_last_pl_el + 1`** (number of leading original slots) |
| `recovery_state_stack` (4415): VLO memory, bound             | `St.recMem`, `St.recLen`; `St.epoch` counts the `VLO_ADD_MEMORY`s |
| `struct recovery_state` (4205-4224)                          | `RecState` |
| locals `state`, `best_state` of `error_recovery`             | `St.cur`, `St.best` (`none` = not yet assigned) |
| `set_original_set_bound` 4263-4268                           | `setOriginalSetBound` |
| `save_original_sets` 4275-4300                               | `saveLoop`, `saveOriginalSets` |
| `restore_original_sets` 4305-4337                            | `restoreLoop`, `restoreOriginalSets` |
| `new_recovery_state` 4368-4409                               | `newRecoveryState` |
| `push_recovery_state` 4426-4441                              | `pushRecoveryState` |
| `set_recovery_state` 4446-4476                               | `write1`, `writeTail`, `setRecoveryState` |
| `pop_recovery_state` 4485-4497                               | `Ptr`, `deref`, `popRecoveryState` |
| `error_recovery` 4520-4530 (initialisation)                  | `startRecovery` |
| `error_recovery` 4532-4771, calls of the above + writes to `pl` | `Op`, `step`, `guard`, `run` |

Core Lean only.
-/
namespace Yaep.RS

/-- `struct recovery_state`; `pl_tail_length` is `tail.length`, the two object-stack blocks
`pl_tail` / `pl_tail_toks` are two lists (possibly of different lengths: the reads are checked) -/
structure RecState (α : Type) where
  last : Nat
  tail : List α
  tailToks : List Int
  startTok : Nat
  cost : Nat
deriving Repr, DecidableEq, Inhabited

structure St (α : Type) where
  pl : List α
  plToks : List Int
  plCurr : Nat
  tokCurr : Nat
  start : Nat
  frontier : Nat
  origStack : List α
  origToks : List Int
  /-- `original_last_pl_el + 1` -/
  origN : Nat
  recMem : List (RecState α)
  recLen : Nat
  epoch : Nat
  cur : Option (RecState α)
  best : Option (RecState α)
deriving Repr, DecidableEq, Inhabited

variable {α : Type}

/-! ## `set_original_set_bound`, `save_original_sets`, `restore_original_sets` -/

/-- 4263-4268; `none` = the `assert` fails -/
def setOriginalSetBound (s : St α) (last : Nat) : Option (St α) :=
  if last ≤ s.start ∧ s.origN ≤ s.start + 1 then some { s with origN := last + 1 } else none

/-- which statement of the loop body is dropped (historic mistakes) -/
structure SaveVariant where
  copyTok : Bool := true      -- `original_pl_toks[curr_pl] = pl_toks[curr_pl]` present
  boundOff : Nat := 0         -- `original_last_pl_el = pl_curr - 1 + boundOff`
  restoreShift : Nat := 0     -- restore reads `VLO_BEGIN[start_pl_curr - i + restoreShift]`
deriving Repr, DecidableEq

/-- the body of the `for` loop 4281-4298, `n` iterations left; `curr_pl = start_pl_curr - length`
where `length` is the current length of the stack (the C code computes it once and decrements
`curr_pl`; the stack grows by one per iteration, so the two agree) -/
def saveLoop (v : SaveVariant) : Nat → St α → Option (St α)
  | 0, s => some s
  | n + 1, s =>
    if s.origStack.length ≤ s.start then
      let c := s.start - s.origStack.length
      match s.pl[c]?, s.plToks[c]? with
      | some x, some t =>
        if c < s.origToks.length then
          saveLoop v n { s with origStack := s.origStack ++ [x],
                                origToks := if v.copyTok then s.origToks.set c t else s.origToks }
        else none
      | _, _ => none
    else none

/-- 4275-4300.  Iterations: `curr_pl` from `start_pl_curr - length` down to `pl_curr`. -/
def saveOriginalSetsV (v : SaveVariant) (s : St α) : Option (St α) :=
  if s.origN ≤ s.start + 1 then
    (saveLoop v (s.start + 1 - s.origStack.length - s.plCurr) s).map
      fun s' => { s' with origN := s.plCurr + v.boundOff }
  else none

def saveOriginalSets (s : St α) : Option (St α) := saveOriginalSetsV {} s

/-- the `for (;;)` loop 4314-4336, `n` iterations left; `i` is `original_last_pl_el` after the
increment.  The stack read is an `Option`: `none` = read outside the VLO contents. -/
def restoreLoop (v : SaveVariant) : Nat → St α → Option (St α)
  | 0, s => some s
  | n + 1, s =>
    let i := s.origN
    if i ≤ s.start then
      match s.origStack[s.start - i + v.restoreShift]?, s.origToks[i]? with
      | some x, some t =>
        if i < s.pl.length ∧ i < s.plToks.length then
          restoreLoop v n { s with pl := s.pl.set i x, plToks := s.plToks.set i t, origN := i + 1 }
        else none
      | _, _ => none
    else none

/-- 4305-4337 -/
def restoreOriginalSetsV (v : SaveVariant) (s : St α) (last : Nat) : Option (St α) :=
  if last ≤ s.start ∧ s.origN ≤ s.start + 1 then
    if last + 1 ≤ s.origN then some { s with origN := last + 1 }
    else restoreLoop v (last + 1 - s.origN) s
  else none

def restoreOriginalSets (s : St α) (last : Nat) : Option (St α) := restoreOriginalSetsV {} s last

/-! ## recovery states -/

/-- 4368-4409: copies `pl[last+1 .. pl_curr]` and `pl_toks[last+1 .. pl_curr]`; `none` = the
`assert (pl_tail_length >= 0)` fails or the copied range leaves the arrays -/
def newRecoveryState (s : St α) (last cost : Nat) : Option (RecState α) :=
  if last ≤ s.plCurr ∧ s.plCurr < s.pl.length ∧ s.plCurr < s.plToks.length then
    some { last := last
           tail := (s.pl.take (s.plCurr + 1)).drop (last + 1)
           tailToks := (s.plToks.take (s.plCurr + 1)).drop (last + 1)
           startTok := s.tokCurr
           cost := cost }
  else none

/-- 4426-4441: `VLO_ADD_MEMORY` writes the slot at the bound; whatever was stored beyond the
bound is gone and the memory may have moved (`epoch`) -/
def pushRecoveryState (s : St α) (last cost : Nat) : Option (St α) :=
  (newRecoveryState s last cost).map fun st =>
    { s with recMem := s.recMem.take s.recLen ++ [st], recLen := s.recLen + 1, epoch := s.epoch + 1 }

/-- `pl[++pl_curr] = x; pl_toks[pl_curr] = t` (4464-4465, 4604-4605, 4670-4671, 4722-4723) -/
def write1 (s : St α) (x : α) (t : Int) : Option (St α) :=
  if s.plCurr + 1 < s.pl.length ∧ s.plCurr + 1 < s.plToks.length then
    some { s with plCurr := s.plCurr + 1, pl := s.pl.set (s.plCurr + 1) x,
                  plToks := s.plToks.set (s.plCurr + 1) t }
  else none

/-- the loop 4462-4475 (`i < pl_tail_length`): `none` also when `pl_tail_toks` is too short -/
def writeTail : List α → List Int → St α → Option (St α)
  | [], _, s => some s
  | _ :: _, [], _ => none
  | x :: xs, t :: ts, s => (write1 s x t).bind (writeTail xs ts)

/-- 4446-4476 -/
def setRecoveryStateV (v : SaveVariant) (s : St α) (st : RecState α) : Option (St α) :=
  (restoreOriginalSetsV v { s with tokCurr := st.startTok } st.last).bind fun s =>
    writeTail st.tail st.tailToks { s with plCurr := st.last }

def setRecoveryState (s : St α) (st : RecState α) : Option (St α) := setRecoveryStateV {} s st

/-- a pointer into the memory of `recovery_state_stack`, valid only as long as nothing has
been added to the VLO since it was taken -/
structure Ptr where
  idx : Nat
  epoch : Nat
deriving Repr, DecidableEq

def deref (s : St α) (p : Ptr) : Option (RecState α) :=
  if p.epoch = s.epoch then s.recMem[p.idx]? else none

/-- 4485-4497: the pointer is taken, the VLO is shortened, `set_recovery_state` reads through
the pointer (first `deref`) and `return *state` reads through it again (second `deref`), both
beyond the new bound.  `none` on an empty stack (`VLO_BOUND[-1]` before the beginning). -/
def popRecoveryStateV (v : SaveVariant) (s : St α) : Option (St α) :=
  if s.recLen = 0 then none
  else
    let p : Ptr := ⟨s.recLen - 1, s.epoch⟩
    let s := { s with recLen := s.recLen - 1 }
    (deref s p).bind fun st =>
      (setRecoveryStateV v s st).bind fun s =>
        (deref s p).map fun st' => { s with cur := some st' }

def popRecoveryState (s : St α) : Option (St α) := popRecoveryStateV {} s

/-! ## the calls issued by `error_recovery` -/

/-- 4520-4530: `VLO_NULLIFY` both stacks, `start_pl_curr = pl_curr`, `pl_curr =
back_pl_frontier = find_error_pl_set (...)` (`j`), `save_original_sets`, `push_recovery_state`.
`original_last_pl_el` still has the value the previous recovery left (any `origN`). -/
def startRecoveryV (v : SaveVariant) (s : St α) (j cost : Nat) : Option (St α) :=
  let s := { s with origStack := [], recMem := [], recLen := 0, epoch := s.epoch + 1,
                    start := s.plCurr, plCurr := j, frontier := j, cur := none, best := none }
  (saveOriginalSetsV v s).bind fun s => pushRecoveryState s j cost

def startRecovery (s : St α) (j cost : Nat) : Option (St α) := startRecoveryV {} s j cost

inductive Op (α : Type) where
  /-- 4534 `state = pop_recovery_state ()` -/
  | pop
  /-- 4540-4565 with the inner `if` taken: `saved = pl_curr; pl_curr = j; back_pl_frontier = j;
  save_original_sets (); push_recovery_state (j, cost);
  set_original_set_bound (state.last_original_pl_el); pl_curr = saved`
  (`tok_curr` is set to `start_tok_curr` around the push: `stok`) -/
  | advance (j cost stok : Nat)
  /-- `tok_curr = t` (4570, 4585, 4634, 4695, 4740) -/
  | setTok (t : Nat)
  /-- 4583, 4712: `push_recovery_state (state.last_original_pl_el, cost)` -/
  | pushCur (cost : Nat)
  /-- 4604, 4670, 4722: `pl[++pl_curr] = new_set; pl_toks[pl_curr] = tok` -/
  | write (x : α) (tok : Int)
  /-- 4741: `best_state = new_recovery_state (state.last_original_pl_el, 0)` -/
  | snapBest
  /-- 4771: `set_recovery_state (&best_state)` (the local `state` is dead afterwards) -/
  | finish
deriving Repr, DecidableEq

def stepV (v : SaveVariant) (s : St α) : Op α → Option (St α)
  | .pop => popRecoveryStateV v s
  | .advance j cost stok =>
    match s.cur with
    | none => none
    | some st =>
      let saved := s.plCurr
      let savedTok := s.tokCurr
      (saveOriginalSetsV v { s with plCurr := j, frontier := j, tokCurr := stok }).bind fun s =>
        (pushRecoveryState s j cost).bind fun s =>
          (setOriginalSetBound s st.last).map fun s => { s with plCurr := saved, tokCurr := savedTok }
  | .setTok t => some { s with tokCurr := t }
  | .pushCur cost =>
    match s.cur with
    | none => none
    | some st => pushRecoveryState s st.last cost
  | .write x tok => write1 s x tok
  | .snapBest =>
    match s.cur with
    | none => none
    | some st => (newRecoveryState s st.last 0).map fun b => { s with best := some b }
  | .finish =>
    match s.best with
    | none => none
    | some b => (setRecoveryStateV v s b).map fun s => { s with cur := none }

def step (s : St α) (o : Op α) : Option (St α) := stepV {} s o

/-- what `error_recovery` knows when it issues the call (its own `if`s and loop conditions):
`pop` under `VLO_LENGTH (recovery_state_stack) > 0` (4532); `advance` under
`back_pl_frontier > 0` (4538) with `j` the result of `find_error_pl_set (back_pl_frontier - 1)`,
after a `pop`; `pushCur`, `snapBest` after a `pop`; `finish` after a `snapBest`; `write` with a
free slot (the bound on the list length is theorem `pl_capacity` of `Props/C07.lean`, proved
on the abstract model; `RecoverySave` takes it as the guard). -/
def guard (s : St α) : Op α → Bool
  | .pop => 0 < s.recLen
  | .advance j _ _ => s.cur.isSome && 0 < s.frontier && j < s.frontier
  | .setTok _ => true
  | .pushCur _ => s.cur.isSome
  | .write _ _ => s.plCurr + 1 < s.pl.length
  | .snapBest => s.cur.isSome
  | .finish => s.best.isSome

def runV (v : SaveVariant) : St α → List (Op α) → Option (St α)
  | s, [] => some s
  | s, o :: os => (stepV v s o).bind fun s' => runV v s' os

def run (s : St α) (ops : List (Op α)) : Option (St α) := runV {} s ops

/-- the protocol: every op is issued under its guard -/
def protocol : St α → List (Op α) → Bool
  | _, [] => true
  | s, o :: os => guard s o && (match step s o with | some s' => protocol s' os | none => true)

/-- the current parser list `pl[0 .. pl_curr]` with its token numbers -/
def St.cpl (s : St α) : List α := s.pl.take (s.plCurr + 1)
def St.cplToks (s : St α) : List Int := s.plToks.take (s.plCurr + 1)

/-! ## observable events (the debug lines of level 3), for the comparison with the library -/

inductive Ev where
  | save (i : Nat)      -- "++++Save original set=%d"
  | restore (i : Nat)   -- "++++++Restore original set=%d"
  | setState (pl : Nat) (tok : Nat)  -- "++++Set recovery state: set=%d, tok=%d"
deriving Repr, DecidableEq

/-- the events of one step, read off the two states: the stack grew by the sets
`start - oldLen, start - oldLen - 1, …`; a restore ran over `origN .. last` -/
def saveEvs (s s' : St α) : List Ev :=
  (List.range (s'.origStack.length - s.origStack.length)).map fun k => .save (s.start - s.origStack.length - k)

def restoreEvs (s : St α) (st : RecState α) : List Ev :=
  (List.range (st.last + 1 - s.origN)).map (fun k => .restore (s.origN + k)) ++ [.setState st.last st.startTok]

def events (s : St α) (o : Op α) (s' : St α) : List Ev :=
  match o with
  | .pop => match s'.cur with | some st => restoreEvs s st | none => []
  | .advance _ _ _ => saveEvs s s'
  | .finish => match s.best with | some st => restoreEvs s st | none => []
  | _ => []

def trace : St α → List (Op α) → Option (List Ev × St α)
  | s, [] => some ([], s)
  | s, o :: os => (step s o).bind fun s' => (trace s' os).map fun (e, sf) => (events s o s' ++ e, sf)

/-- events of the initialisation -/
def startTrace (s : St α) (j cost : Nat) : Option (List Ev × St α) :=
  (startRecovery s j cost).map fun s' => (saveEvs { s with origStack := [], start := s.plCurr } s', s')

end Yaep.RS
