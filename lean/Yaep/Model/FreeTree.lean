import Yaep.Model.Forest
/-!
# A model of `yaep_free_tree` over the exported node table

`yaep_free_tree (root, parse_free, termcb)` walks the parse DAG twice:

* `free_tree_reduce` marks every node it reaches (`_yaep_VISITED`) and unlinks every
  reference to a node that is already marked (a child slot of an abstract node, the `node`
  of an alternative), so that a tree remains; the name block of an abstract node is kept by
  the first node that sees it (the pass sets the flag byte that `make_parse` places after
  the terminating NUL of the name and sets the `name` pointer of every later node with
  that name block to `NULL`; an empty name is a name like any other);
* `free_tree_sweep` walks the remaining tree, calls `termcb` for every TERM node and
  `parse_free` for every block: the name kept by an abstract node, the node itself (whose
  block contains the children array), every cell of an alternative chain.

Blocks.  Table entry `i` of kind nil / error / term / abstract node is one block `node i`;
an ALT entry `alt [a₀, …]` stands for the chain of cells `cell i 0, cell i 1, …` (in C every
alternative is its own `yaep_tree_node` linked by `next`); the name of an abstract node is a
block of its own, shared by all abstract nodes with that name, `name s`.
(`parse_free (NULL)` calls of the C code — one for every abstract node that does not keep
its name — release nothing and are not recorded.)  A `bad` entry is treated like a leaf.
-/
namespace Yaep

inductive Block where
  | node (i : Nat)
  | name (s : String)
  | cell (i : Nat) (p : Nat)
deriving DecidableEq, Repr, Inhabited

/-- what `yaep_free_tree` does to its environment -/
inductive FEv where
  | free (b : Block)
  | termcb (i : Nat)
deriving DecidableEq, Repr, Inhabited

/-- the tree `free_tree_reduce` leaves behind; `null` is an unlinked reference -/
inductive RTree where
  | null
  | leaf (i : Nat) (isTerm : Bool)
  | anode (i : Nat) (name : Option String) (kids : List RTree)
  | alt (i : Nat) (cells : List RTree)
deriving Repr, Inhabited

/-- the marks of the first pass: visited nodes, names seen -/
structure FState where
  visited : List Nat := []
  seen : List String := []
deriving Repr, Inhabited

def RTree.isNull : RTree → Bool
  | .null => true
  | _ => false

/-- the loop over the references of a node: an already visited target is unlinked, the
others are reduced in order -/
def reduceKids (rec : FState → Nat → FState × RTree) : FState → List Nat → FState × List RTree
  | st, [] => (st, [])
  | st, c :: cs =>
    if c ∈ st.visited then
      let (st', ts) := reduceKids rec st cs
      (st', .null :: ts)
    else
      let (st1, t) := rec st c
      let (st2, ts) := reduceKids rec st1 cs
      (st2, t :: ts)

/-- `free_tree_reduce` (precondition: `i` is not visited); `fuel > i` suffices for a
well-formed table -/
def reduce (tab : Array NodeRec) : Nat → FState → Nat → FState × RTree
  | 0, st, i => (st, .leaf i false)
  | fuel + 1, st, i =>
    let st1 : FState := { st with visited := i :: st.visited }
    match tab.getD i .bad with
    | .term _ _ => (st1, .leaf i true)
    | .anode n _ ks =>
      let own := !st1.seen.contains n
      let st2 : FState := if own then { st1 with seen := n :: st1.seen } else st1
      let (st3, ts) := reduceKids (reduce tab fuel) st2 ks
      -- the children array is compactified
      (st3, .anode i (if own then some n else none) (ts.filter fun t => !t.isNull))
    | .alt as =>
      let (st3, ts) := reduceKids (reduce tab fuel) st1 as
      (st3, .alt i ts)
    | _ => (st1, .leaf i false)

mutual
  /-- `free_tree_sweep` -/
  def sweep : RTree → List FEv
    | .null => []
    | .leaf i isTerm => (if isTerm then [.termcb i] else []) ++ [.free (.node i)]
    | .anode i nm kids =>
      (match nm with | some s => [FEv.free (.name s)] | none => []) ++ sweepKids kids ++
        [.free (.node i)]
    | .alt i cells => sweepCells i cells 0
  def sweepKids : List RTree → List FEv
    | [] => []
    | t :: ts => sweep t ++ sweepKids ts
  /-- the chain of alternatives: the alternative, then the cell, then the next cell -/
  def sweepCells (i : Nat) : List RTree → Nat → List FEv
    | [], _ => []
    | t :: ts, p => sweep t ++ [.free (.cell i p)] ++ sweepCells i ts (p + 1)
end

/-- `yaep_free_tree`: everything released and every callback, in order; a root outside
the table is the `NULL` root -/
def freeTree (tab : Array NodeRec) (root : Nat) : List FEv :=
  if root < tab.size then sweep (reduce tab (root + 1) {} root).2 else []

def freedBlocks (evs : List FEv) : List Block :=
  evs.filterMap fun e => match e with | .free b => some b | _ => none

def termCalls (evs : List FEv) : List Nat :=
  evs.filterMap fun e => match e with | .termcb i => some i | _ => none

/-! ## allocation traces -/

inductive Ev where
  | alloc (id : Nat)
  | free (id : Nat)
deriving DecidableEq, Repr, Inhabited

def traceStep (live : List Nat) : Ev → Option (List Nat)
  | .alloc id => if id ∈ live then none else some (id :: live)
  | .free id => if id ∈ live then some (live.erase id) else none

/-- run a trace from a set of live blocks; `none` = a block is allocated while live, or a
block that is not live is freed (double free, free of something never allocated) -/
def traceRun : List Nat → List Ev → Option (List Nat)
  | live, [] => some live
  | live, e :: es =>
    match traceStep live e with
    | some live' => traceRun live' es
    | none => none

/-- every free is of a live block allocated before, no double free -/
def traceOK (evs : List Ev) : Bool := (traceRun [] evs).isSome

/-- … and nothing is left allocated at the end -/
def traceNoLeak (evs : List Ev) : Bool := traceRun [] evs == some []

end Yaep
