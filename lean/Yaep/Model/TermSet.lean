/-!
# Terminal sets of `src/yaep.c` at the level of machine words

`term_set_el_t` is `long int` (64 bits here); a terminal set is an array of
`(n_terms + 63) / 64` words; terminal `num` is bit `num % 64` of word `num / 64`.  The repaired
defect "undefined shift into the sign bit" (grammars with 64 or more terminals) lived in
`term_set_up` / `term_set_test`, and `term_set_or`'s return value is the change flag of the
FIRST / FOLLOW fixpoint.

| C (`src/yaep.c`)                      | here |
|---|---|
| number of words of a set              | `nWords` |
| `term_set_clear`                      | `clear` |
| `term_set_copy`                       | identity on lists |
| `term_set_up` (sets the bit, returns "changed") | `up` |
| `term_set_test`                       | `test` |
| `term_set_or` (returns "changed")     | `or` |
| `term_set_eq` (key equality of `term_set_tab`) | `==` on the word lists |
| `1UL << (num % 64)`: an unsigned shift by less than the word size | `bitOf` (`2 ^ (num % 64) < 2 ^ 64`: `bitOf_lt`) |

Words are natural numbers below `2 ^ 64` (`Words`); core Lean only.
-/
namespace Yaep.TS

/-- bits per `term_set_el_t` -/
def W : Nat := 64

def nWords (nTerms : Nat) : Nat := (nTerms + W - 1) / W

abbrev TSet := List Nat

/-- every element fits a machine word -/
def Words (s : TSet) : Prop := ∀ x ∈ s, x < 2 ^ W

def clear (nTerms : Nat) : TSet := List.replicate (nWords nTerms) 0

/-- `(term_set_el_t) (1UL << (num % 64))` -/
def bitOf (num : Nat) : Nat := 1 <<< (num % W)

def test (s : TSet) (num : Nat) : Bool := (s.getD (num / W) 0 &&& bitOf num) != 0

/-- returns the new set and the change flag -/
def up (s : TSet) (num : Nat) : TSet × Bool :=
  let ind := num / W
  let old := s.getD ind 0
  (s.set ind (old ||| bitOf num), (old &&& bitOf num) == 0)

/-- `set |= op` word by word; the flag says whether some word changed -/
def or : TSet → TSet → TSet × Bool
  | a :: as, b :: bs => let r := or as bs; ((a ||| b) :: r.1, ((a ||| b) != a) || r.2)
  | as, _ => (as, false)

/-- the terminals of a set -/
def members (s : TSet) (nTerms : Nat) : List Nat := (List.range nTerms).filter (test s)

end Yaep.TS
