/-!
# Model of `hashtab.c` / `hashtab.cpp` (property C19)

Open addressing, prime sizes (`higher_prime_number`), double hashing, `EMPTY`/`DELETED`
markers.  Everything is executable core Lean; the proofs live in `Yaep/Lemmas/Containers.lean`.

Conventions
* elements are natural numbers (the harness stores `(void*)(size_t) v`, `v ≥ 2`; `0`/`1` are the
  C markers `EMPTY_ENTRY`/`DELETED_ENTRY`, here they are separate constructors);
* `hash : Nat → Nat` is a parameter (the harness uses `v % modulus`), equality is identity;
* `cxx : Bool` selects the one statement in which `hashtab.cpp` differs from `hashtab.c`
  (`*entry_ptr = DELETED_ENTRY` instead of `*entry_ptr = EMPTY_ENTRY` when a deleted slot is
  reused).  All theorems are about `cxx = false`; `cxx = true` exists only so that the judge
  can explain what the C++ build prints.
-/
namespace Yaep.Model.HashTab

inductive Slot where
  | empty
  | deleted
  | elem (v : Nat)
deriving DecidableEq, Repr, Inhabited

/-! ## `higher_prime_number` -/

/-- The inner loop `for (i = 3; i * i <= number; i += 2) if (number % i == 0) break;` followed
by the test `i * i > number`.  `fuel` only makes the recursion structural; `number` steps are
always enough (`trialLoop_complete`).  Fuel exhaustion answers `false`. -/
def trialLoop (n : Nat) : Nat → Nat → Bool
  | 0, _ => false
  | fuel + 1, i =>
    if i * i ≤ n then
      if n % i = 0 then false else trialLoop n fuel (i + 2)
    else true

/-- the C test "no odd `i ≥ 3` with `i*i ≤ n` divides `n`" -/
def oddTrial (n : Nat) : Bool := trialLoop n n 3

def factorial : Nat → Nat
  | 0 => 1
  | n + 1 => (n + 1) * factorial n

/-- The outer loop `for (;; number += 2)`. -/
def searchPrime : Nat → Nat → Nat
  | 0, c => c
  | fuel + 1, c => if oddTrial c then c else searchPrime fuel (c + 2)

/-- `higher_prime_number (number)`: the first prime among `(number/2)*2+3, +5, +7, …`.
The fuel `c!` is Euclid's bound (there is a prime in `[c, (c-1)!+1]`); it is never reached. -/
def higherPrime (number : Nat) : Nat :=
  let c := (number / 2) * 2 + 3
  searchPrime (factorial c) c

/-! ## The table -/

structure Table where
  /-- `size` -/
  size : Nat
  /-- `entries[0 .. size-1]` -/
  slots : List Slot
  /-- `number_of_elements`: as the C code counts, i.e. live + deleted (+ reused) -/
  n : Nat
  /-- `number_of_deleted_elements` -/
  d : Nat
deriving Repr, Inhabited

def fresh (size : Nat) : Table := ⟨size, List.replicate size .empty, 0, 0⟩

/-- `create_hash_table (alloc, size, hash, eq)` -/
def create (sz : Nat) : Table := fresh (higherPrime sz)

/-- `empty_hash_table` -/
def Table.clear (t : Table) : Table := { t with slots := List.replicate t.size .empty, n := 0, d := 0 }

/-- `hash_value %= size` -/
def startIdx (hash : Nat → Nat) (size x : Nat) : Nat := hash x % size
/-- `secondary_hash_value = 1 + hash_value % (size - 2)` -/
def stepOf (hash : Nat → Nat) (size x : Nat) : Nat := 1 + hash x % (size - 2)
/-- `hash_value += secondary; if (hash_value >= size) hash_value -= size;` -/
def next (size st i : Nat) : Nat := if i + st ≥ size then i + st - size else i + st

/-- The `for (;;)` loop of `find_hash_table_entry`: returns the index at which the loop
`break`s and `first_deleted_entry_ptr`.  `fuel` is `size` (`probe_terminates` shows that the
loop always breaks earlier). -/
def probeLoop (slots : List Slot) (size st x : Nat) : Nat → Nat → Option Nat → Nat × Option Nat
  | 0, i, fd => (i, fd)
  | fuel + 1, i, fd =>
    match slots[i]? with
    | none => (i, fd)
    | some .empty => (i, fd)
    | some (.elem v) =>
      if v = x then (i, fd) else probeLoop slots size st x fuel (next size st i) fd
    | some .deleted =>
      probeLoop slots size st x fuel (next size st i) (if fd.isNone then some i else fd)

def probe (hash : Nat → Nat) (t : Table) (x : Nat) : Nat × Option Nat :=
  probeLoop t.slots t.size (stepOf hash t.size x) x t.size (startIdx hash t.size x) none

/-- `find_hash_table_entry` *after* the expansion check: returns the new table and the index of
the returned entry. -/
def findCore (cxx : Bool) (hash : Nat → Nat) (t : Table) (x : Nat) (reserve : Bool) : Table × Nat :=
  let r := probe hash t x
  match t.slots[r.1]? with
  | some .empty =>
    if reserve then
      match r.2 with
      | some j =>
        ({ t with n := t.n + 1, slots := t.slots.set j (if cxx then .deleted else .empty) }, j)
      | none => ({ t with n := t.n + 1 }, r.1)
    else (t, r.1)
  | _ => (t, r.1)

/-- `entry = find (…, TRUE); if (*entry != NULL) present; else *entry = x;` — the idiom of
`yaep.c` (without the expansion check).  The `Bool` is "new". -/
def insertCore (cxx : Bool) (hash : Nat → Nat) (t : Table) (x : Nat) : Table × Bool :=
  let r := findCore cxx hash t x true
  match r.1.slots[r.2]? with
  | some .empty => ({ r.1 with slots := r.1.slots.set r.2 (.elem x) }, true)
  | _ => (r.1, false)

def elems (t : Table) : List Nat :=
  t.slots.filterMap fun s => match s with | .elem v => some v | _ => none

/-- `htab->size / 4 <= htab->number_of_elements / 3` -/
def needExpand (t : Table) : Bool := decide (t.size / 4 ≤ t.n / 3)

/-- `expand_hash_table`: a new table of size `higher_prime_number (2 * number_of_elements)`
(deleted entries are counted in `number_of_elements`, but they are not transferred); every
live element is inserted in slot order; the counters of the new table replace the old ones.
(The nested expansion check of the C code is never true here: `rehash_no_nested_expand`.) -/
def rehash (cxx : Bool) (hash : Nat → Nat) (t : Table) : Table :=
  (elems t).foldl (fun acc v => (insertCore cxx hash acc v).1) (fresh (higherPrime (t.n * 2)))

def prepare (cxx : Bool) (hash : Nat → Nat) (t : Table) : Table :=
  if needExpand t then rehash cxx hash t else t

/-- `*find_hash_table_entry (t, x, FALSE) != NULL` -/
def lookup (cxx : Bool) (hash : Nat → Nat) (t : Table) (x : Nat) : Table × Bool :=
  let r := findCore cxx hash (prepare cxx hash t) x false
  (r.1, r.1.slots[r.2]? != some .empty)

def insert (cxx : Bool) (hash : Nat → Nat) (t : Table) (x : Nat) : Table × Bool :=
  insertCore cxx hash (prepare cxx hash t) x

/-- the harness' `remove`: `remove_element_from_hash_table_entry` guarded by a presence test.
The `Bool` is "was present". -/
def remove (cxx : Bool) (hash : Nat → Nat) (t : Table) (x : Nat) : Table × Bool :=
  let r := findCore cxx hash (prepare cxx hash t) x false
  match r.1.slots[r.2]? with
  | some (.elem _) => ({ r.1 with slots := r.1.slots.set r.2 .deleted, d := r.1.d + 1 }, true)
  | _ => (r.1, false)

/-- `hash_table_elements_number` -/
def Table.elemsNumber (t : Table) : Nat := t.n - t.d

inductive Op where
  | find (x : Nat)
  | insert (x : Nat)
  | remove (x : Nat)
  | empty
  | size
deriving Repr, DecidableEq

inductive Obs where
  | none
  | found (b : Bool)
  | inserted (new : Bool)
  | removed (present : Bool)
  | size (size elems : Nat)
deriving Repr, DecidableEq

def stepOp (cxx : Bool) (hash : Nat → Nat) (t : Table) : Op → Table × Obs
  | .find x => let r := lookup cxx hash t x; (r.1, .found r.2)
  | .insert x => let r := insert cxx hash t x; (r.1, .inserted r.2)
  | .remove x => let r := remove cxx hash t x; (r.1, .removed r.2)
  | .empty => (t.clear, .none)
  | .size => (t, .size t.size t.elemsNumber)

def run (cxx : Bool) (hash : Nat → Nat) (t : Table) (ops : List Op) : Table :=
  ops.foldl (fun acc o => (stepOp cxx hash acc o).1) t

end Yaep.Model.HashTab
