/-!
# The sharing of equal transition / reduce vectors of `src/yaep.c` (`core_symb_vect_*`)

Step model of the abstract data `core_symb_vect` (yaep.c 2381-3028) in the configuration without
`USE_CORE_SYMB_HASH_TABLE` and without `TRANSITIVE_TRANSITION`: the triples (set core, symbol,
transition vector, reduce vector), the two-level table `core_symb_table[core->num][symb->num]`
with its growth step, the scratch arrays (`vlo_array`) in which the vectors of the triples of the
set being built are collected, and `core_symb_vect_new_all_stop`, which replaces every scratch
vector by a pointer to ONE permanent copy per distinct content (hash-consing through
`transition_els_tab` / `reduce_els_tab`).

| C | here |
|---|---|
| `int *els` | `Ptr`: `null`, `scratch k` (= `VLO_BEGIN` of `vlo_array[k]`), `perm j` (object `j` of `vect_els_os`) |
| `struct vect` (`intern`, `len`, `els`), `intern == -1` | `Vect`, `intern = none` |
| `struct core_symb_vect` | `Triple` (`set_core->num`, `symb->num`, `tr`, `re`) |
| `core_symb_vect_os`, a `struct core_symb_vect *` | `State.triples`, an index into it |
| `new_core_symb_vect_vlo` | `State.newTriples` |
| `vlo_array`, `vlo_array_len` | `State.vlos` (all vlos ever created, never freed), `State.vloLen` |
| `vect_els_os` | `State.heap` (a list of arrays; only `++ [a]` is ever applied) |
| `transition_els_tab`, `reduce_els_tab` | `State.tabT`, `State.tabR`: the stored triples, searched with `vect_els_eq` |
| `core_symb_table_vlo`, `core_symb_tab_rows` | `State.rows` (`none` cell = NULL) |
| `n_core_symb_pairs` … `n_reduce_vect_len` | `nPairs`, `nVectLen`, `nT`, `nTLen`, `nR`, `nRLen` |

A read through a pointer is explicit (`arr`, `elAt`): reading through `null`, through a scratch
pointer whose vlo is not in use (`k ≥ vlo_array_len`: the region invalidated by
`vlo_array_nullify`) or beyond the end of an array gives `none`; the operations turn that into
`Err.fault`.  A failing `assert` of the C code is `Err.assert`.

The hash table is abstract: a list of the stored triples in insertion order; a search compares
the key with EVERY stored triple with `vect_els_eq` (the real table compares a subset, the
entries of one probe sequence) and returns the first equal one.  No hash function occurs.

Core Lean only.
-/
namespace Yaep.VS

inductive Err
  | assert   -- an `assert` of the C code fails (violation of the calling protocol)
  | fault    -- a read or write outside an object / through NULL / through a dangling pointer
deriving DecidableEq, Repr

inductive Ptr
  | null
  | scratch (k : Nat)
  | perm (j : Nat)
deriving DecidableEq, Repr

/-- `struct vect` (yaep.c 2384-2396); `intern = none` is the C value `-1` -/
structure Vect where
  intern : Option Nat
  len : Nat
  els : Ptr
deriving DecidableEq, Repr

inductive Which
  | tr
  | re
deriving DecidableEq, Repr

/-- `struct core_symb_vect` (yaep.c 2399-2427) -/
structure Triple where
  core : Nat
  symb : Nat
  tr : Vect
  re : Vect
deriving DecidableEq, Repr

def Triple.get (t : Triple) : Which → Vect
  | .tr => t.tr
  | .re => t.re

def Triple.set (t : Triple) (w : Which) (v : Vect) : Triple :=
  match w with
  | .tr => { t with tr := v }
  | .re => { t with re := v }

structure State where
  width : Nat                              -- `symbs_ptr->n_terms + symbs_ptr->n_nonterms`
  triples : List Triple := []
  newTriples : List Nat := []
  vlos : List (List Int) := []
  vloLen : Nat := 0
  heap : List (List Int) := []
  tabT : List Nat := []
  tabR : List Nat := []
  rows : List (List (Option Nat)) := []
  nPairs : Nat := 0
  nVectLen : Nat := 0
  nT : Nat := 0
  nTLen : Nat := 0
  nR : Nat := 0
  nRLen : Nat := 0
deriving DecidableEq, Repr

/-- `core_symb_vect_init` (yaep.c 2602-2667) -/
def init (width : Nat) : State := { width := width }

def State.tab (s : State) : Which → List Nat
  | .tr => s.tabT
  | .re => s.tabR

def State.nVects (s : State) : Which → Nat
  | .tr => s.nT
  | .re => s.nR

def State.nVectsLen (s : State) : Which → Nat
  | .tr => s.nTLen
  | .re => s.nRLen

/-- the array a pointer points to; `none`: NULL, a vlo that is not in use, no such object -/
def arr (s : State) : Ptr → Option (List Int)
  | .null => none
  | .scratch k => if k < s.vloLen then s.vlos[k]? else none
  | .perm j => s.heap[j]?

/-- `p[i]` -/
def elAt (s : State) (p : Ptr) (i : Nat) : Option Int :=
  match arr s p with
  | none => none
  | some a => a[i]?

/-- what a user of the triple reads: `els[0] … els[len-1]` (no dereference when `len = 0`) -/
def readVect (s : State) (v : Vect) : Option (List Int) :=
  if v.len = 0 then some []
  else match arr s v.els with
    | none => none
    | some a => if v.len ≤ a.length then some (a.take v.len) else none

/-- the loop of `vect_els_eq` (yaep.c 2546-2549): `n` iterations left, index `i` -/
def eqLoop (s : State) (p q : Ptr) : Nat → Nat → Option Bool
  | 0, _ => some true
  | n + 1, i =>
    match elAt s p i, elAt s q i with
    | some a, some b => if a != b then some false else eqLoop s p q n (i + 1)
    | _, _ => none

/-- `vect_els_eq` (yaep.c 2539-2550); `none` = a faulting read -/
def vectElsEq (s : State) (v1 v2 : Vect) : Option Bool :=
  if v1.len != v2.len then some false else eqLoop s v1.els v2.els v1.len 0

/-- historic mistake witness: only the lengths are compared -/
def vectElsEqLenOnly (_s : State) (v1 v2 : Vect) : Option Bool :=
  some (v1.len == v2.len)

/-- `find_hash_table_entry (tab, triple, TRUE)` with `transition_els_eq` / `reduce_els_eq`
(yaep.c 2559-2599): the first stored triple whose vector equals `v`;
outer `none` = a fault in a comparison -/
def tabFindWith (eq : State → Vect → Vect → Option Bool) (s : State) (w : Which) (v : Vect) :
    List Nat → Option (Option Nat)
  | [] => some none
  | e :: rest =>
    match s.triples[e]? with
    | none => none
    | some E =>
      match eq s (E.get w) v with
      | none => none
      | some true => some (some e)
      | some false => tabFindWith eq s w v rest

def State.setVec (s : State) (ti : Nat) (T : Triple) (w : Which) (v : Vect) : State :=
  { s with triples := s.triples.set ti (T.set w v) }

/-- append the array `a` to `vect_els_os`, store the triple `ti` in the table of `w`, count -/
def State.store (s : State) (ti : Nat) (w : Which) (a : List Int) (len : Nat) : State :=
  match w with
  | .tr => { s with heap := s.heap ++ [a], tabT := s.tabT ++ [ti], nT := s.nT + 1, nTLen := s.nTLen + len }
  | .re => { s with heap := s.heap ++ [a], tabR := s.tabR ++ [ti], nR := s.nR + 1, nRLen := s.nRLen + len }

/-- `process_core_symb_vect_el` (yaep.c 2904-2946).  `keepScratch` is the historic mistake
"the scratch pointer is kept when the vector is new" (no copy to `vect_els_os`). -/
def processElWith (eq : State → Vect → Vect → Option Bool) (keepScratch : Bool)
    (s : State) (ti : Nat) (w : Which) : Except Err State :=
  match s.triples[ti]? with
  | none => .error .fault
  | some T =>
    let v := T.get w
    if v.len = 0 then .ok (s.setVec ti T w { intern := none, len := v.len, els := .null })
    else
      match tabFindWith eq s w v (s.tab w) with
      | none => .error .fault
      | some (some e) =>
        match s.triples[e]? with
        | none => .error .fault
        | some E => .ok (s.setVec ti T w { intern := none, len := v.len, els := (E.get w).els })
      | some none =>
        match readVect s v with
        | none => .error .fault
        | some a =>
          .ok ((s.store ti w a v.len).setVec ti T w
            { intern := none, len := v.len, els := if keepScratch then v.els else .perm s.heap.length })

def processEl := processElWith vectElsEq false

/-- the loop of `core_symb_vect_new_all_stop` (yaep.c 2955-2977) -/
def processAllWith (eq : State → Vect → Vect → Option Bool) (keepScratch : Bool) (s : State) :
    List Nat → Except Err State
  | [] => .ok s
  | ti :: rest =>
    match processElWith eq keepScratch s ti .tr with
    | .error e => .error e
    | .ok s1 =>
      match processElWith eq keepScratch s1 ti .re with
      | .error e => .error e
      | .ok s2 => processAllWith eq keepScratch s2 rest

/-- `core_symb_vect_new_all_stop` (yaep.c 2949-2984) -/
def allStopWith (eq : State → Vect → Vect → Option Bool) (keepScratch : Bool) (s : State) :
    Except Err State :=
  match processAllWith eq keepScratch s s.newTriples with
  | .error e => .error e
  | .ok s1 => .ok { s1 with vloLen := 0, newTriples := [] }

def allStop := allStopWith vectElsEq false

/-- `vlo_array_expand` (yaep.c 2290-2328): a new empty vlo, or a used one nullified -/
def vloExpand (s : State) : State × Nat :=
  ({ s with
      vlos := if s.vloLen ≥ s.vlos.length then s.vlos ++ [[]] else s.vlos.set s.vloLen []
      vloLen := s.vloLen + 1 }, s.vloLen)

/-- rows to add for an access to row `core` when `have_ ≤ core` rows exist (yaep.c 2719-2727) -/
def growBy (have_ core : Nat) : Nat :=
  let missing := core - have_ + 1
  if missing = 1 then 10 else missing

/-- the growth step of `core_symb_vect_addr_get` (yaep.c 2708-2761) -/
def growRows (width : Nat) (rows : List (List (Option Nat))) (core : Nat) : List (List (Option Nat)) :=
  if core < rows.length then rows
  else rows ++ List.replicate (growBy rows.length core) (List.replicate width none)

/-- `(*core_symb_vect_ptr)[symb->num]` (yaep.c 2762): outer `none` = outside the rows / the row -/
def cell (rows : List (List (Option Nat))) (core symb : Nat) : Option (Option Nat) :=
  match rows[core]? with
  | none => none
  | some row => row[symb]?

def setCell (rows : List (List (Option Nat))) (core symb v : Nat) : List (List (Option Nat)) :=
  rows.set core ((rows.getD core []).set symb (some v))

/-- `core_symb_vect_find` (yaep.c 2771-2783): the table may grow; the result is the triple or NULL -/
def find (s : State) (core symb : Nat) : Except Err (State × Option Nat) :=
  let rows := growRows s.width s.rows core
  match cell rows core symb with
  | none => .error .fault
  | some r => .ok ({ s with rows := rows }, r)

/-- `core_symb_vect_new` (yaep.c 2787-2852); the result is the state and the new triple -/
def new (s : State) (core symb : Nat) : Except Err (State × Nat) :=
  let rows := growRows s.width s.rows core
  match cell rows core symb with
  | none => .error .fault
  | some (some _) => .error .assert            -- `assert (*addr == NULL)`
  | some none =>
    let ti := s.triples.length
    let (s1, k1) := vloExpand s
    let (s2, k2) := vloExpand s1
    let T : Triple := { core := core, symb := symb,
                        tr := { intern := some k1, len := 0, els := .scratch k1 },
                        re := { intern := some k2, len := 0, els := .scratch k2 } }
    .ok ({ s2 with triples := s.triples ++ [T], rows := setCell rows core symb ti,
                   newTriples := s.newTriples ++ [ti], nPairs := s.nPairs + 1 }, ti)

/-- `vect_new_add_el` on the vector `w` of triple `ti` (yaep.c 2855-2899) -/
def addEl (s : State) (ti : Nat) (w : Which) (el : Int) : Except Err State :=
  match s.triples[ti]? with
  | none => .error .fault
  | some T =>
    let v := T.get w
    match v.intern with
    | none => .error .assert                    -- `assert (index >= 0 …)` in `vlo_array_el`
    | some k =>
      if k < s.vloLen then
        match s.vlos[k]? with
        | none => .error .fault
        | some a =>
          .ok ({ s with vlos := s.vlos.set k (a ++ [el]), nVectLen := s.nVectLen + 1 }.setVec ti T w
                { intern := some k, len := v.len + 1, els := .scratch k })
      else .error .assert                       -- `assert (… vlo_array_len > index)`

inductive Op
  | new (core symb : Nat)
  | addT (t : Nat) (el : Int)
  | addR (t : Nat) (el : Int)
  | allStop
  | find (core symb : Nat)
deriving DecidableEq, Repr

def step (s : State) : Op → Except Err State
  | .new c y => match new s c y with | .error e => .error e | .ok r => .ok r.1
  | .addT t el => addEl s t .tr el
  | .addR t el => addEl s t .re el
  | .allStop => allStop s
  | .find c y => match find s c y with | .error e => .error e | .ok r => .ok r.1

def run (s : State) : List Op → Except Err State
  | [] => .ok s
  | op :: rest => match step s op with | .error e => .error e | .ok s1 => run s1 rest

/-! ### the two historic mistakes as complete variants -/

def stepWith (eq : State → Vect → Vect → Option Bool) (keepScratch : Bool) (s : State) : Op → Except Err State
  | .allStop => allStopWith eq keepScratch s
  | op => step s op

def runWith (eq : State → Vect → Vect → Option Bool) (keepScratch : Bool) (s : State) : List Op → Except Err State
  | [] => .ok s
  | op :: rest => match stepWith eq keepScratch s op with | .error e => .error e | .ok s1 => runWith eq keepScratch s1 rest

/-! ### specification side: what was added to a triple -/

/-- the elements added to vector `w` of triple `t` by the operations, in order -/
def added (ops : List Op) (t : Nat) (w : Which) : List Int :=
  ops.filterMap fun
    | .addT t' el => if t' = t ∧ w = .tr then some el else none
    | .addR t' el => if t' = t ∧ w = .re then some el else none
    | _ => none

/-- the vector `w` of triple `ti` as a user reads it -/
def State.read (s : State) (ti : Nat) (w : Which) : Option (List Int) :=
  match s.triples[ti]? with
  | none => none
  | some T => readVect s (T.get w)

def State.ptr (s : State) (ti : Nat) (w : Which) : Option Ptr :=
  (s.triples[ti]?).map fun T => (T.get w).els

end Yaep.VS
