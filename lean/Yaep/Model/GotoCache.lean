import Yaep.Model.Earley
/-!
# The goto cache of `build_pl` (`set_term_lookahead`, `check_cached_transition_set`)

yaep stores a set as (situations, distances): an item carries the distance from its origin to
the set itself, so the same stored set can sit at several places of the parse list.  The key
of the cache is (current set, shifted terminal, lookahead terminal); an entry keeps up to
`MAX_CACHED_GOTO_RESULTS = 3` results (round robin), each with the list index `place` of the
current set it was computed from.  A result is reused at index `j` iff for every item with
distance `> 1` the sets `pl[j + 1 - dist]` and `pl[place + 1 - dist]` are the same stored set.

The model below covers the loop without error recovery (after a recovery the C code empties
the cache).
-/
namespace Yaep

abbrev RelItem := Nat × Nat × Nat     -- rule, dot, distance
abbrev RelSet := List RelItem

/-- the stored (relative) form of the set at index `idx` -/
def toRel (idx : Nat) (s : List Item) : RelSet := s.map fun it => (it.rule, it.dot, idx - it.origin)

/-- the stored set, put at index `idx` -/
def ofRel (idx : Nat) (r : RelSet) : List Item := r.map fun p => ⟨p.1, p.2.1, idx - p.2.2⟩

def MAX_CACHED_GOTO_RESULTS : Nat := 3

abbrev CacheKey := RelSet × Nat × Option Nat

structure CacheEntry where
  key : CacheKey
  /-- the filled slots `0 .. results.length - 1`: result and place -/
  results : List (RelSet × Nat) := []
  /-- the slot written next -/
  curr : Nat := 0
deriving Repr, Inhabited

abbrev GotoCache := List CacheEntry

/-- the stored set at index `k` of the list (two list positions hold "the same set" iff these
are equal) -/
def storedAt (pl : List (List Item)) (k : Nat) : RelSet := toRel k (pl.getD k [])

/-- `check_cached_transition_set`: the current set has index `j`, the candidate was computed
at `place` -/
def validAt (pl : List (List Item)) (j : Nat) (c : RelSet × Nat) : Bool :=
  c.1.all fun p =>
    p.2.2 ≤ 1 || storedAt pl (j + 1 - p.2.2) == storedAt pl (c.2 + 1 - p.2.2)

/-- write a result into the slot `curr` of the entry with the key (creating the entry) -/
def CacheEntry.store (e : CacheEntry) (x : RelSet × Nat) : CacheEntry :=
  { e with
    results := if e.curr < e.results.length then e.results.set e.curr x else e.results ++ [x],
    curr := (e.curr + 1) % MAX_CACHED_GOTO_RESULTS }

def GotoCache.store (c : GotoCache) (key : CacheKey) (x : RelSet × Nat) : GotoCache :=
  if c.any (·.key == key) then c.map fun e => if e.key == key then e.store x else e
  else c ++ [({ key := key } : CacheEntry).store x]

/-- the first stored result of the key that passes the test -/
def GotoCache.lookup (c : GotoCache) (key : CacheKey) (pl : List (List Item)) (j : Nat) :
    Option (RelSet × Nat) :=
  match c.find? (·.key == key) with
  | some e => e.results.find? (validAt pl j)
  | none => none

/-- the lookahead part of the key: `-1` (here `none`) at lookahead level 0 and for the last
token -/
def keyLookahead (la : Nat) (rest : List Nat) : Option Nat := if la = 0 then none else rest.head?

structure CachedRun where
  result : Option Nat × List (List Item)
  cache : GotoCache
  /-- `n_goto_successes` -/
  hits : Nat

/-- `build_pl` without error recovery, with the goto cache -/
def parseLoopCached (g : Grammar) (an : Analysis) (la : Nat) :
    List Nat → List (List Item) → Nat → GotoCache → Nat → CachedRun
  | [], pl, _, c, hits => ⟨(none, pl), c, hits⟩
  | a :: rest, pl, k, c, hits =>
    let j := pl.length - 1
    let nla := keyLookahead la rest
    let key : CacheKey := (toRel j (pl.getLastD []), a, nla)
    match c.lookup key pl j with
    | some hit => parseLoopCached g an la rest (pl ++ [ofRel (j + 1) hit.1]) (k + 1) c (hits + 1)
    | none =>
      if hasTrans g (pl.getLastD []) a then
        let ns := nextSet g (okItem g an la nla) pl a
        parseLoopCached g an la rest (pl ++ [ns]) (k + 1) (c.store key (toRel (j + 1) ns, j)) hits
      else ⟨(some k, pl), c, hits⟩

def buildPLCached (g : Grammar) (la : Nat) (w : List Nat) : CachedRun :=
  parseLoopCached g g.analysis la (w ++ [g.eofT]) [set0 g] 0 [] 0

end Yaep
