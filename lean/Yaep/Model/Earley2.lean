import Yaep.Model.Earley
/-!
# The parse list at lookahead level 2 (dynamic lookahead)

Items carry a context (a set of terminals).  `$S` items have the empty context; scanned,
completed and nullable-advanced items inherit it; the predicted items of one set exist once
per `(rule, dot)` with the context `⋃ { LA(shifted p) | p in this set, lhs after p's dot }`
computed to a least fixpoint; `LA(r,d,ctx) = FIRST(tail) ∪ (ctx if the tail is nullable)`.
(Executable model for the deep tie only; the theorems are about levels 0/1.)
-/
namespace Yaep

structure Item2 where
  rule : Nat
  dot : Nat
  origin : Nat
  ctx : List Nat
deriving DecidableEq, Repr, Inhabited

def insertSorted (a : Nat) : List Nat → List Nat
  | [] => [a]
  | b :: rest => if a < b then a :: b :: rest else if a = b then b :: rest else b :: insertSorted a rest

def normSet (l : List Nat) : List Nat := l.foldl (fun acc a => insertSorted a acc) []

def la2 (g : Grammar) (an : Analysis) (r d : Nat) (ctx : List Nat) : List Nat :=
  match g.rules[r]? with
  | none => []
  | some rl =>
    let (f, e) := firstOfStr an.nl an.fs (rl.rhs.drop d)
    normSet (if e then f ++ ctx else f)

def ok2 (g : Grammar) (an : Analysis) (nxt : Option Nat) (r d : Nat) (ctx : List Nat) : Bool :=
  match nxt with
  | none => true
  | some a => let s := la2 g an r d ctx; s.contains a || s.contains g.errT

/-- nullable-advance of a start item: all `(r, d', i, ctx)` with `d' > d` reachable over nullables -/
def derived2 (g : Grammar) (an : Analysis) (it : Item2) : Nat → List Item2
  | 0 => []
  | fuel + 1 =>
    match g.nextSym it.rule it.dot with
    | some (.n B) => if B ∈ an.nl then
        let it' := { it with dot := it.dot + 1 }
        it' :: derived2 g an it' fuel else []
    | _ => []

/-- the `(rule, dot)` pairs of the initial (predicted) items of a set -/
def initStep (g : Grammar) (an : Analysis) (base : List (Nat × Nat)) (cur : List (Nat × Nat)) : List (Nat × Nat) :=
  (base.flatMap fun (r, d) =>
      match g.nextSym r d with
      | some (.n B) => (g.rulesFor B).map fun r2 => (r2, 0)
      | _ => []) ++
  (cur.flatMap fun (r, d) =>
      match g.nextSym r d with
      | some (.n B) => ((g.rulesFor B).map fun r2 => (r2, 0)) ++ (if B ∈ an.nl then [(r, d + 1)] else [])
      | _ => [])

def ctxRound (g : Grammar) (an : Analysis) (items : List Item2) (inits : List ((Nat × Nat) × List Nat)) :
    List ((Nat × Nat) × List Nat) :=
  inits.map fun ((r, d), _) =>
    let lhs := match g.rules[r]? with | some rl => rl.lhs | none => 0
    let fromItems := items.flatMap fun p =>
      if g.nextSym p.rule p.dot = some (.n lhs) then la2 g an p.rule (p.dot + 1) p.ctx else []
    let fromInits := inits.flatMap fun ((r2, d2), c2) =>
      if g.nextSym r2 d2 = some (.n lhs) then la2 g an r2 (d2 + 1) c2 else []
    ((r, d), normSet (fromItems ++ fromInits))

def ctxFix (g : Grammar) (an : Analysis) (items : List Item2) : Nat → List ((Nat × Nat) × List Nat) →
    List ((Nat × Nat) × List Nat)
  | 0, inits => inits
  | fuel + 1, inits =>
    let nxt := ctxRound g an items inits
    if nxt == inits then inits else ctxFix g an items fuel nxt

def expand2 (g : Grammar) (an : Analysis) (start : List Item2) (j : Nat) : List Item2 :=
  let items := start ++ start.flatMap fun it => derived2 g an it (g.maxRhs + 1)
  let base := items.map fun it => (it.rule, it.dot)
  let pairs := saturate (initStep g an base) (g.rules.length * (g.maxRhs + 1) + 2) []
  let inits := ctxFix g an items (pairs.length * (g.nT + 1) + 2) (pairs.map fun p => (p, []))
  items ++ inits.map fun ((r, d), c) => ⟨r, d, j, c⟩

def addNew2 (s : List Item2) (xs : List Item2) : List Item2 := addNew s xs

/-- start items of the set after shifting terminal `a` (scan + completion of empty-tail items) -/
def startLoop (g : Grammar) (an : Analysis) (nxt : Option Nat) (pl : List (List Item2)) :
    Nat → List Item2 → Nat → List Item2
  | 0, start, _ => start
  | fuel + 1, start, k =>
    match start[k]? with
    | none => start
    | some it =>
      let tailNullable := match g.rules[it.rule]? with
        | some rl => (firstOfStr an.nl an.fs (rl.rhs.drop it.dot)).2
        | none => false
      let lhs := match g.rules[it.rule]? with | some rl => rl.lhs | none => 0
      let more := if tailNullable && it.origin < pl.length then
          (pl.getD it.origin []).filterMap fun p =>
            if g.nextSym p.rule p.dot = some (.n lhs) ∧ ok2 g an nxt p.rule (p.dot + 1) p.ctx = true
            then some ({ p with dot := p.dot + 1 } : Item2) else none
        else []
      startLoop g an nxt pl fuel (addNew start more) (k + 1)

def nextSet2 (g : Grammar) (an : Analysis) (nxt : Option Nat) (pl : List (List Item2)) (a : Nat) : List Item2 :=
  let prev := pl.getLastD []
  let scanned := prev.filterMap fun p =>
    if g.nextSym p.rule p.dot = some (.t a) ∧ ok2 g an nxt p.rule (p.dot + 1) p.ctx = true
    then some ({ p with dot := p.dot + 1 } : Item2) else none
  let start := startLoop g an nxt pl (g.rules.length * (g.maxRhs + 1) * (pl.length + 1) * 4 + 8) (addNew [] scanned) 0
  expand2 g an start pl.length

def hasTrans2 (g : Grammar) (s : List Item2) (a : Nat) : Bool :=
  s.any fun p => g.nextSym p.rule p.dot == some (.t a)

def parseLoop2 (g : Grammar) (an : Analysis) : List Nat → List (List Item2) → Nat → Option Nat × List (List Item2)
  | [], pl, _ => (none, pl)
  | a :: rest, pl, k =>
    if hasTrans2 g (pl.getLastD []) a then
      parseLoop2 g an rest (pl ++ [nextSet2 g an rest.head? pl a]) (k + 1)
    else (some k, pl)

def buildPL2 (g : Grammar) (w : List Nat) : Option Nat × List (List Item2) :=
  let an := g.analysis
  let s0 := expand2 g an ((g.rulesFor g.axiomN).map fun r => ⟨r, 0, 0, []⟩) 0
  parseLoop2 g an (w ++ [g.eofT]) [s0] 0

end Yaep
