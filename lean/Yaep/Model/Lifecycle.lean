/-!
# Resource life cycle of the API functions (stage programs and their interpreter)

`tools/extract_consts.py` extracts from `yaep_parse`, `yaep_create_grammar` and
`yaep_free_grammar` (src/yaep.c) the straight-line *stage program*: which pool is created /
finalised / forgotten, which flag is assigned, which call may `longjmp`, and the handler that the
`setjmp` statement installs.  This file is the data type of those programs and a small
interpreter: the state is the list of pools held, the pools released, the local flags and an error
log (double release, release of a pool that was never acquired, use of a pool not held, a pointer
overwritten while its pool is held, a flag read before it was assigned, a failure with no handler).

Nothing is totalised away: every wrong step is logged in `errs`, and the theorems of
`Props/Lifecycle.lean` prove that the log stays empty.
-/
namespace Yaep.Lifecycle

/-- the statements of a handler branch / of an `if (flag)` body -/
inductive Atom where
  /-- `X_init ()` / `x = X_init ()` / `pl_create ()`: allocates (a failure point); afterwards `p` is held -/
  | acquire (p : String)
  /-- the pointers of the pool are overwritten without a free (`pl_init`: `pl = NULL`;
  `grammar->symbs_ptr = NULL`): an error if the pool is held, the reset of a dangling pointer otherwise -/
  | forget (p : String)
  /-- `X_fin` whose body does NOT test its pointer -/
  | release (p : String)
  /-- `X_fin` whose body tests the pointer (`if (pl != NULL)`, `if (symbs == NULL) return;`) -/
  | releaseIfHeld (p : String)
  /-- `flag = TRUE;` / `flag = FALSE;` -/
  | setFlag (f : String) (b : Bool)
  /-- any other call (it may `longjmp`); `uses` = the pools whose globals the callee reads -/
  | mayFail (n : String) (uses : List String)
deriving DecidableEq, Repr

/-- the statements of a handler -/
inductive HStep where
  | atom (a : Atom)
  /-- `if (flag) { body }` -/
  | ifFlag (f : String) (body : List Atom)
deriving DecidableEq, Repr

/-- the statements of an API function -/
inductive Step where
  | h (s : HStep)
  /-- `if (setjmp (error_longjump_buff) != 0) { hs; return ...; }` -/
  | handler (hs : List HStep)
  /-- `p = alloc (...); if (p == NULL) { hs; return NULL; }`: a failure point with its own handler -/
  | acquireOr (p : String) (hs : List HStep)
deriving DecidableEq, Repr

inductive Err where
  | doubleRelease (p : String)
  | releaseUnheld (p : String)
  | useAfterRelease (p : String)
  | useUnheld (p : String)
  /-- the only pointer to a held pool is overwritten (by `forget` or by a second `acquire`) -/
  | lost (p : String)
  | flagUnset (f : String)
  /-- a `longjmp` while no `setjmp` of this call is in force -/
  | noHandler (n : String)
deriving DecidableEq, Repr

structure State where
  held : List String := []
  released : List String := []
  flags : List (String × Bool) := []
  errs : List Err := []
deriving DecidableEq, Repr

def State.log (s : State) (e : Err) : State := { s with errs := s.errs ++ [e] }

def State.flag (s : State) (f : String) : Option Bool := s.flags.lookup f

def useOne (s : State) (p : String) : State :=
  if s.held.contains p then s
  else if s.released.contains p then s.log (.useAfterRelease p) else s.log (.useUnheld p)

def releaseOne (s : State) (p : String) : State :=
  if s.held.contains p then { s with held := s.held.erase p, released := p :: s.released.erase p }
  else if s.released.contains p then s.log (.doubleRelease p) else s.log (.releaseUnheld p)

/-- the statement runs to its end -/
def execAtom (a : Atom) (s : State) : State :=
  match a with
  | .acquire p =>
    let s := if s.held.contains p then s.log (.lost p) else s
    { s with held := p :: s.held.erase p, released := s.released.erase p }
  | .forget p =>
    if s.held.contains p then { s.log (.lost p) with held := s.held.erase p }
    else { s with released := s.released.erase p }
  | .release p => releaseOne s p
  -- the test looks at the POINTER: it protects only if the pointer was reset (`forget`) after the
  -- last release; a dangling pointer passes the test and is freed again
  | .releaseIfHeld p => if s.held.contains p || s.released.contains p then releaseOne s p else s
  | .setFlag f b => { s with flags := (f, b) :: s.flags.filter (fun x => x.1 != f) }
  | .mayFail _ uses => uses.foldl useOne s

/-- the statement `longjmp`s: an `X_init` that fails has created nothing (stage granularity: the
allocations inside one `X_init` are not separated), a call has still used its pools -/
def failAtom (a : Atom) (s : State) : State :=
  match a with
  | .acquire _ => s
  | .mayFail _ uses => uses.foldl useOne s
  | _ => s

def Atom.isFailPoint : Atom → Bool
  | .acquire _ => true
  | .mayFail _ _ => true
  | _ => false

def Atom.name : Atom → String
  | .acquire p => p
  | .mayFail n _ => n
  | _ => ""

/-- the result of a piece of code: it ran to its end (`k` failure points still to pass before
the failing one), or it jumped -/
inductive Out where
  | done (s : State) (k : Nat)
  | failed (s : State) (at_ : String)
deriving DecidableEq, Repr

/-- run `as`; the `k`-th failure point met (counting from 0) fails -/
def runAtoms : List Atom → Nat → State → Out
  | [], k, s => .done s k
  | a :: as, k, s =>
    if a.isFailPoint then
      match k with
      | 0 => .failed (failAtom a s) a.name
      | k + 1 => runAtoms as k (execAtom a s)
    else runAtoms as k (execAtom a s)

def runHStep (h : HStep) (k : Nat) (s : State) : Out :=
  match h with
  | .atom a => runAtoms [a] k s
  | .ifFlag f body =>
    match s.flag f with
    | none => .done (s.log (.flagUnset f)) k
    | some true => runAtoms body k s
    | some false => .done s k

/-- a handler runs without failures (the `*_fin` functions do not allocate) -/
def runHandler : List HStep → State → State
  | [], s => s
  | h :: hs, s =>
    match h with
    | .atom a => runHandler hs (execAtom a s)
    | .ifFlag f body =>
      match s.flag f with
      | none => runHandler hs (s.log (.flagUnset f))
      | some true => runHandler hs (body.foldl (fun s a => execAtom a s) s)
      | some false => runHandler hs s

/-- the jump: to the handler in force, if there is one -/
def jump (cur : Option (List HStep)) (s : State) (at_ : String) : State :=
  match cur with
  | none => s.log (.noHandler at_)
  | some hs => runHandler hs s

/-- run an API function whose `k`-th failure point fails; the result says whether the call
succeeded (`true`) or took a handler -/
def run : List Step → Nat → Option (List HStep) → State → State × Bool
  | [], _, _, s => (s, true)
  | .handler hs :: r, k, _, s => run r k (some hs) s
  | .acquireOr p hs :: r, k, cur, s =>
    match k with
    | 0 => (runHandler hs s, false)
    | k + 1 => run r k cur (execAtom (.acquire p) s)
  | .h x :: r, k, cur, s =>
    match runHStep x k s with
    | .done s' k' => run r k' cur s'
    | .failed s' n => (jump cur s' n, false)

/-- the number of failure points of the success path (an upper bound: `if (flag)` bodies count) -/
def HStep.nFail : HStep → Nat
  | .atom a => if a.isFailPoint then 1 else 0
  | .ifFlag _ body => (body.filter Atom.isFailPoint).length

def Step.nFail : Step → Nat
  | .h x => x.nFail
  | .handler _ => 0
  | .acquireOr _ _ => 1

def nFail (prog : List Step) : Nat := (prog.map Step.nFail).sum

/-- the names of the failure points, in order (`failNames prog`[k] is where failure `k` strikes) -/
def failNames : List Step → List String
  | [] => []
  | .h (.atom a) :: r => (if a.isFailPoint then [a.name] else []) ++ failNames r
  | .h (.ifFlag _ body) :: r => (body.filter Atom.isFailPoint).map Atom.name ++ failNames r
  | .handler _ :: r => failNames r
  | .acquireOr p _ :: r => p :: failNames r

/-- a call of an API function: the flags are locals (unset at entry, gone at return) -/
def call (prog : List Step) (k : Nat) (s : State) : State × Bool :=
  -- `k` beyond the last failure point: no failure
  let r := run prog (min k (nFail prog)) none { s with flags := [] }
  ({ r.1 with flags := [] }, r.2)

/-- the success path -/
def callOk (prog : List Step) (s : State) : State × Bool := call prog (nFail prog) s

/-! ## histories of one object -/

/-- the calls on one object after it was created: a parse whose `k`-th failure point fails
(`none`: no failure) -/
structure Api where
  create : List Step
  parse : List Step
  free : List Step

def kOf (prog : List Step) : Option Nat → Nat
  | none => nFail prog
  | some k => k

/-- create (with a failure at `ck`, or none), then the parses, then free; a failed create
returns NULL and the history ends there -/
def history (api : Api) (ck : Option Nat) (pks : List (Option Nat)) : State :=
  let c := call api.create (kOf api.create ck) {}
  if c.2 then
    let s := pks.foldl (fun s pk => (call api.parse (kOf api.parse pk) s).1) c.1
    (call api.free (nFail api.free) s).1
  else c.1

end Yaep.Lifecycle
