import Yaep.Model.BuildSet
import Yaep.Model.Earley2
/-!
# Construction of the Earley sets of `src/yaep.c`, step for step, at lookahead level 2

`Yaep/Model/BuildSet.lean` transcribes `build_start_set`, `build_new_set`,
`expand_new_start_set`, `set_insert` and the main loop of `build_pl` for lookahead levels 0
and 1, where a situation is the pair `(rule, dot)`.  With `grammar->lookahead_level > 1`
(dynamic lookahead) a situation is the triple `(rule, dot, context)`: `sit_create` keeps one
object per triple (table `sit_table[context][rule_start_offset + pos]`), the context is the
number of a terminal set in the per-grammar table of terminal sets (`term_set_insert`: equal
sets have the same number), and `sit->lookahead = FIRST (tail) ∪ (context if the tail is
nullable)`.  This file is the transcription of the same C functions for that level, again
function by function, as pure functions on lists; nothing is improved.  Compile-time
configuration as in `Model/BuildSet.lean` (`TRANSITIVE_TRANSITION`, `ABSOLUTE_DISTANCES`
undefined, `USE_SET_HASH_TABLE` defined).

A context is modelled by the strictly increasing list of its terminal numbers (`normSet` of
`Model/Earley2.lean`): two situations are the same C pointer iff rule, dot and this list are
equal.  Context number 0 is the empty set (`build_start_set` asserts it), here `[]`.

## Map from the C code to this file

| C (`src/yaep.c`), `lookahead_level > 1`                        | here |
|---|---|
| `struct sit` (`rule`, `pos`, `context`); pointer equality      | `Sit2` (`rule`, `dot`, `ctx`), `DecidableEq` |
| `term_set_insert (context_set)` (canonical number of a set)    | `normSet` |
| `sit->lookahead` (`sit_set_lookahead`: FIRST of the tail, `∪ term_set_from_table (context)` if the tail is nullable) | `la2 g an rule dot ctx` (`Model/Earley2.lean`) |
| `sit->empty_tail_p`                                            | `BS.emptyTailP g an (rule, dot)` (does not depend on the context) |
| the test `local_lookahead_level != 0 && !term_set_test (new_sit->lookahead, lookahead_term_num) && !term_set_test (new_sit->lookahead, term_error_num)` | the argument `ok` of `buildNewSet` (`parseLoopC2` passes `ok2 g an nxt`) |
| `struct set_core` with its `core_symb_vect` triples            | `Core2` (as `BS.Core`, situations of type `Sit2`) |
| `core_symb_vect_find`, `…_new_add_transition_el`, `…_new_add_reduce_el` | `Core2.find`, `Core2.transOf`, `Core2.reducesOf`, `Core2.addTransEl`, `Core2.addReduceEl` (`BS.vfind`, `BS.vadd`) |
| `struct set`                                                   | `CSet2` |
| `new_sits`, `new_dists`, `new_n_start_sits` before `set_insert` | `NewStart2` |
| `set_new_add_start_sit`, `sit_dist_insert`                     | `addStartSit`, `sitDistInsert` |
| `set_add_new_nonstart_sit` (scan compares pointer AND parent)  | `addNonstartSit`, `dupNonstart` |
| `set_new_add_initial_sit` (scan `[n_all_dists, n_sits)`, pointers) | `addInitialSit` |
| `add_derived_nonstart_sits`: `sit_create (rule, i + 1, context)` with `context = sit->context` | `addDerivedLoop`, `addDerivedNonstartSits` |
| `expand_new_start_set`: first `for`                            | `expandLoop1` |
| — second `for`: `set_new_add_initial_sit (sit_create (rule, 0, 0))`, `set_new_add_initial_sit (sit_create (sit->rule, sit->pos + 1, 0))` | `expandStep2`, `expandLoop2` (`BS.scanLoop`, fuel `expandFuel`) |
| — third `for`                                                  | `expandStep3`, `expandLoop3` |
| — the block `if (grammar->lookahead_level > 1)`: body of the inner `for (i = n_all_dists; i < n_sits; i++)` | `newCtx` (the set `context_set` after the loop over `j`), `ctxStepWith` |
| — — one execution of the inner `for`                            | `ctxPassWith` (fold over `ctxOrder c = [n_all_dists, n_sits)`; `ctxPassOn` for any list of indices) |
| — — `do … while (changed_p)`                                    | `ctxLoopWith` (fuel `ctxFuel`) |
| — — `changed_p = TRUE` when `sit != new_sit`                    | flag function `flagOr` (`old || now`) |
| — — a past mutation: `changed_p = (sit != new_sit)`             | flag function `flagLast` (`buildPLC2Last`) |
| `set_new_core_stop`, `core_symb_vect_new_all_stop`             | not modelled (unobservable) |
| `set_core_eq` (start situations as pointers: contexts included) | `coreKeyEq` |
| `set_insert`, the tables and counters                          | `setInsert`, `Tab2`, `Tab2.storeCore` |
| `build_start_set` (`context = 0`)                              | `buildStartSet` |
| `build_new_set`: `sit_create (sit->rule, sit->pos + 1, sit->context)` | `shiftSit`, `addShifted`, `newSetLoop1`, `newSetStep2`, `newSetLoop2` (fuel `newSetFuel`) |
| hook `yaep_verif_dump_pl`                                      | `CSet2.originOf`, `CSet2.items` (`Item2`s in C order), `CSet2.las` (the `la` lines) |
| main loop of `build_pl` without goto cache and error recovery  | `parseLoopC2`, `buildPLC2`, `acceptsC2` |

Notes.
* During the second loop of `expand_new_start_set` every initial situation has context 0, so
  the duplicate scan of `set_new_add_initial_sit` compares `(rule, pos)`; the contexts are
  replaced afterwards, in place (`new_sits[i] = sit`), by the `lookahead_level > 1` block.
* In that block `core_symb_vect_find (new_core, new_sit->rule->lhs)` is never `NULL` for an
  initial situation (its rule was predicted from a situation with the left-hand side after the
  dot, or it is an advanced initial situation of such a rule: `ctxLoop_lookup_safe` in
  `Props/BuildSet2.lean`); the model reads an absent vector as empty.
* The order of the situations, their lookahead sets (`la` lines of the hook) and the counters
  `n_set_cores`, `n_set_dists`, `n_sets` were compared with the real library: see
  `REPORT-L3.md`.
* What is proved about this model: `Yaep/Props/BuildSet2.lean`.
-/
namespace Yaep.BS2
open Yaep

/-- a situation at lookahead level 2 -/
structure Sit2 where
  rule : Nat
  dot : Nat
  ctx : List Nat
deriving DecidableEq, Repr, Inhabited

/-- the situation of levels 0/1 -/
def Sit2.proj (s : Sit2) : BS.Sit := (s.rule, s.dot)

/-- `struct set_core` together with its `core_symb_vect` triples -/
structure Core2 where
  num : Nat := 0
  sits : List Sit2 := []
  nStart : Nat := 0
  nAllDists : Nat := 0
  parents : List Nat := []
  trans : List (Sym × List Nat) := []
  reduces : List (Nat × List Nat) := []
deriving Repr, Inhabited, DecidableEq

/-- `struct set` -/
structure CSet2 where
  core : Core2 := {}
  dists : List Nat := []
deriving Repr, Inhabited, DecidableEq

def Core2.transOf (c : Core2) (X : Sym) : Option (List Nat) := BS.vfind c.trans X
def Core2.reducesOf (c : Core2) (A : Nat) : Option (List Nat) := BS.vfind c.reduces A

/-- `core_symb_vect_find (core, symb) != NULL` -/
def Core2.find (c : Core2) (X : Sym) : Bool :=
  (c.transOf X).isSome ||
    match X with
    | .n A => (c.reducesOf A).isSome
    | .t _ => false

def Core2.addTransEl (c : Core2) (X : Sym) (i : Nat) : Core2 :=
  { c with trans := BS.vadd c.trans X i }
def Core2.addReduceEl (c : Core2) (A : Nat) (i : Nat) : Core2 :=
  { c with reduces := BS.vadd c.reduces A i }

/-! ## the set being formed -/

abbrev NewStart2 := List (Sit2 × Nat)

def setNewStart : NewStart2 := []

def addStartSit (ns : NewStart2) (sit : Sit2) (dist : Nat) : NewStart2 := ns ++ [(sit, dist)]

/-- `TRUE` iff the pair was not there -/
def sitDistInsert (ns : NewStart2) (sit : Sit2) (dist : Nat) : Bool := !ns.contains (sit, dist)

/-- the scan of `set_add_new_nonstart_sit` -/
def dupNonstart (c : Core2) (sit : Sit2) (parent : Nat) : Bool :=
  ((c.sits.drop c.nStart).zip c.parents).contains (sit, parent)

def addNonstartSit (c : Core2) (sit : Sit2) (parent : Nat) : Core2 :=
  if dupNonstart c sit parent then c
  else { c with sits := c.sits ++ [sit], nAllDists := c.nAllDists + 1,
                parents := c.parents ++ [parent] }

def addInitialSit (c : Core2) (sit : Sit2) : Core2 :=
  if (c.sits.drop c.nAllDists).contains sit then c else { c with sits := c.sits ++ [sit] }

/-- `for (i = pos; (symb = rhs[i]) != NULL && symb->empty_p; i++)
set_add_new_nonstart_sit (sit_create (rule, i + 1, context), parent)` -/
def addDerivedLoop (nl : List Nat) (r : Nat) (ctx : List Nat) (parent : Nat) :
    List Sym → Nat → Core2 → Core2
  | [], _, c => c
  | s :: rest, i, c =>
    if symNullable nl s then
      addDerivedLoop nl r ctx parent rest (i + 1) (addNonstartSit c ⟨r, i + 1, ctx⟩ parent)
    else c

def addDerivedNonstartSits (g : Grammar) (an : Analysis) (c : Core2) (sit : Sit2) (parent : Nat) :
    Core2 :=
  match g.rules[sit.rule]? with
  | none => c
  | some rl => addDerivedLoop an.nl sit.rule sit.ctx parent (rl.rhs.drop sit.dot) sit.dot c

/-! ## `expand_new_start_set`: the three loops shared with levels 0/1 -/

def expandLoop1 (g : Grammar) (an : Analysis) (c : Core2) : Core2 :=
  (List.range c.nStart).foldl
    (fun c i => addDerivedNonstartSits g an c (c.sits.getD i default) i) c

/-- body of the second loop: the initial situations are created with context 0 -/
def expandStep2 (g : Grammar) (an : Analysis) (c : Core2) (i : Nat) : Core2 :=
  let sit := c.sits.getD i default
  match g.nextSym sit.rule sit.dot with
  | none => c
  | some symb =>
    let c1 :=
      if c.find symb then c
      else
        match symb with
        | .n B => (BS.rulesOf g B).foldl (fun c r => addInitialSit c ⟨r, 0, []⟩) c
        | .t _ => c
    let c2 := c1.addTransEl symb i
    if symNullable an.nl symb && decide (c2.nAllDists ≤ i) then
      addInitialSit c2 ⟨sit.rule, sit.dot + 1, []⟩
    else c2

def expandLoop2 (g : Grammar) (an : Analysis) (fuel : Nat) (c : Core2) : Core2 :=
  BS.scanLoop (fun c => c.sits.length) (expandStep2 g an) fuel 0 c

def expandStep3 (g : Grammar) (c : Core2) (i : Nat) : Core2 :=
  let sit := c.sits.getD i default
  match g.rules[sit.rule]? with
  | none => c
  | some rl => if sit.dot = rl.rhs.length then c.addReduceEl rl.lhs i else c

def expandLoop3 (g : Grammar) (c : Core2) : Core2 :=
  (List.range c.sits.length).foldl (expandStep3 g) c

def expandFuel (g : Grammar) (c : Core2) : Nat := c.nAllDists + BS.sitBound g + 1

/-! ## `expand_new_start_set`: the contexts of the initial situations -/

/-- left-hand side of the rule of a situation -/
def lhsOf (g : Grammar) (sit : Sit2) : Nat := (g.rules.getD sit.rule default).lhs

/-- `context_set` after the loop over the transition vector of `A`: the union of the lookaheads
of the shifted situations, read from the present `new_sits`, as a canonical set -/
def ctxOfNt (g : Grammar) (an : Analysis) (c : Core2) (A : Nat) : List Nat :=
  normSet (((c.transOf (.n A)).getD []).flatMap fun k =>
    let s := c.sits.getD k default
    la2 g an s.rule (s.dot + 1) s.ctx)

/-- the context computed for situation `i` -/
def newCtx (g : Grammar) (an : Analysis) (c : Core2) (i : Nat) : List Nat :=
  ctxOfNt g an c (lhsOf g (c.sits.getD i default))

/-- the flag after a situation: `changed_p = TRUE` only if the situation was replaced -/
def flagOr (old now : Bool) : Bool := old || now

/-- a past mutation: `changed_p = (sit != new_sit)`, the flag tells about the last situation
of the pass only -/
def flagLast (_old now : Bool) : Bool := now

/-- body of the inner `for`: `sit = sit_create (new_sit->rule, new_sit->pos, context);
if (sit != new_sit) { new_sits[i] = sit; changed_p = TRUE; }` -/
def ctxStepWith (flag : Bool → Bool → Bool) (g : Grammar) (an : Analysis) (st : Core2 × Bool)
    (i : Nat) : Core2 × Bool :=
  let sit := st.1.sits.getD i default
  let ctx := newCtx g an st.1 i
  if ctx = sit.ctx then (st.1, flag st.2 false)
  else ({ st.1 with sits := st.1.sits.set i { sit with ctx := ctx } }, flag st.2 true)

/-- one pass over the indices `order`, starting with `changed_p = FALSE` -/
def ctxPassOn (flag : Bool → Bool → Bool) (g : Grammar) (an : Analysis) (order : List Nat)
    (c : Core2) : Core2 × Bool :=
  order.foldl (ctxStepWith flag g an) (c, false)

/-- `for (i = new_core->n_all_dists; i < new_core->n_sits; i++)` -/
def ctxOrder (c : Core2) : List Nat := List.range' c.nAllDists (c.sits.length - c.nAllDists)

/-- `do { changed_p = FALSE; for …; } while (changed_p);` over the indices `order` -/
def ctxLoopOn (flag : Bool → Bool → Bool) (g : Grammar) (an : Analysis) (order : List Nat) :
    Nat → Core2 → Core2
  | 0, c => c
  | fuel + 1, c =>
    let r := ctxPassOn flag g an order c
    if r.2 then ctxLoopOn flag g an order fuel r.1 else r.1

def ctxPassWith (flag : Bool → Bool → Bool) (g : Grammar) (an : Analysis) (c : Core2) :
    Core2 × Bool := ctxPassOn flag g an (ctxOrder c) c

def ctxLoopWith (flag : Bool → Bool → Bool) (g : Grammar) (an : Analysis) (fuel : Nat)
    (c : Core2) : Core2 := ctxLoopOn flag g an (ctxOrder c) fuel c

/-- fuel of the `do … while`: a pass that changes something adds a terminal to a context -/
def ctxFuel (g : Grammar) (c : Core2) : Nat := (c.sits.length - c.nAllDists) * g.nT + 1

def expandNewStartSetWith (flag : Bool → Bool → Bool) (g : Grammar) (an : Analysis) (c : Core2) :
    Core2 :=
  let c1 := expandLoop1 g an c
  let c2 := expandLoop2 g an (expandFuel g c1) c1
  let c3 := expandLoop3 g c2
  ctxLoopWith flag g an (ctxFuel g c3) c3

def expandNewStartSet := expandNewStartSetWith flagOr

/-! ## `set_insert` -/

structure Tab2 where
  cores : List Core2 := []
  distVecs : List (List Nat) := []
  sets : List (Nat × List Nat) := []
  nCores : Nat := 0
  nDists : Nat := 0
  nSets : Nat := 0
  bad : Bool := false
deriving Repr, Inhabited

/-- `set_core_eq`: same number of start situations, the same pointers -/
def coreKeyEq (sits : List Sit2) (c : Core2) : Bool :=
  c.nStart == sits.length && c.sits.take c.nStart == sits

def Core2.fresh (num : Nat) (sits : List Sit2) : Core2 :=
  { num := num, sits := sits, nStart := sits.length, nAllDists := sits.length }

def setInsert (tab : Tab2) (ns : NewStart2) : Tab2 × CSet2 × Bool :=
  let sits := ns.map (·.1)
  let dists := ns.map (·.2)
  let tab :=
    if tab.distVecs.contains dists then tab
    else { tab with distVecs := tab.distVecs ++ [dists], nDists := tab.nDists + 1 }
  let (tab, core, isNew) :=
    match tab.cores.find? (coreKeyEq sits) with
    | some c => (tab, c, false)
    | none =>
      let c := Core2.fresh tab.nCores sits
      ({ tab with cores := tab.cores ++ [c], nCores := tab.nCores + 1 }, c, true)
  let tab :=
    if tab.sets.contains (core.num, dists) then tab
    else { tab with sets := tab.sets ++ [(core.num, dists)], nSets := tab.nSets + 1 }
  (tab, { core := core, dists := dists }, isNew)

def Tab2.storeCore (tab : Tab2) (c : Core2) : Tab2 := { tab with cores := tab.cores.set c.num c }

/-! ## `build_start_set` -/

def buildStartSetWith (flag : Bool → Bool → Bool) (g : Grammar) (an : Analysis) : Tab2 × CSet2 :=
  let ns := (BS.rulesOf g g.axiomN).foldl (fun ns r => addStartSit ns ⟨r, 0, []⟩ 0) setNewStart
  let (tab, cs, _) := setInsert {} ns
  let c := expandNewStartSetWith flag g an cs.core
  (tab.storeCore c, { cs with core := c })

def buildStartSet := buildStartSetWith flagOr

/-! ## `build_new_set` -/

def CSet2.distOf (s : CSet2) (i : Nat) : Nat :=
  if s.core.nAllDists ≤ i then 0
  else if i < s.core.nStart then s.dists.getD i 0
  else s.dists.getD (s.core.parents.getD (i - s.core.nStart) 0) 0

/-- `new_sit = sit_create (sit->rule, sit->pos + 1, sit->context)` and its distance; `none` if
the lookahead test fails -/
def shiftSit (ok : Nat → Nat → List Nat → Bool) (s : CSet2) (base : Nat) (ind : Nat) :
    Option (Sit2 × Nat) :=
  let sit := s.core.sits.getD ind default
  if ok sit.rule (sit.dot + 1) sit.ctx then
    some (⟨sit.rule, sit.dot + 1, sit.ctx⟩, s.distOf ind + base)
  else none

def addShifted (ok : Nat → Nat → List Nat → Bool) (s : CSet2) (base : Nat) (ns : NewStart2)
    (ind : Nat) : NewStart2 :=
  match shiftSit ok s base ind with
  | none => ns
  | some (sit, dist) => if sitDistInsert ns sit dist then addStartSit ns sit dist else ns

def newSetLoop1 (ok : Nat → Nat → List Nat → Bool) (set : CSet2) (tr : List Nat) : NewStart2 :=
  tr.foldl (addShifted ok set 1) setNewStart

def newSetStep2 (g : Grammar) (an : Analysis) (ok : Nat → Nat → List Nat → Bool) (pl : List CSet2)
    (plCurr : Nat) (st : NewStart2 × Bool) (i : Nat) : NewStart2 × Bool :=
  let (newSit, newDist) := st.1.getD i default
  if BS.emptyTailP g an newSit.proj then
    let place := plCurr + 1 - newDist
    let prev := pl.getD place default
    if prev.core.find (.n (lhsOf g newSit)) then
      let tr := (prev.core.transOf (.n (lhsOf g newSit))).getD []
      (tr.foldl (addShifted ok prev newDist) st.1, st.2 || tr.isEmpty)
    else st
  else st

def newSetLoop2 (g : Grammar) (an : Analysis) (ok : Nat → Nat → List Nat → Bool) (pl : List CSet2)
    (plCurr : Nat) (fuel : Nat) (st : NewStart2 × Bool) : NewStart2 × Bool :=
  BS.scanLoop (fun st => st.1.length) (newSetStep2 g an ok pl plCurr) fuel 0 st

/-- every start situation is a shifted situation of some set of the list, and its distance is
determined by the place of that set, plus one -/
def newSetFuel (pl : List CSet2) : Nat := (pl.map fun s => s.core.sits.length).sum + 1

def buildNewSetWith (flag : Bool → Bool → Bool) (g : Grammar) (an : Analysis)
    (ok : Nat → Nat → List Nat → Bool) (tab : Tab2) (pl : List CSet2) (set : CSet2) (X : Sym) :
    Tab2 × CSet2 :=
  let ns1 := newSetLoop1 ok set ((set.core.transOf X).getD [])
  let (ns, bad) := newSetLoop2 g an ok pl (pl.length - 1) (newSetFuel pl) (ns1, false)
  let (tab, cs, isNew) := setInsert tab ns
  let tab := { tab with bad := tab.bad || bad }
  if isNew then
    let c := expandNewStartSetWith flag g an cs.core
    (tab.storeCore c, { cs with core := c })
  else (tab, cs)

def buildNewSet := buildNewSetWith flagOr

/-! ## the parse list -/

def CSet2.originOf (s : CSet2) (j i : Nat) : Nat :=
  if i < s.core.nStart then j - s.dists.getD i 0
  else if i < s.core.nAllDists then j - s.dists.getD (s.core.parents.getD (i - s.core.nStart) 0) 0
  else j

/-- the items of the set at list position `j`, in the order of the core -/
def CSet2.items (j : Nat) (s : CSet2) : List Item2 :=
  (List.range s.core.sits.length).map fun i =>
    let sit := s.core.sits.getD i default
    ⟨sit.rule, sit.dot, s.originOf j i, sit.ctx⟩

/-- the `la` line of the hook: every situation with its lookahead set -/
def CSet2.las (g : Grammar) (an : Analysis) (j : Nat) (s : CSet2) : List (Nat × Nat × Nat × List Nat) :=
  (List.range s.core.sits.length).map fun i =>
    let sit := s.core.sits.getD i default
    (sit.rule, sit.dot, s.originOf j i, la2 g an sit.rule sit.dot sit.ctx)

def parseLoopC2With (flag : Bool → Bool → Bool) (g : Grammar) (an : Analysis) :
    List Nat → Tab2 → List CSet2 → Nat → Option Nat × Tab2 × List CSet2
  | [], tab, pl, _ => (none, tab, pl)
  | a :: rest, tab, pl, k =>
    let set := pl.getLastD default
    if set.core.find (.t a) then
      let r := buildNewSetWith flag g an (ok2 g an rest.head?) tab pl set (.t a)
      parseLoopC2With flag g an rest r.1 (pl ++ [r.2]) (k + 1)
    else (some k, tab, pl)

def parseLoopC2 := parseLoopC2With flagOr

def buildPLC2With (flag : Bool → Bool → Bool) (g : Grammar) (w : List Nat) :
    Option Nat × Tab2 × List CSet2 :=
  let r := buildStartSetWith flag g g.analysis
  parseLoopC2With flag g g.analysis (w ++ [g.eofT]) r.1 [r.2] 0

/-- `build_pl` at lookahead level 2 -/
def buildPLC2 := buildPLC2With flagOr

/-- the same with the historic `changed_p` -/
def buildPLC2Last := buildPLC2With flagLast

def acceptsC2 (g : Grammar) (w : List Nat) : Bool := (buildPLC2 g w).1.isNone

def plItems (pl : List CSet2) : List (List Item2) :=
  (List.range pl.length).map fun j => (pl.getD j default).items j

end Yaep.BS2
