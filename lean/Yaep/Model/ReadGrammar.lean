import Yaep.Model.Analysis
/-!
# `yaep_read_grammar`: the checks in the order the C code performs them

Input is what the `read_terminal` / `read_rule` callbacks deliver.  Output is either the
error code or the internal grammar (symbols numbered in order of creation, rule 0 =
`$S : start $eof`, implicit `$S : error $eof` last).
-/
namespace Yaep

def NIL_TRANSL : Nat := 2147483647

structure RawRule where
  lhs : String
  rhs : List String
  anode : Option String
  cost : Int
  transl : Option (List Nat)
deriving Repr, Inhabited

structure RawGrammar where
  terms : List (String × Int)
  rules : List RawRule
  strict : Bool
deriving Repr, Inhabited

inductive SymKind where
  | term (code : Int) (num : Nat)
  | nonterm (num : Nat)
deriving Repr, DecidableEq, Inhabited

/-- builder state -/
structure RG where
  syms : List (String × SymKind) := []
  nTerm : Nat := 0
  nNt : Nat := 0
  rules : List Rule := []          -- in creation order
  startN : Option Nat := none       -- nonterminal number of the start symbol
  axiomN : Nat := 0
  errT : Nat := 0
  eofT : Nat := 0
deriving Repr, Inhabited

def RG.find (s : RG) (name : String) : Option SymKind :=
  (s.syms.find? (·.1 == name)).map (·.2)

def RG.findCode (s : RG) (code : Int) : Bool :=
  s.syms.any fun p => match p.2 with | .term c _ => c == code | _ => false

def RG.addTerm (s : RG) (name : String) (code : Int) : RG × Nat :=
  ({ s with syms := s.syms ++ [(name, .term code s.nTerm)], nTerm := s.nTerm + 1 }, s.nTerm)

def RG.addNt (s : RG) (name : String) : RG × Nat :=
  ({ s with syms := s.syms ++ [(name, .nonterm s.nNt)], nNt := s.nNt + 1 }, s.nNt)

abbrev ErrCode := Nat

def readTerms : List (String × Int) → RG → Except ErrCode RG
  | [], s => .ok s
  | (name, code) :: rest, s =>
    if code < 0 then .error 6
    else if (s.find name).isSome then .error 5
    else if s.findCode code then .error 7
    else readTerms rest (s.addTerm name code).1

/-- resolve the right-hand side names, creating nonterminals for unknown ones -/
def readRhs : List String → RG → List Sym → RG × List Sym
  | [], s, acc => (s, acc)
  | nm :: rest, s, acc =>
    match s.find nm with
    | some (.term _ k) => readRhs rest s (acc ++ [.t k])
    | some (.nonterm k) => readRhs rest s (acc ++ [.n k])
    | none => let (s', k) := s.addNt nm; readRhs rest s' (acc ++ [.n k])

/-- the translation array: returns `(order, transLen)` -/
def readTransl (rhsLen : Nat) (hasAnode : Bool) : List Nat → Nat → List (Option Nat) → Nat →
    Except ErrCode (List (Option Nat) × Nat)
  | [], _, order, tl => .ok (order, tl)
  | el :: rest, i, order, tl =>
    if el ≥ rhsLen then
      if el ≠ NIL_TRANSL then .error 12
      else readTransl rhsLen hasAnode rest (i + 1) order (if hasAnode then tl + 1 else tl)
    else if (order.getD el none).isSome then .error 13
    else readTransl rhsLen hasAnode rest (i + 1) (order.set el (some i)) (tl + 1)

def AXIOM_NAME := "$S"
def END_MARKER_NAME := "$eof"
def TERM_ERROR_NAME := "error"

def readRules : List RawRule → RG → Except ErrCode RG
  | [], s => .ok s
  | rr :: rest, s => do
    -- reserved names used as ordinary symbols
    if rr.lhs == AXIOM_NAME || rr.lhs == END_MARKER_NAME
       || rr.rhs.any (fun x => x == AXIOM_NAME || x == END_MARKER_NAME) then throw 4
    let (s, lhsN) ← match s.find rr.lhs with
      | none => pure (s.addNt rr.lhs)
      | some (.term _ _) => throw 9
      | some (.nonterm k) => pure (s, k)
    if rr.anode.isNone && (match rr.transl with | some (_ :: _ :: _) => true | _ => false) then
      throw 10
    if rr.anode.isSome && rr.cost < 0 then throw 11
    let s ← match s.startN with
      | some _ => pure s
      | none =>
        if (s.find AXIOM_NAME).isSome then throw 4
        let (s, ax) := s.addNt AXIOM_NAME
        if (s.find END_MARKER_NAME).isSome then throw 4
        let (s, eof) := s.addTerm END_MARKER_NAME (-1)
        let r0 : Rule := { lhs := ax, rhs := [.n lhsN, .t eof], transLen := 1,
                           order := [some 0, none] }
        pure { s with startN := some lhsN, axiomN := ax, eofT := eof, rules := s.rules ++ [r0] }
    let (s, rhs) := readRhs rr.rhs s []
    let (order, tl) ← match rr.transl with
      | none => pure (List.replicate rhs.length none, 0)
      | some tr => readTransl rhs.length rr.anode.isSome tr 0 (List.replicate rhs.length none) 0
    let r : Rule := { lhs := lhsN, rhs := rhs, anode := rr.anode,
                      cost := if rr.anode.isSome then rr.cost.toNat else 0,
                      transLen := tl, order := order }
    readRules rest { s with rules := s.rules ++ [r] }

def RG.toGrammar (s : RG) : Grammar :=
  let terms := s.syms.filterMap fun p => match p.2 with | .term c _ => some (p.1, c) | _ => none
  let nts := s.syms.filterMap fun p => match p.2 with | .nonterm _ => some p.1 | _ => none
  { rules := s.rules, termNames := terms.map (·.1), termCodes := terms.map (·.2),
    ntNames := nts, errT := s.errT, eofT := s.eofT, axiomN := s.axiomN,
    startN := s.startN.getD 0 }

/-- `check_grammar` -/
def checkGrammar (g : Grammar) (strict : Bool) : ErrCode :=
  let pr := g.productive
  let rc := g.reachable
  let strictErr : Option ErrCode :=
    if strict then
      (List.range g.nN).findSome? fun A =>
        if !(pr.contains A) then some 15 else if !(rc.contains A) then some 14 else none
    else if !(pr.contains g.startN) then some 15 else none
  match strictErr with
  | some e => e
  | none => if g.loopSet.isEmpty then 0 else 16

def readGrammar (raw : RawGrammar) : Except ErrCode Grammar := do
  let s ← readTerms raw.terms {}
  if (s.find TERM_ERROR_NAME).isSome then throw 4
  let (s, e) := s.addTerm TERM_ERROR_NAME (-2)
  let s := { s with errT := e }
  let s ← readRules raw.rules s
  if s.startN.isNone then throw 8
  -- the implicit rule `$S : error $eof` (total loss of the input) is always the last rule
  let errRule : Rule := { lhs := s.axiomN, rhs := [.t s.errT, .t s.eofT], transLen := 0,
                          order := [none, none] }
  let s := { s with rules := s.rules ++ [errRule] }
  let g := s.toGrammar
  let c := checkGrammar g raw.strict
  if c ≠ 0 then throw c
  pure g

end Yaep
