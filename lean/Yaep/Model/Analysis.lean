import Yaep.Model.Basic
import Yaep.Model.Saturate
/-!
# Grammar analysis: the fixpoints of `set_empty_access_derives`, `set_loop_p`,
`create_first_follow_sets`
-/
namespace Yaep

def symNullable (nl : List Nat) : Sym → Bool
  | .t _ => false
  | .n B => B ∈ nl

def symProductive (pr : List Nat) : Sym → Bool
  | .t _ => true
  | .n B => B ∈ pr

def nullableStep (rules : List Rule) (s : List Nat) : List Nat :=
  rules.filterMap fun r => if r.rhs.all (symNullable s) then some r.lhs else none

/-- nonterminals with `empty_p` -/
def Grammar.nullable (g : Grammar) : List Nat :=
  saturate (nullableStep g.rules) (g.rules.length + 1) []

def productiveStep (rules : List Rule) (s : List Nat) : List Nat :=
  rules.filterMap fun r => if r.rhs.all (symProductive s) then some r.lhs else none

/-- nonterminals with `derivation_p` -/
def Grammar.productive (g : Grammar) : List Nat :=
  saturate (productiveStep g.rules) (g.rules.length + 1) []

def rhsNts (rhs : List Sym) : List Nat :=
  rhs.filterMap fun | .n B => some B | .t _ => none

def reachStep (rules : List Rule) (s : List Nat) : List Nat :=
  rules.flatMap fun r => if r.lhs ∈ s then rhsNts r.rhs else []

/-- nonterminals with `access_p` (reachable from `$S`) -/
def Grammar.reachable (g : Grammar) : List Nat :=
  saturate (reachStep g.rules) (g.rules.length * (g.maxRhs + 1) + 2) [g.axiomN]

/-- `B` occurs at position `i` of `rhs` and all the other symbols are nullable -/
def unitPositions (nl : List Nat) (rhs : List Sym) : List Nat :=
  (List.range rhs.length).filterMap fun i =>
    match (rhs[i]? : Option Sym) with
    | some (Sym.n B) =>
      if (List.range rhs.length).all (fun j => j == i || symNullable nl (rhs.getD j (.t 0)))
      then some B else none
    | _ => none

/-- edges `A → B` of the unit-with-nullable graph: `A : α B β`, `α β ⇒* ε` -/
def Grammar.unitEdges (g : Grammar) : List (Nat × Nat) :=
  let nl := g.nullable
  g.rules.flatMap fun r => (unitPositions nl r.rhs).map fun B => (r.lhs, B)

/-- nonterminals with `loop_p` after `set_loop_p`: the greatest set `L` of edge targets such
that every member has an edge into `L`. -/
def Grammar.loopSet (g : Grammar) : List Nat :=
  let edges := g.unitEdges
  let init := (edges.map (·.2)).eraseDups
  shrink (fun L A => edges.any fun e => e.1 == A && L.contains e.2) (init.length + 1) init

/-! ## FIRST / FOLLOW as sets of pairs `(nonterminal, terminal)` -/

/-- FIRST of a symbol string under the table `fs`; second component: the string is nullable -/
def firstOfStr (nl : List Nat) (fs : List (Nat × Nat)) : List Sym → List Nat × Bool
  | [] => ([], true)
  | .t a :: _ => ([a], false)
  | .n B :: rest =>
    let fb := fs.filterMap fun p => if p.1 == B then some p.2 else none
    if B ∈ nl then
      let (fr, e) := firstOfStr nl fs rest
      (fb ++ fr, e)
    else (fb, false)

def firstStep (g : Grammar) (nl : List Nat) (fs : List (Nat × Nat)) : List (Nat × Nat) :=
  g.rules.flatMap fun r => (firstOfStr nl fs r.rhs).1.map fun a => (r.lhs, a)

def Grammar.firstTab (g : Grammar) : List (Nat × Nat) :=
  saturate (firstStep g g.nullable) (g.nN * g.nT + g.rules.length + 2) []

/-- all suffixes `(B, rest)` of a right-hand side that start with a nonterminal -/
def ntSuffixes : List Sym → List (Nat × List Sym)
  | [] => []
  | .t _ :: rest => ntSuffixes rest
  | .n B :: rest => (B, rest) :: ntSuffixes rest

def followStep (g : Grammar) (nl : List Nat) (fs : List (Nat × Nat)) (fl : List (Nat × Nat)) :
    List (Nat × Nat) :=
  g.rules.flatMap fun r =>
    (ntSuffixes r.rhs).flatMap fun (B, rest) =>
      let (fr, e) := firstOfStr nl fs rest
      let inh := if e then fl.filterMap fun p => if p.1 == r.lhs then some p.2 else none else []
      (fr ++ inh).map fun a => (B, a)

def Grammar.followTab (g : Grammar) : List (Nat × Nat) :=
  saturate (followStep g g.nullable g.firstTab) (g.nN * g.nT + g.rules.length + 2) []

end Yaep
