import Yaep.Model.ReadGrammar
/-!
# The API state machine (C14, C15): grammar objects as the caller sees them

The state of one object is nothing but its definition, its settings and its last error code;
an operation on one object never reads or writes another one.  Parse *results* (trees,
callbacks) are computed by the Earley / recovery / translation models from `defn` and `st`
alone; this file fixes the return codes, the error state, setters and defaults.
-/
namespace Yaep

structure Settings where
  la : Int := 1
  debug : Int := 0
  one : Int := 1
  cost : Int := 0
  recov : Int := 1
  rmatch : Int := 3
deriving Repr, Inhabited, DecidableEq

structure ObjState where
  alive : Bool := false
  defn : Option Grammar := none
  st : Settings := {}
  lastErr : Int := 0
deriving Inhabited

inductive SetKind where
  | la | debug | one | cost | recov | rmatch
deriving Repr, DecidableEq, Inhabited

def clampLa (v : Int) : Int := if v < 0 then 0 else if v > 2 then 2 else v

/-- a setter: returns the previous value and the new settings -/
def Settings.set (st : Settings) : SetKind → Int → Int × Settings
  | .la, v => (st.la, { st with la := clampLa v })
  | .debug, v => (st.debug, { st with debug := v })
  | .one, v => (st.one, { st with one := v })
  | .cost, v => (st.cost, { st with cost := v })
  | .recov, v => (st.recov, { st with recov := v })
  | .rmatch, v => (st.rmatch, { st with rmatch := v })

def termNumOfCode (g : Grammar) (code : Int) : Option Nat :=
  (List.range g.termCodes.length).find? fun i => g.termCodes.getD i 0 == code

/-- the tokens `read_token` delivers: a negative code ends the input -/
def inputCodes (codes : List Int) : List Int := codes.takeWhile (· ≥ 0)

/-- return code of `yaep_parse` as decided before any parsing starts:
1 (`YAEP_NO_MEMORY`) for a NULL allocator with a non-NULL free, 2 for an undefined grammar,
17 for the first token code that is not a declared terminal code, else 0 -/
def parseRc (o : ObjState) (allocNull freeGiven : Bool) (codes : List Int) : Int :=
  if allocNull && freeGiven then 1 else
  match o.defn with
  | none => 2
  | some g => if (inputCodes codes).any (fun c => (termNumOfCode g c).isNone) then 17 else 0

/-- the error state after a call that returned `rc`: the code of the most recent failing call -/
def ObjState.record (o : ObjState) (rc : Int) : ObjState :=
  if rc != 0 then { o with lastErr := rc } else o

/-- a definition attempt: success installs the grammar, failure leaves the object undefined -/
def ObjState.define (o : ObjState) (res : Except ErrCode Grammar) : ObjState × Int :=
  match res with
  | .ok g => ({ o with defn := some g }, 0)
  | .error e => ({ o with defn := none, lastErr := (e : Int) }, (e : Int))

inductive ApiOp where
  | create (h : Nat)
  | set (h : Nat) (k : SetKind) (v : Int)
  | define (h : Nat) (res : Except ErrCode Grammar)
  | parse (h : Nat) (allocNull freeGiven : Bool) (codes : List Int)
  | errcode (h : Nat)
  | free (h : Nat)

inductive ApiRes where
  | unit
  | prev (v : Int)
  | rc (c : Int)
  | code (c : Int)
deriving Repr, DecidableEq, Inhabited

def objAt (s : List ObjState) (h : Nat) : ObjState := s.getD h {}

def setAt (s : List ObjState) (h : Nat) (o : ObjState) : List ObjState :=
  if h < s.length then s.set h o else s

def ApiOp.handle : ApiOp → Nat
  | .create h | .set h _ _ | .define h _ | .parse h _ _ _ | .errcode h | .free h => h

/-- one API call on the object table -/
def apiStep (s : List ObjState) : ApiOp → List ObjState × ApiRes
  | .create h => (setAt s h { alive := true }, .unit)
  | .set h k v =>
    let o := objAt s h
    let (p, st') := o.st.set k v
    (setAt s h { o with st := st' }, .prev p)
  | .define h res =>
    let (o', rc) := (objAt s h).define res
    (setAt s h o', .rc rc)
  | .parse h an fg codes =>
    let o := objAt s h
    let rc := parseRc o an fg codes
    (setAt s h (o.record rc), .rc rc)
  | .errcode h => (s, .code (objAt s h).lastErr)
  | .free h => (setAt s h {}, .unit)

end Yaep
