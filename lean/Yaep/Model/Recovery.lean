import Yaep.Model.Earley
/-!
# Error recovery: `error_recovery` and the `build_pl` loop with recovery switched on

A step-for-step functional model of the C search: a LIFO stack of recovery states (head of
original sets + own tail, start token, cost so far), the back frontier with its accumulated
cost, head-frontier states (skip one more token), the in-state skip to the first shiftable
token, match counting, secondary states.  The C save/restore of the original list tail is
abstracted to "state list = original prefix ++ state tail".
-/
namespace Yaep

/-- a set of the parse list with the terminal that led to it and the index of the input
token it was shifted on (`none` for set 0 and for `error` sets) -/
structure PSet where
  term : Option Nat
  tok : Option Nat
  items : List Item
deriving Repr, Inhabited

structure RState where
  last : Nat                -- last original list index kept
  tail : List PSet          -- own sets after it
  stok : Nat                -- next token to look at
  back : Nat                -- tokens ignored so far
deriving Repr, Inhabited

def psItems (pl : List PSet) : List (List Item) := pl.map (·.items)

def PSet.isErr (g : Grammar) (s : PSet) : Bool := s.term == some g.errT

/-- `find_error_pl_set`: going back from `start`, the nearest set with `. error`; cost = the
number of non-`error` sets passed -/
def findError (g : Grammar) (pl : List PSet) : Nat → Nat → Nat × Nat
  | 0, cost => (0, cost)
  | k + 1, cost =>
    let s := pl.getD (k + 1) default
    if hasTrans g s.items g.errT then (k + 1, cost)
    else findError g pl k (if s.isErr g then cost else cost + 1)

def gotoSet (g : Grammar) (an : Analysis) (la : Nat) (pl : List PSet) (a : Nat) (tok : Option Nat)
    (nxt : Option Nat) : PSet :=
  { term := some a, tok := tok, items := nextSet g (okItem g an la nxt) (psItems pl) a }

/-- skip tokens until one can be shifted from `cur`; returns `(ctok, cost)` -/
def skipLoop (g : Grammar) (cur : List Item) (full : List Nat) (best : Nat) : Nat → Nat → Nat → Nat × Nat
  | 0, ctok, cost => (ctok, cost)
  | fuel + 1, ctok, cost =>
    match full[ctok]? with
    | none => (ctok, cost)
    | some t =>
      if hasTrans g cur t then (ctok, cost)
      else if cost + 1 ≥ best then (ctok + 1, cost + 1)
      else skipLoop g cur full best fuel (ctok + 1) (cost + 1)

structure MatchRes where
  cpl : List PSet
  ctok : Nat
  nm : Nat
  pushes : List RState      -- secondary states in the order they were pushed
deriving Inhabited

/-- the matching loop after the first token has been shifted -/
def matchLoop (g : Grammar) (an : Analysis) (la rmatch : Nat) (full : List Nat) (last cost : Nat) :
    Nat → List PSet → Nat → Nat → List RState → MatchRes
  | 0, cpl, ctok, nm, ps => ⟨cpl, ctok, nm, ps⟩
  | fuel + 1, cpl, ctok, nm, ps =>
    let nm := nm + 1
    if nm ≥ rmatch then ⟨cpl, ctok, nm, ps⟩ else
    let ctok := ctok + 1
    if ctok ≥ full.length then ⟨cpl, ctok, nm, ps⟩ else
    let cur := (cpl.getLastD default).items
    let ps := if hasTrans g cur g.errT then ps ++ [⟨last, cpl.drop (last + 1), ctok, cost⟩] else ps
    let t := full.getD ctok 0
    if !hasTrans g cur t then ⟨cpl, ctok, nm, ps⟩ else
    let new := gotoSet g an la cpl t (some ctok) full[ctok + 1]?
    matchLoop g an la rmatch full last cost fuel (cpl ++ [new]) ctok nm ps

structure Best where
  last : Nat
  tail : List PSet
  tok : Nat
  rstart : Nat
  rstop : Nat
deriving Repr, Inhabited

structure SearchSt where
  stack : List RState       -- top of the stack is the head
  bf : Nat                  -- back frontier
  btf : Nat                 -- cost of moving back to the frontier
  bestCost : Nat
  best : Option Best
  steps : Nat := 0
deriving Inhabited

/-- the search loop of `error_recovery` -/
def searchLoop (g : Grammar) (an : Analysis) (la rmatch : Nat) (full : List Nat) (orig : List PSet)
    (startTok startPl : Nat) : Nat → SearchSt → SearchSt
  | 0, st => st
  | fuel + 1, st =>
    match st.stack with
    | [] => st
    | top :: rest =>
      let n := full.length
      let cpl := orig.take (top.last + 1) ++ top.tail
      let cost := top.back
      let ctok := top.stok
      -- advance the back frontier
      let (stack, bf, btf) :=
        if st.bf > 0 then
          let (b2, c2) := findError g cpl (st.bf - 1) 0
          let c2 := if (cpl.getD st.bf default).isErr g then c2 else c2 + 1
          if st.bestCost ≥ st.btf + c2 then
            ((⟨b2, [], startTok, st.btf + c2⟩ : RState) :: rest, b2, st.btf + c2)
          else (rest, st.bf, st.btf)
        else (rest, st.bf, st.btf)
      -- advance the head frontier
      let stack :=
        if st.bestCost ≥ cost + 1 ∧ ctok + 1 < n then (⟨top.last, top.tail, ctok + 1, cost + 1⟩ : RState) :: stack
        else stack
      let st := { st with stack := stack, bf := bf, btf := btf, steps := st.steps + 1 }
      -- shift `error`
      let errSet : PSet := { term := some g.errT, tok := none,
                             items := nextSet g (fun _ _ => true) (psItems cpl) g.errT }
      let cpl := cpl ++ [errSet]
      let (ctok, cost) := skipLoop g errSet.items full st.bestCost (n + 1) ctok cost
      if cost ≥ st.bestCost then searchLoop g an la rmatch full orig startTok startPl fuel st
      else if ctok ≥ n then searchLoop g an la rmatch full orig startTok startPl fuel st
      else
        let new := gotoSet g an la cpl (full.getD ctok 0) (some ctok) full[ctok + 1]?
        let cpl := cpl ++ [new]
        let mr := matchLoop g an la rmatch full top.last cost (n + 1) cpl ctok 0 []
        let st := { st with stack := mr.pushes.reverse ++ st.stack }
        if mr.nm ≥ rmatch ∨ mr.ctok ≥ n then
          if st.bestCost > cost then
            let btok := if mr.ctok = n then mr.ctok - 1 else mr.ctok
            let kept := ((orig.drop (top.last + 1)).take (startPl - top.last)).filter (fun s => !s.isErr g)
            let rstart := startTok - kept.length
            searchLoop g an la rmatch full orig startTok startPl fuel
              { st with bestCost := cost,
                        best := some ⟨top.last, mr.cpl.drop (top.last + 1), btok, rstart, rstart + cost⟩ }
          else searchLoop g an la rmatch full orig startTok startPl fuel st
        else searchLoop g an la rmatch full orig startTok startPl fuel st

structure RecResult where
  calls : List (Nat × Nat × Nat)      -- (error token, first ignored, first recovered)
  pl : List PSet
  ok : Bool                           -- false: fuel exhausted or no recovery found
  steps : Nat
deriving Inhabited

def recoverAt (g : Grammar) (an : Analysis) (la rmatch : Nat) (full : List Nat) (pl : List PSet)
    (tok : Nat) (fuel : Nat) : SearchSt :=
  let startPl := pl.length - 1
  let (bf, bc) := findError g pl startPl 0
  searchLoop g an la rmatch full pl tok startPl fuel
    { stack := [⟨bf, [], tok, bc⟩], bf := bf, btf := bc, bestCost := 2 * full.length, best := none }

/-- `build_pl` with error recovery -/
def parseRecLoop (g : Grammar) (an : Analysis) (la rmatch : Nat) (full : List Nat) (sfuel : Nat) :
    Nat → Nat → List PSet → List (Nat × Nat × Nat) → Nat → RecResult
  | 0, _, pl, calls, steps => ⟨calls, pl, false, steps⟩
  | fuel + 1, tok, pl, calls, steps =>
    match full[tok]? with
    | none => ⟨calls, pl, true, steps⟩
    | some t =>
      if hasTrans g (pl.getLastD default).items t then
        let new := gotoSet g an la pl t (some tok) full[tok + 1]?
        parseRecLoop g an la rmatch full sfuel fuel (tok + 1) (pl ++ [new]) calls steps
      else
        let st := recoverAt g an la rmatch full pl tok sfuel
        match st.best with
        | none => ⟨calls, pl, false, steps + st.steps⟩
        | some b =>
          if !st.stack.isEmpty then ⟨calls, pl, false, steps + st.steps⟩ else
          parseRecLoop g an la rmatch full sfuel fuel (b.tok + 1) (pl.take (b.last + 1) ++ b.tail)
            (calls ++ [(tok, b.rstart, b.rstop)]) (steps + st.steps)

def parseWithRecovery (g : Grammar) (la rmatch : Nat) (w : List Nat) (sfuel : Nat := 20000) : RecResult :=
  let full := w ++ [g.eofT]
  let s0 : PSet := { term := none, tok := none, items := set0 g }
  parseRecLoop g g.analysis la rmatch full sfuel (full.length + 2) 0 [s0] [] 0

end Yaep

namespace Yaep

/-- can the tokens `full[s ..]` be shifted from the list `cpl` for `need` matches (or up to
and including the end marker if fewer remain)?  (no secondary `error` shifts) -/
def canMatch (g : Grammar) (an : Analysis) (la : Nat) (full : List Nat) :
    Nat → List PSet → Nat → Nat → Bool
  | 0, _, _, _ => false
  | fuel + 1, cpl, s, need =>
    if need = 0 then true else
    match full[s]? with
    | none => true                                   -- everything incl. the end marker was shifted
    | some t =>
      if hasTrans g (cpl.getLastD default).items t then
        canMatch g an la full fuel (cpl ++ [gotoSet g an la cpl t (some s) full[s + 1]?]) (s + 1) (need - 1)
      else false

/-- C08 oracle, straight from the statement: the costs of all *simple* recoveries of the
first error at token `k` (parse list `pl` = sets 0..k): go back to a set `b ≤ k` containing
`. error` (cost `k - b`), shift `error`, skip forward to a token `s ≥ k` (cost `s - k`) from
which `rmatch` tokens (or all the rest) can be shifted. -/
def simpleRecoveryCosts (g : Grammar) (an : Analysis) (la rmatch : Nat) (full : List Nat)
    (pl : List PSet) (k : Nat) : List Nat :=
  (List.range (k + 1)).flatMap fun b =>
    if !hasTrans g (pl.getD b default).items g.errT then [] else
    let head := pl.take (b + 1)
    let errSet : PSet := { term := some g.errT, tok := none, items := nextSet g (fun _ _ => true) (psItems head) g.errT }
    let cpl := head ++ [errSet]
    (List.range (full.length - k)).filterMap fun d =>
      let s := k + d
      if canMatch g an la full (full.length + 2) cpl s (max rmatch 1) then some ((k - b) + d) else none

def simpleRecoveryMin (g : Grammar) (an : Analysis) (la rmatch : Nat) (full : List Nat)
    (pl : List PSet) (k : Nat) : Option Nat :=
  match simpleRecoveryCosts g an la rmatch full pl k with
  | [] => none
  | c :: cs => some (cs.foldl min c)

end Yaep
