/-!
# Basic vocabulary of the yaep model

Symbols, rules, grammars, Earley items.  Terminals and nonterminals are numbered the way
`yaep_read_grammar` numbers them (`term_num`, `nonterm_num`): in order of creation.
Core Lean only (this file is linked into the native driver).
-/
namespace Yaep

inductive Sym where
  | t (a : Nat)
  | n (A : Nat)
deriving DecidableEq, Repr, Inhabited

/-- A grammar rule with its translation (`struct rule`): `order[p] = some s` means the
translation of the `p`-th right-hand-side symbol goes to slot `s` of the rule's translation. -/
structure Rule where
  lhs : Nat
  rhs : List Sym
  anode : Option String := none
  cost : Nat := 0
  transLen : Nat := 0
  order : List (Option Nat) := []
deriving DecidableEq, Repr, Inhabited

/-- The internal grammar `yaep_read_grammar` builds.  Rule 0 is `$S : start $eof`; the
implicit `$S : error $eof` (if added) is the last rule.  The theory only looks at `rules`,
`axiomN`, `errT`, `eofT`; the name/code tables serve I/O. -/
structure Grammar where
  rules : List Rule
  termNames : List String := []
  termCodes : List Int := []
  ntNames : List String := []
  errT : Nat := 0
  eofT : Nat := 0
  axiomN : Nat := 0
  startN : Nat := 0
deriving Repr, Inhabited

def Grammar.nT (g : Grammar) : Nat := g.termNames.length
def Grammar.nN (g : Grammar) : Nat := g.ntNames.length

/-- Earley item `(rule number, dot, origin)`. -/
structure Item where
  rule : Nat
  dot : Nat
  origin : Nat
deriving DecidableEq, Repr, Inhabited

def Grammar.rule? (g : Grammar) (r : Nat) : Option Rule := g.rules[r]?

/-- symbol after the dot -/
def Grammar.nextSym (g : Grammar) (r d : Nat) : Option Sym :=
  match g.rules[r]? with
  | some rl => rl.rhs[d]?
  | none => none

/-- numbers of the rules with left-hand side `A` -/
def Grammar.rulesFor (g : Grammar) (A : Nat) : List Nat :=
  (List.range g.rules.length).filter fun i =>
    match g.rules[i]? with
    | some r => r.lhs == A
    | none => false

def Grammar.maxRhs (g : Grammar) : Nat := g.rules.foldl (fun m r => max m r.rhs.length) 0

end Yaep
