import Yaep.Driver.Judge
import Yaep.Model.FreeTree
import Yaep.Model.ApiFault
/-!
# `yaep_model`: the judge as a filter.  stdin: the harness output (echoed case lines +
observation lines); stdout: verdict and statistics lines.
-/
open Yaep Yaep.Driver

def getH (hs : Array HState) (h : Nat) : HState := hs.getD h {}
def setH (hs : Array HState) (h : Nat) (x : HState) : Array HState :=
  if h < hs.size then hs.set! h x else hs

def judgeSet (cid : String) (o : Op) (hs : HState) (out : Out) : HState × Out :=
  let what := o.args.getD 0 ""
  let v := toInt (o.args.getD 1 "0")
  let prev := kvInt ((o.first "set").getD []) "prev"
  let kind : Option SetKind := match what with
    | "la" => some .la | "debug" => some .debug | "one" => some .one | "cost" => some .cost
    | "rec" => some .recov | "match" => some .rmatch | _ => none
  let (exp, st') : Int × Settings := match kind with
    | some k => hs.st.set k v
    | none => (0, hs.st)
  ({ hs with st := st' }, out.v cid o.n "C15" "K" (prev == exp) s!"set {what} prev={prev} expected={exp}")

def processCase (cfg : ParseCfg) (c : Case) : Array String := Id.run do
  let cid := c.id
  let mut out : Out := {}
  let mut hs : Array HState := Array.replicate 4 {}
  let mut sigs : Array (String × String × Nat) := #[]   -- (key, signature, op)
  let mut epoch : Nat := 0                                -- changes with every create/def/free
  let mut prevFired : Int := 0
  let mut poisoned : List Nat := []      -- objects that went through an injected allocation failure
  for o in c.ops do
    let h := o.h
    let st := getH hs h
    let fired := match o.first "lib" with | some ws => kvInt ws "fired" | none => prevFired
    let failedHere := fired > prevFired && fired != -999
    if fired != -999 then prevFired := fired
    if failedHere then
      -- C17: a single failing internal allocation: NULL / YAEP_NO_MEMORY, nothing else
      match o.cmd with
      | "create" =>
        out := out.v cid o.n "C17" "K" ((o.first "create") == some ["null"]) s!"create under allocation failure: {o.first "create"}"
        hs := setH hs h {}
      | "def" | "descr" =>
        let obs := (o.first "def").getD []
        out := out.v cid o.n "C17" "K" (kvInt obs "rc" == 1 && kvInt obs "code" == 1) s!"definition under allocation failure: rc={kvInt obs "rc"} code={kvInt obs "code"}"
        -- the API model under a failing allocation (Model/ApiFault.lean, theorems in Props/C17.lean)
        hs := setH hs h (((objStepFault st (.define h (.error 1))).map (·.1)).getD st)
        poisoned := h :: poisoned
      | "parse" =>
        let obs := (o.first "parse").getD []
        out := out.v cid o.n "C17" "K" (kvInt obs "rc" == 1 && kvInt obs "code" == 1 && (kv obs "root") == some "null")
          s!"parse under allocation failure: rc={kvInt obs "rc"} code={kvInt obs "code"} root={kv obs "root"}"
        -- the object stays defined: later calls are judged like any other (C14)
        hs := setH hs h (((objStepFault st (.parse h false false [])).map (·.1)).getD st)
      | "free" =>
        out := out.v cid o.n "C17" "K" false "allocation during yaep_free_grammar"
      | _ => out := out.s cid s!"op {o.n} allocation failure in {o.cmd}"
    else if poisoned.contains h && o.cmd != "free" && o.cmd != "create" && o.cmd != "def" && o.cmd != "descr" then
      out := out.s cid s!"op {o.n} skipped (object after allocation failure)"
    else
    if o.obs.isEmpty then
      out := out.s cid s!"op {o.n} no observation"
    else if !(o.get "nohandle").isEmpty then
      out := out.s cid s!"op {o.n} nohandle"
    else
    match o.cmd with
    | "create" =>
      epoch := epoch + 1
      let ok := (o.first "create") == some ["ok"]
      out := out.v cid o.n "C15" "K" ok "create"
      hs := setH hs h { alive := true }
    | "set" =>
      let (st', out') := judgeSet cid o st out
      hs := setH hs h st'; out := out'
    | "def" =>
      epoch := epoch + 1
      -- a (re)definition makes the object independent of its past, an allocation failure included
      poisoned := poisoned.filter (· != h)
      let gid := toNat (o.args.getD 0 "0")
      match c.grams.find? (·.1 == gid) with
      | some (_, raw) =>
        let (st', out') := judgeDef cid o raw st out
        hs := setH hs h st'; out := out'
      | none => out := out.s cid s!"op {o.n} unknown grammar"
    | "descr" =>
      epoch := epoch + 1
      poisoned := poisoned.filter (· != h)
      let tid := toNat (o.args.getD 0 "0")
      let strict := (o.args.getD 1 "0") != "0"
      match c.texts.find? (·.1 == tid) with
      | some (_, text) =>
        let (st', out') := judgeDescr cid o text strict st out
        hs := setH hs h st'; out := out'
      | none => out := out.s cid s!"op {o.n} unknown text"
    | "parse" =>
      let (st', out') := judgeParse cfg cid o st out
      hs := setH hs h st'; out := out'
      -- cross-configuration key: same object definition, tokens, result-selecting flags
      if (kvInt ((o.first "parse").getD []) "rc") == 0 then
        let key := s!"h{h} e{epoch} one={st.st.one != 0} cost={st.st.cost != 0} rec={st.st.recov != 0} match={st.st.rmatch} toks={o.args.drop 3}"
        sigs := sigs.push (key, parseSignature o o.nodeTable, o.n)
    | "err" =>
      let code := kvInt ((o.first "err").getD []) "code"
      out := out.v cid o.n "C15" "K" (code == st.lastErr) s!"error_code={code} expected={st.lastErr}"
    | "free" =>
      epoch := epoch + 1
      poisoned := poisoned.filter (· != h)
      if !(o.get "free").isEmpty then out := out.v cid o.n "C17" "K" true "free ok"
      hs := setH hs h {}
    | "freetree" =>
      match o.first "freetree" with
      | some ws =>
        if ws.headD "" == "skipped" || ws.headD "" == "noslot" || ws.headD "" == "already" then pure ()
        else
          let live := kvInt ws "liveblocks"
          let bad := kvInt ws "bad"
          -- number of TERM nodes of the freed tree (re-walk printed just before)
          let nterm := ((o.get "node").filter fun w => w.getD 1 "" == "term").length
          let tcb := kvInt ws "termcb"
          let walked := !(o.get "root").isEmpty
          out := out.v cid o.n "C13" "K" (live == 0 && bad == 0) s!"after free_tree liveblocks={live} bad={bad}"
          if walked then
            out := out.v cid o.n "C13" "K" (tcb == nterm) s!"termcb calls={tcb} TERM nodes={nterm}"
            -- deep tie with the model of free_tree_reduce / free_tree_sweep (Model/FreeTree.lean):
            -- number of blocks released and callbacks made.  Name blocks are per rule in C and per
            -- string in the model: the harness reports the block that holds every node's name
            -- (`nameblk`), and the table handed to the model names every abstract node after it
            let tab := o.nodeTable
            let rootId := toNat (((o.first "root").getD ["0"]).headD "0")
            let nb : List (Nat × String) := (o.get "nameblk").map fun w => (toNat (w.headD "0"), w.getD 1 "?")
            let nanodes := (tab.toList.filter fun r => match r with | .anode .. => true | _ => false).length
            let tab' : Array NodeRec := (tab.toList.zipIdx.map fun (r, i) => match r with
              | .anode n c ks => NodeRec.anode (n ++ "#" ++ ((nb.find? (·.1 == i)).map (·.2)).getD "?") c ks
              | r => r).toArray
            let live := kvInt ws "liveblocks"
            if tableWF tab && !hasBad tab && nb.length == nanodes && live == 0 && kvInt ws "kind" == 1 then
              let evs := freeTree tab' rootId
              let nfree := ((o.get "ev").filter fun w => w.headD "" == "f").length
              out := out.v cid o.n "C13" "D" (nfree == (freedBlocks evs).length && tcb == Int.ofNat (termCalls evs).length)
                s!"free_tree released {nfree} blocks / {tcb} callbacks, model {(freedBlocks evs).length} / {(termCalls evs).length}"
      | none => pure ()
    | _ => pure ()
  -- C13: the whole alloc/free trace of the case obeys the pairing discipline (traceOK_spec)
  let trace : List Ev := c.ops.flatMap fun o => (o.get "ev").filterMap fun w =>
    match w with
    | "a" :: id :: _ => some (Ev.alloc (toNat id))
    | "f" :: id :: _ => some (Ev.free (toNat id))
    | _ => none
  -- (the verified checker is quadratic in the number of live blocks: traces beyond 6000 events are
  -- left to the harness's own bookkeeping, `mem bad=`)
  if !trace.isEmpty && trace.length ≤ 6000 then
    out := out.v cid 0 "C13" "K" (traceOK trace) s!"alloc/free trace of {trace.length} events"
  -- C09: ops that differ only in lookahead / debug level must have one signature
  let keys := strSet (sigs.toList.map (·.1))
  for k in keys do
    let group := sigs.toList.filter (·.1 == k)
    match group with
    | (_, s0, o0) :: rest =>
      for (_, s, on) in rest do
        out := out.v cid on "C09" "K" (s == s0) (if s == s0 then s!"same as op {o0}" else s!"op {o0}: {s0} || op {on}: {s}")
    | [] => pure ()
  -- crashes, leaks
  for t in c.tail do
    match t with
    | "crash" :: rest => out := out.v cid 0 "C12" "K" false ("crash " ++ " ".intercalate rest)
    | "!" :: rest => out := out.s cid ("stderr " ++ " ".intercalate rest)
    | "end" :: rest =>
      let live := kvInt rest "live"
      let anyAlive := hs.toList.any (·.alive)
      if !anyAlive then
        out := out.v cid 0 "C14" "K" (live == 0) s!"library blocks live after all objects freed: {live}"
      out := out.s cid s!"end {" ".intercalate rest}"
    | _ => pure ()
  if !(c.tail.any fun t => t.headD "" == "end" || t.headD "" == "crash") then
    out := out.v cid 0 "C12" "K" false "case did not finish (no end/crash line)"
  return out.lines

partial def loop (cfg : ParseCfg) (h : IO.FS.Stream) (acc : Array String) : IO Unit := do
  let line ← h.getLine
  if line.isEmpty then return ()
  let l := line.trimAscii.toString
  if l.startsWith "case " then
    loop cfg h #[l]
  else if l == "end" then
    let c := buildCase acc.toList
    for v in processCase cfg c do IO.println v
    (← IO.getStdout).flush
    loop cfg h #[]
  else if l.isEmpty then
    loop cfg h acc        -- the harness starts a crash report on a fresh line
  else
    loop cfg h (acc.push l)

def main (args : List String) : IO Unit := do
  let cfg : ParseCfg := {
    maxTreeToks := (args.getD 0 "9").toNat?.getD 9,
    derivCap := (args.getD 1 "3000").toNat?.getD 3000 }
  loop cfg (← IO.getStdin) #[]
