import Yaep.Model.VectShare
namespace Yaep.VS.Data
def width_a : Nat := 11
def ops_a : List Yaep.VS.Op := [
  .find 0 5, .new 0 5, .addT 0 0, .find 0 6, .new 0 6, .addT 1 1, .find 0 9, .new 0 9, .addT 2 2, .find 0 6, .addT 1 3, .find 0 10, .new 0 10, .addT 3 4, .find 0 9, .addT 2 5, .find 0 3, .new 0 3, .addT 4 6, .find 0 2,
  .new 0 2, .addT 5 7, .allStop, .find 0 2, .find 0 10, .find 0 9, .find 0 6, .find 1 0, .new 1 0, .addT 6 3, .find 1 10, .new 1 10, .addR 7 0, .find 1 9, .new 1 9, .addR 8 1, .find 1 6, .new 1 6, .addR 9 2, .allStop,
  .find 1 0, .find 2 9, .new 2 9, .addT 10 0, .find 2 10, .new 2 10, .addT 11 1, .find 2 9, .addT 10 2, .find 2 3, .new 2 3, .addT 12 3, .find 2 2, .new 2 2, .addT 13 4, .allStop, .find 2 2, .find 2 10, .find 2 9, .find 3 1,
  .new 3 1, .addT 14 2, .find 3 10, .new 3 10, .addR 15 0, .find 3 9, .new 3 9, .addR 16 1, .allStop, .find 3 1, .find 4 10, .new 4 10, .addT 17 0, .find 4 3, .new 4 3, .addT 18 1, .find 4 2, .new 4 2, .addT 19 2, .allStop,
  .find 4 3, .find 5 6, .new 5 6, .addT 20 0, .find 5 9, .new 5 9, .addT 21 1, .find 5 6, .addT 20 2, .find 5 10, .new 5 10, .addT 22 3, .find 5 9, .addT 21 4, .find 5 3, .new 5 3, .addT 23 5, .find 5 2, .new 5 2, .addT 24 6,
  .allStop, .find 5 2, .find 5 10, .find 5 9, .find 5 6, .find 1 0, .find 2 2, .find 2 10, .find 2 9, .find 5 6, .find 6 4, .new 6 4, .addT 25 3, .find 6 10, .new 6 10, .addR 26 0, .find 6 9, .new 6 9, .addR 27 1, .find 6 6,
  .new 6 6, .addR 28 2, .allStop, .find 6 4, .find 4 10, .find 2 9, .find 0 6, .find 7 8, .new 7 8, .addT 29 3, .find 7 10, .new 7 10, .addR 30 0, .find 7 9, .new 7 9, .addR 31 1, .find 7 6, .new 7 6, .addR 32 2, .allStop,
  .find 7 8, .find 0 7, .find 8 7, .new 8 7, .addR 33 0, .allStop, .find 7 6, .find 0 6, .find 7 9, .find 2 9, .find 7 10, .find 4 10, .find 6 6, .find 5 6, .find 6 9, .find 2 9, .find 6 10, .find 2 10, .find 1 6, .find 5 6,
  .find 1 9, .find 5 9, .find 1 10, .find 5 10, .find 3 9, .find 2 9, .find 3 10, .find 2 10, .find 1 6, .find 0 6, .find 1 9, .find 0 9, .find 1 10, .find 0 10]
-- expected results of the finds, in order of the `find` ops: triple id or none
def finds_a : List (Option Nat) := [
  none, none, none, some 1, none, some 2, none, none, some 5, some 3, some 2, some 1, none, none, none, none, some 6, none, none, some 10,
  none, none, some 13, some 11, some 10, none, none, none, some 14, none, none, none, some 18, none, none, some 20, none, some 21, none, none,
  some 24, some 22, some 21, some 20, some 6, some 13, some 11, some 10, some 20, none, none, none, none, some 25, some 17, some 10, some 1, none, none, none,
  none, some 29, none, none, some 32, some 1, some 31, some 10, some 30, some 17, some 28, some 20, some 27, some 10, some 26, some 11, some 9, some 20, some 8, some 21,
  some 7, some 22, some 16, some 10, some 15, some 11, some 9, some 1, some 8, some 2, some 7, some 3]
-- [n_core_symb_pairs, n_core_symb_vect_len, n_transition_vects, n_transition_vect_len, n_reduce_vects, n_reduce_vect_len]
def stats_a : List Nat := [34, 39, 12, 16, 3, 3]
-- per triple in id order: (core, symb, transitions content, transitions pointer class, reduces content, reduces pointer class); pointer class 0 = NULL, otherwise 1 + order of first appearance of that address among transitions pointers (separately numbered for reduces pointers)
def dump_a : List (Nat × Nat × List Int × Nat × List Int × Nat) := [
  (0, 5, [0], 1, [], 0), (0, 6, [1, 3], 2, [], 0), (0, 9, [2, 5], 3, [], 0), (0, 10, [4], 4, [], 0),
  (0, 3, [6], 5, [], 0), (0, 2, [7], 6, [], 0), (1, 0, [3], 7, [], 0), (1, 10, [], 0, [0], 1),
  (1, 9, [], 0, [1], 2), (1, 6, [], 0, [2], 3), (2, 9, [0, 2], 8, [], 0), (2, 10, [1], 9, [], 0),
  (2, 3, [3], 7, [], 0), (2, 2, [4], 4, [], 0), (3, 1, [2], 10, [], 0), (3, 10, [], 0, [0], 1),
  (3, 9, [], 0, [1], 2), (4, 10, [0], 1, [], 0), (4, 3, [1], 9, [], 0), (4, 2, [2], 10, [], 0),
  (5, 6, [0, 2], 8, [], 0), (5, 9, [1, 4], 11, [], 0), (5, 10, [3], 7, [], 0), (5, 3, [5], 12, [], 0),
  (5, 2, [6], 5, [], 0), (6, 4, [3], 7, [], 0), (6, 10, [], 0, [0], 1), (6, 9, [], 0, [1], 2),
  (6, 6, [], 0, [2], 3), (7, 8, [3], 7, [], 0), (7, 10, [], 0, [0], 1), (7, 9, [], 0, [1], 2),
  (7, 6, [], 0, [2], 3), (8, 7, [], 0, [0], 1)]
def width_b : Nat := 7
def ops_b : List Yaep.VS.Op := [
  .find 0 2, .new 0 2, .addT 0 0, .find 0 3, .new 0 3, .addT 1 1, .find 0 0, .new 0 0, .addT 2 2, .find 0 3, .addT 1 3, .allStop, .find 0 0, .find 0 3, .find 1 6, .new 1 6, .addT 3 0, .find 1 3, .new 1 3, .addT 4 1,
  .find 1 1, .new 1 1, .addT 5 4, .find 1 0, .new 1 0, .addT 6 5, .find 1 3, .addT 4 6, .find 1 3, .addR 4 2, .find 1 6, .addR 3 3, .allStop, .find 1 0, .find 1 3, .find 2 6, .new 2 6, .addT 7 0, .find 2 1, .new 2 1,
  .addT 8 3, .find 2 3, .new 2 3, .addR 9 1, .find 2 6, .addR 7 2, .allStop, .find 2 1, .find 2 6, .find 1 3, .find 0 3, .find 3 3, .new 3 3, .addT 10 3, .find 3 3, .addT 10 4, .find 3 0, .new 3 0, .addT 11 5, .find 3 3,
  .addT 10 6, .find 3 6, .new 3 6, .addR 12 0, .find 3 3, .addR 10 1, .find 3 3, .addR 10 2, .allStop, .find 3 0, .find 3 3, .find 1 3, .find 0 3, .find 4 6, .new 4 6, .addT 13 0, .find 4 3, .new 4 3, .addT 14 3, .find 4 3,
  .addT 14 4, .find 4 3, .addT 14 5, .find 4 1, .new 4 1, .addT 15 8, .find 4 0, .new 4 0, .addT 16 9, .find 4 3, .addT 14 10, .find 4 3, .addR 14 1, .find 4 3, .addR 14 2, .find 4 3, .addR 14 6, .find 4 6, .addR 13 7, .allStop,
  .find 4 0, .find 4 3, .find 3 3, .find 1 3, .find 0 3, .find 5 6, .new 5 6, .addT 17 0, .find 5 5, .new 5 5, .addT 18 4, .find 5 1, .new 5 1, .addT 19 7, .find 5 3, .new 5 3, .addR 20 1, .find 5 3, .addR 20 2, .find 5 3,
  .addR 20 3, .find 5 3, .addR 20 5, .find 5 6, .addR 17 6, .allStop, .find 5 5, .find 0 4, .find 6 4, .new 6 4, .addR 21 0, .allStop, .find 5 3, .find 3 3, .find 1 3, .find 0 3, .find 4 3, .find 5 3, .find 3 3, .find 1 3,
  .find 5 3, .find 3 3, .find 1 3, .find 0 3, .find 4 3, .find 5 6, .find 5 6, .find 4 3, .find 1 3, .find 0 3, .find 3 3, .find 4 6, .find 4 6, .find 3 3, .find 1 3, .find 0 3, .find 3 3, .find 1 3, .find 0 3, .find 3 6,
  .find 2 6, .find 1 3, .find 0 3, .find 1 6, .find 1 6]
-- expected results of the finds, in order of the `find` ops: triple id or none
def finds_b : List (Option Nat) := [
  none, none, none, some 1, some 2, some 1, none, none, none, none, some 4, some 4, some 3, some 6, some 4, none, none, none, some 7, some 8,
  some 7, some 4, some 1, none, some 10, none, some 10, none, some 10, some 10, some 11, some 10, some 4, some 1, none, none, some 14, some 14, none, none,
  some 14, some 14, some 14, some 14, some 13, some 16, some 14, some 10, some 4, some 1, none, none, none, none, some 20, some 20, some 20, some 17, some 18, none,
  none, some 20, some 10, some 4, some 1, some 14, some 20, some 10, some 4, some 20, some 10, some 4, some 1, some 14, some 17, some 17, some 14, some 4, some 1, some 10,
  some 13, some 13, some 10, some 4, some 1, some 10, some 4, some 1, some 12, some 7, some 4, some 1, some 3, some 3]
-- [n_core_symb_pairs, n_core_symb_vect_len, n_transition_vects, n_transition_vect_len, n_reduce_vects, n_reduce_vect_len]
def stats_b : List Nat := [22, 42, 12, 19, 9, 15]
-- per triple in id order: (core, symb, transitions content, transitions pointer class, reduces content, reduces pointer class); pointer class 0 = NULL, otherwise 1 + order of first appearance of that address among transitions pointers (separately numbered for reduces pointers)
def dump_b : List (Nat × Nat × List Int × Nat × List Int × Nat) := [
  (0, 2, [0], 1, [], 0), (0, 3, [1, 3], 2, [], 0), (0, 0, [2], 3, [], 0), (1, 6, [0], 1, [3], 1),
  (1, 3, [1, 6], 4, [2], 2), (1, 1, [4], 5, [], 0), (1, 0, [5], 6, [], 0), (2, 6, [0], 1, [2], 2),
  (2, 1, [3], 7, [], 0), (2, 3, [], 0, [1], 3), (3, 3, [3, 4, 6], 8, [1, 2], 4), (3, 0, [5], 6, [], 0),
  (3, 6, [], 0, [0], 5), (4, 6, [0], 1, [7], 6), (4, 3, [3, 4, 5, 10], 9, [1, 2, 6], 7), (4, 1, [8], 10, [], 0),
  (4, 0, [9], 11, [], 0), (5, 6, [0], 1, [6], 8), (5, 5, [4], 5, [], 0), (5, 1, [7], 12, [], 0),
  (5, 3, [], 0, [1, 2, 3, 5], 9), (6, 4, [], 0, [0], 5)]
def width_c : Nat := 13
def ops_c : List Yaep.VS.Op := [
  .find 0 5, .new 0 5, .addT 0 0, .find 0 6, .new 0 6, .addT 1 1, .find 0 6, .addT 1 2, .find 0 9, .new 0 9, .addT 2 3, .find 0 1, .new 0 1, .addT 3 4, .find 0 1, .addT 3 5, .allStop, .find 0 1, .find 1 9, .new 1 9,
  .addT 4 0, .find 1 1, .new 1 1, .addT 5 1, .find 1 1, .addT 5 2, .allStop, .find 1 1, .find 1 9, .find 0 9, .find 2 10, .new 2 10, .addT 6 2, .find 2 2, .new 2 2, .addT 7 3, .find 2 2, .addT 7 4, .find 2 9, .new 2 9,
  .addR 8 0, .find 2 9, .addR 8 1, .allStop, .find 2 2, .find 3 10, .new 3 10, .addT 9 0, .find 3 2, .new 3 2, .addT 10 1, .find 3 2, .addT 10 2, .allStop, .find 3 2, .find 3 10, .find 2 10, .find 4 11, .new 4 11, .addT 11 2,
  .find 4 3, .new 4 3, .addT 12 3, .find 4 3, .addT 12 4, .find 4 10, .new 4 10, .addR 13 0, .find 4 10, .addR 13 1, .allStop, .find 4 3, .find 5 11, .new 5 11, .addT 14 0, .find 5 3, .new 5 3, .addT 15 1, .find 5 3, .addT 15 2,
  .allStop, .find 5 3, .find 5 11, .find 4 11, .find 6 12, .new 6 12, .addT 16 2, .find 6 4, .new 6 4, .addT 17 3, .find 6 4, .addT 17 4, .find 6 11, .new 6 11, .addR 18 0, .find 6 11, .addR 18 1, .allStop, .find 6 4, .find 7 12,
  .new 7 12, .addT 19 0, .find 7 4, .new 7 4, .addT 20 1, .find 7 4, .addT 20 2, .allStop, .find 7 4, .find 7 12, .find 6 12, .find 0 6, .find 8 0, .new 8 0, .addT 21 3, .find 8 12, .new 8 12, .addR 22 0, .find 8 12, .addR 22 1,
  .find 8 6, .new 8 6, .addR 23 2, .allStop, .find 8 0, .find 9 9, .new 9 9, .addT 24 0, .find 9 1, .new 9 1, .addT 25 1, .find 9 1, .addT 25 2, .allStop, .find 9 1, .find 1 1, .find 1 9, .find 9 9, .find 0 6, .find 10 8,
  .new 10 8, .addT 26 3, .find 10 9, .new 10 9, .addR 27 0, .find 10 9, .addR 27 1, .find 10 6, .new 10 6, .addR 28 2, .allStop, .find 10 8, .find 0 7, .find 11 7, .new 11 7, .addR 29 0, .allStop, .find 10 6, .find 0 6, .find 10 9,
  .find 1 9, .find 9 9, .find 10 9, .find 1 9, .find 9 9, .find 8 6, .find 0 6, .find 8 12, .find 7 12, .find 6 12, .find 8 12, .find 7 12, .find 6 12, .find 6 11, .find 5 11, .find 4 11, .find 6 11, .find 5 11, .find 4 11, .find 4 10,
  .find 3 10, .find 2 10, .find 4 10, .find 3 10, .find 2 10, .find 2 9, .find 1 9, .find 0 9, .find 2 9, .find 1 9, .find 0 9]
-- expected results of the finds, in order of the `find` ops: triple id or none
def finds_c : List (Option Nat) := [
  none, none, some 1, none, none, some 3, some 3, none, none, some 5, some 5, some 4, some 2, none, none, some 7, none, some 8, some 7, none,
  none, some 10, some 10, some 9, some 6, none, none, some 12, none, some 13, some 12, none, none, some 15, some 15, some 14, some 11, none, none, some 17,
  none, some 18, some 17, none, none, some 20, some 20, some 19, some 16, some 1, none, none, some 22, none, some 21, none, none, some 25, some 25, some 5,
  some 4, some 24, some 1, none, none, some 27, none, some 26, none, none, some 28, some 1, some 27, some 4, some 24, some 27, some 4, some 24, some 23, some 1,
  some 22, some 19, some 16, some 22, some 19, some 16, some 18, some 14, some 11, some 18, some 14, some 11, some 13, some 9, some 6, some 13, some 9, some 6, some 8, some 4,
  some 2, some 8, some 4, some 2]
-- [n_core_symb_pairs, n_core_symb_vect_len, n_transition_vects, n_transition_vect_len, n_reduce_vects, n_reduce_vect_len]
def stats_c : List Nat := [30, 45, 6, 9, 3, 4]
-- per triple in id order: (core, symb, transitions content, transitions pointer class, reduces content, reduces pointer class); pointer class 0 = NULL, otherwise 1 + order of first appearance of that address among transitions pointers (separately numbered for reduces pointers)
def dump_c : List (Nat × Nat × List Int × Nat × List Int × Nat) := [
  (0, 5, [0], 1, [], 0), (0, 6, [1, 2], 2, [], 0), (0, 9, [3], 3, [], 0), (0, 1, [4, 5], 4, [], 0),
  (1, 9, [0], 1, [], 0), (1, 1, [1, 2], 2, [], 0), (2, 10, [2], 5, [], 0), (2, 2, [3, 4], 6, [], 0),
  (2, 9, [], 0, [0, 1], 1), (3, 10, [0], 1, [], 0), (3, 2, [1, 2], 2, [], 0), (4, 11, [2], 5, [], 0),
  (4, 3, [3, 4], 6, [], 0), (4, 10, [], 0, [0, 1], 1), (5, 11, [0], 1, [], 0), (5, 3, [1, 2], 2, [], 0),
  (6, 12, [2], 5, [], 0), (6, 4, [3, 4], 6, [], 0), (6, 11, [], 0, [0, 1], 1), (7, 12, [0], 1, [], 0),
  (7, 4, [1, 2], 2, [], 0), (8, 0, [3], 3, [], 0), (8, 12, [], 0, [0, 1], 1), (8, 6, [], 0, [2], 2),
  (9, 9, [0], 1, [], 0), (9, 1, [1, 2], 2, [], 0), (10, 8, [3], 3, [], 0), (10, 9, [], 0, [0, 1], 1),
  (10, 6, [], 0, [2], 2), (11, 7, [], 0, [0], 3)]
def width_d : Nat := 26
def ops_d : List Yaep.VS.Op := [
  .find 0 16, .new 0 16, .addT 0 0, .find 0 17, .new 0 17, .addT 1 1, .find 0 20, .new 0 20, .addT 2 2, .find 0 20, .addT 2 3, .find 0 21, .new 0 21, .addT 3 4, .find 0 8, .new 0 8, .addT 4 5, .find 0 6, .new 0 6, .addT 5 6,
  .find 0 3, .new 0 3, .addT 6 7, .find 0 3, .addT 6 8, .find 0 1, .new 0 1, .addT 7 9, .allStop, .find 0 3, .find 1 23, .new 1 23, .addT 8 0, .find 1 23, .addT 8 1, .find 1 22, .new 1 22, .addT 9 2, .find 1 22, .addT 9 3,
  .find 1 24, .new 1 24, .addT 10 4, .find 1 22, .addT 9 5, .find 1 25, .new 1 25, .addT 11 6, .find 1 24, .addT 10 7, .find 1 14, .new 1 14, .addT 12 8, .find 1 13, .new 1 13, .addT 13 9, .find 1 1, .new 1 1, .addT 14 10, .allStop,
  .find 1 1, .find 1 25, .find 1 24, .find 1 22, .find 2 10, .new 2 10, .addT 15 3, .find 2 25, .new 2 25, .addR 16 0, .find 2 24, .new 2 24, .addR 17 1, .find 2 22, .new 2 22, .addR 18 2, .allStop, .find 2 10, .find 3 22, .new 3 22,
  .addT 19 0, .find 3 24, .new 3 24, .addT 20 1, .find 3 22, .addT 19 2, .find 3 25, .new 3 25, .addT 21 3, .find 3 24, .addT 20 4, .find 3 14, .new 3 14, .addT 22 5, .find 3 13, .new 3 13, .addT 23 6, .find 3 1, .new 3 1, .addT 24 7,
  .allStop, .find 3 13, .find 3 25, .find 3 24, .find 3 22, .find 1 23, .find 4 4, .new 4 4, .addT 25 4, .find 4 4, .addT 25 5, .find 4 25, .new 4 25, .addR 26 0, .find 4 24, .new 4 24, .addR 27 1, .find 4 22, .new 4 22, .addR 28 2,
  .find 4 23, .new 4 23, .addR 29 3, .allStop, .find 4 4, .find 5 21, .new 5 21, .addT 30 0, .find 5 21, .addT 30 1, .find 5 8, .new 5 8, .addT 31 2, .find 5 6, .new 5 6, .addT 32 3, .find 5 3, .new 5 3, .addT 33 4, .find 5 3,
  .addT 33 5, .find 5 1, .new 5 1, .addT 34 6, .allStop, .find 5 3, .find 1 13, .find 1 25, .find 1 24, .find 1 22, .find 1 23, .find 6 4, .new 6 4, .addT 35 4, .find 6 4, .addT 35 5, .find 6 25, .new 6 25, .addR 36 0, .find 6 24,
  .new 6 24, .addR 37 1, .find 6 22, .new 6 22, .addR 38 2, .find 6 23, .new 6 23, .addR 39 3, .allStop, .find 6 4, .find 5 1, .find 7 2, .new 7 2, .addT 40 0, .allStop, .find 7 2, .find 8 22, .new 8 22, .addT 41 0, .find 8 24,
  .new 8 24, .addT 42 1, .find 8 22, .addT 41 2, .find 8 25, .new 8 25, .addT 43 3, .find 8 24, .addT 42 4, .find 8 14, .new 8 14, .addT 44 5, .find 8 13, .new 8 13, .addT 45 6, .find 8 1, .new 8 1, .addT 46 7, .allStop, .find 8 13,
  .find 8 25, .find 8 24, .find 8 22, .find 5 21, .find 5 21, .find 0 21, .find 0 20, .find 9 0, .new 9 0, .addT 47 7, .find 9 25, .new 9 25, .addR 48 0, .find 9 24, .new 9 24, .addR 49 1, .find 9 22, .new 9 22, .addR 50 2, .find 9 21,
  .new 9 21, .addR 51 3, .find 9 21, .addR 51 4, .find 9 21, .addR 51 5, .find 9 20, .new 9 20, .addR 52 6, .allStop, .find 9 0, .find 10 21, .new 10 21, .addT 53 0, .find 10 8, .new 10 8, .addT 54 1, .find 10 6, .new 10 6, .addT 55 2,
  .find 10 3, .new 10 3, .addT 56 3, .find 10 3, .addT 56 4, .find 10 1, .new 10 1, .addT 57 5, .allStop, .find 10 6, .find 11 23, .new 11 23, .addT 58 0, .find 11 22, .new 11 22, .addT 59 1, .find 11 22, .addT 59 2, .find 11 24, .new 11 24,
  .addT 60 3, .find 11 22, .addT 59 4, .find 11 25, .new 11 25, .addT 61 5, .find 11 24, .addT 60 6, .find 11 14, .new 11 14, .addT 62 7, .find 11 13, .new 11 13, .addT 63 8, .find 11 1, .new 11 1, .addT 64 9, .allStop, .find 11 1, .find 11 25,
  .find 11 24, .find 11 22, .find 11 23, .find 12 7, .new 12 7, .addT 65 4, .find 12 25, .new 12 25, .addR 66 0, .find 12 24, .new 12 24, .addR 67 1, .find 12 22, .new 12 22, .addR 68 2, .find 12 23, .new 12 23, .addR 69 3, .allStop, .find 12 7,
  .find 13 21, .new 13 21, .addT 70 0, .find 13 8, .new 13 8, .addT 71 1, .find 13 6, .new 13 6, .addT 72 2, .find 13 3, .new 13 3, .addT 73 3, .find 13 3, .addT 73 4, .find 13 1, .new 13 1, .addT 74 5, .allStop, .find 13 8, .find 14 20,
  .new 14 20, .addT 75 0, .find 14 20, .addT 75 1, .find 14 21, .new 14 21, .addT 76 2, .find 14 8, .new 14 8, .addT 77 3, .find 14 6, .new 14 6, .addT 78 4, .find 14 3, .new 14 3, .addT 79 5, .find 14 3, .addT 79 6, .find 14 1, .new 14 1,
  .addT 80 7, .allStop, .find 14 1, .find 7 2, .find 8 1, .find 8 25, .find 8 24, .find 8 22, .find 15 11, .new 15 11, .addT 81 3, .find 15 25, .new 15 25, .addR 82 0, .find 15 24, .new 15 24, .addR 83 1, .find 15 22, .new 15 22, .addR 84 2,
  .allStop, .find 15 11, .find 16 24, .new 16 24, .addT 85 0, .find 16 25, .new 16 25, .addT 86 1, .find 16 24, .addT 85 2, .find 16 14, .new 16 14, .addT 87 3, .find 16 13, .new 16 13, .addT 88 4, .find 16 1, .new 16 1, .addT 89 5, .allStop,
  .find 16 13, .find 16 25, .find 16 24, .find 17 12, .new 17 12, .addT 90 2, .find 17 25, .new 17 25, .addR 91 0, .find 17 24, .new 17 24, .addR 92 1, .allStop, .find 17 12, .find 18 25, .new 18 25, .addT 93 0, .find 18 14, .new 18 14, .addT 94 1,
  .find 18 13, .new 18 13, .addT 95 2, .find 18 1, .new 18 1, .addT 96 3, .allStop, .find 18 14, .find 19 22, .new 19 22, .addT 97 0, .find 19 24, .new 19 24, .addT 98 1, .find 19 22, .addT 97 2, .find 19 25, .new 19 25, .addT 99 3, .find 19 24,
  .addT 98 4, .find 19 14, .new 19 14, .addT 100 5, .find 19 13, .new 19 13, .addT 101 6, .find 19 1, .new 19 1, .addT 102 7, .allStop, .find 19 1, .find 19 25, .find 19 24, .find 19 22, .find 20 15, .new 20 15, .addT 103 3, .find 20 25, .new 20 25,
  .addR 104 0, .find 20 24, .new 20 24, .addR 105 1, .find 20 22, .new 20 22, .addR 106 2, .allStop, .find 20 15, .find 18 25, .find 16 24, .find 8 22, .find 14 21, .find 14 20, .find 21 9, .new 21 9, .addT 107 5, .find 21 25, .new 21 25, .addR 108 0,
  .find 21 24, .new 21 24, .addR 109 1, .find 21 22, .new 21 22, .addR 110 2, .find 21 21, .new 21 21, .addR 111 3, .find 21 20, .new 21 20, .addR 112 4, .allStop, .find 21 9, .find 13 21, .find 10 21, .find 0 20, .find 0 17, .find 22 19, .new 22 19,
  .addT 113 4, .find 22 21, .new 22 21, .addR 114 0, .find 22 21, .addR 114 1, .find 22 20, .new 22 20, .addR 115 2, .find 22 17, .new 22 17, .addR 116 3, .allStop, .find 22 19, .find 0 18, .find 23 18, .new 23 18, .addR 117 0, .allStop, .find 22 17,
  .find 0 17, .find 22 20, .find 0 20, .find 22 21, .find 13 21, .find 10 21, .find 22 21, .find 13 21, .find 10 21, .find 21 20, .find 14 20, .find 21 21, .find 14 21, .find 21 22, .find 8 22, .find 21 24, .find 16 24, .find 21 25, .find 18 25, .find 20 22,
  .find 19 22, .find 20 24, .find 19 24, .find 20 25, .find 19 25, .find 17 24, .find 16 24, .find 17 25, .find 16 25, .find 15 22, .find 8 22, .find 15 24, .find 8 24, .find 15 25, .find 8 25, .find 12 23, .find 11 23, .find 12 22, .find 11 22, .find 12 24,
  .find 11 24, .find 12 25, .find 11 25, .find 9 20, .find 0 20, .find 9 21, .find 5 21, .find 5 21, .find 0 21, .find 9 21, .find 5 21, .find 5 21, .find 0 21, .find 9 21, .find 5 21, .find 5 21, .find 0 21, .find 9 22, .find 8 22, .find 9 24,
  .find 8 24, .find 9 25, .find 8 25, .find 6 23, .find 1 23, .find 6 22, .find 1 22, .find 6 24, .find 1 24, .find 6 25, .find 1 25, .find 4 23, .find 1 23, .find 4 22, .find 3 22, .find 4 24, .find 3 24, .find 4 25, .find 3 25, .find 2 22,
  .find 1 22, .find 2 24, .find 1 24, .find 2 25, .find 1 25]
-- expected results of the finds, in order of the `find` ops: triple id or none
def finds_d : List (Option Nat) := [
  none, none, none, some 2, none, none, none, none, some 6, none, some 6, none, some 8, none, some 9, none, some 9, none, some 10, none,
  none, none, some 14, some 11, some 10, some 9, none, none, none, none, some 15, none, none, some 19, none, some 20, none, none, none, some 23,
  some 21, some 20, some 19, some 8, none, some 25, none, none, none, none, some 25, none, some 30, none, none, none, some 33, none, some 33, some 13,
  some 11, some 10, some 9, some 8, none, some 35, none, none, none, none, some 35, some 34, none, some 40, none, none, some 41, none, some 42, none,
  none, none, some 45, some 43, some 42, some 41, some 30, some 30, some 3, some 2, none, none, none, none, none, some 51, some 51, none, some 47, none,
  none, none, none, some 56, none, some 55, none, none, some 59, none, some 59, none, some 60, none, none, none, some 64, some 61, some 60, some 59,
  some 58, none, none, none, none, none, some 65, none, none, none, none, some 73, none, some 71, none, some 75, none, none, none, none,
  some 79, none, some 80, some 40, some 46, some 43, some 42, some 41, none, none, none, none, some 81, none, none, some 85, none, none, none, some 88,
  some 86, some 85, none, none, none, some 90, none, none, none, none, some 94, none, none, some 97, none, some 98, none, none, none, some 102,
  some 99, some 98, some 97, none, none, none, none, some 103, some 93, some 85, some 41, some 76, some 75, none, none, none, none, none, none, some 107,
  some 70, some 53, some 2, some 1, none, none, some 114, none, none, some 113, none, none, some 116, some 1, some 115, some 2, some 114, some 70, some 53, some 114,
  some 70, some 53, some 112, some 75, some 111, some 76, some 110, some 41, some 109, some 85, some 108, some 93, some 106, some 97, some 105, some 98, some 104, some 99, some 92, some 85,
  some 91, some 86, some 84, some 41, some 83, some 42, some 82, some 43, some 69, some 58, some 68, some 59, some 67, some 60, some 66, some 61, some 52, some 2, some 51, some 30,
  some 30, some 3, some 51, some 30, some 30, some 3, some 51, some 30, some 30, some 3, some 50, some 41, some 49, some 42, some 48, some 43, some 39, some 8, some 38, some 9,
  some 37, some 10, some 36, some 11, some 29, some 8, some 28, some 19, some 27, some 20, some 26, some 21, some 18, some 9, some 17, some 10, some 16, some 11]
-- [n_core_symb_pairs, n_core_symb_vect_len, n_transition_vects, n_transition_vect_len, n_reduce_vects, n_reduce_vect_len]
def stats_d : List Nat := [118, 145, 23, 37, 8, 11]
-- per triple in id order: (core, symb, transitions content, transitions pointer class, reduces content, reduces pointer class); pointer class 0 = NULL, otherwise 1 + order of first appearance of that address among transitions pointers (separately numbered for reduces pointers)
def dump_d : List (Nat × Nat × List Int × Nat × List Int × Nat) := [
  (0, 16, [0], 1, [], 0), (0, 17, [1], 2, [], 0), (0, 20, [2, 3], 3, [], 0), (0, 21, [4], 4, [], 0),
  (0, 8, [5], 5, [], 0), (0, 6, [6], 6, [], 0), (0, 3, [7, 8], 7, [], 0), (0, 1, [9], 8, [], 0),
  (1, 23, [0, 1], 9, [], 0), (1, 22, [2, 3, 5], 10, [], 0), (1, 24, [4, 7], 11, [], 0), (1, 25, [6], 6, [], 0),
  (1, 14, [8], 12, [], 0), (1, 13, [9], 8, [], 0), (1, 1, [10], 13, [], 0), (2, 10, [3], 14, [], 0),
  (2, 25, [], 0, [0], 1), (2, 24, [], 0, [1], 2), (2, 22, [], 0, [2], 3), (3, 22, [0, 2], 15, [], 0),
  (3, 24, [1, 4], 16, [], 0), (3, 25, [3], 14, [], 0), (3, 14, [5], 5, [], 0), (3, 13, [6], 6, [], 0),
  (3, 1, [7], 17, [], 0), (4, 4, [4, 5], 18, [], 0), (4, 25, [], 0, [0], 1), (4, 24, [], 0, [1], 2),
  (4, 22, [], 0, [2], 3), (4, 23, [], 0, [3], 4), (5, 21, [0, 1], 9, [], 0), (5, 8, [2], 19, [], 0),
  (5, 6, [3], 14, [], 0), (5, 3, [4, 5], 18, [], 0), (5, 1, [6], 6, [], 0), (6, 4, [4, 5], 18, [], 0),
  (6, 25, [], 0, [0], 1), (6, 24, [], 0, [1], 2), (6, 22, [], 0, [2], 3), (6, 23, [], 0, [3], 4),
  (7, 2, [0], 1, [], 0), (8, 22, [0, 2], 15, [], 0), (8, 24, [1, 4], 16, [], 0), (8, 25, [3], 14, [], 0),
  (8, 14, [5], 5, [], 0), (8, 13, [6], 6, [], 0), (8, 1, [7], 17, [], 0), (9, 0, [7], 17, [], 0),
  (9, 25, [], 0, [0], 1), (9, 24, [], 0, [1], 2), (9, 22, [], 0, [2], 3), (9, 21, [], 0, [3, 4, 5], 5),
  (9, 20, [], 0, [6], 6), (10, 21, [0], 1, [], 0), (10, 8, [1], 2, [], 0), (10, 6, [2], 19, [], 0),
  (10, 3, [3, 4], 20, [], 0), (10, 1, [5], 5, [], 0), (11, 23, [0], 1, [], 0), (11, 22, [1, 2, 4], 21, [], 0),
  (11, 24, [3, 6], 22, [], 0), (11, 25, [5], 5, [], 0), (11, 14, [7], 17, [], 0), (11, 13, [8], 12, [], 0),
  (11, 1, [9], 8, [], 0), (12, 7, [4], 4, [], 0), (12, 25, [], 0, [0], 1), (12, 24, [], 0, [1], 2),
  (12, 22, [], 0, [2], 3), (12, 23, [], 0, [3], 4), (13, 21, [0], 1, [], 0), (13, 8, [1], 2, [], 0),
  (13, 6, [2], 19, [], 0), (13, 3, [3, 4], 20, [], 0), (13, 1, [5], 5, [], 0), (14, 20, [0, 1], 9, [], 0),
  (14, 21, [2], 19, [], 0), (14, 8, [3], 14, [], 0), (14, 6, [4], 4, [], 0), (14, 3, [5, 6], 23, [], 0),
  (14, 1, [7], 17, [], 0), (15, 11, [3], 14, [], 0), (15, 25, [], 0, [0], 1), (15, 24, [], 0, [1], 2),
  (15, 22, [], 0, [2], 3), (16, 24, [0, 2], 15, [], 0), (16, 25, [1], 2, [], 0), (16, 14, [3], 14, [], 0),
  (16, 13, [4], 4, [], 0), (16, 1, [5], 5, [], 0), (17, 12, [2], 19, [], 0), (17, 25, [], 0, [0], 1),
  (17, 24, [], 0, [1], 2), (18, 25, [0], 1, [], 0), (18, 14, [1], 2, [], 0), (18, 13, [2], 19, [], 0),
  (18, 1, [3], 14, [], 0), (19, 22, [0, 2], 15, [], 0), (19, 24, [1, 4], 16, [], 0), (19, 25, [3], 14, [], 0),
  (19, 14, [5], 5, [], 0), (19, 13, [6], 6, [], 0), (19, 1, [7], 17, [], 0), (20, 15, [3], 14, [], 0),
  (20, 25, [], 0, [0], 1), (20, 24, [], 0, [1], 2), (20, 22, [], 0, [2], 3), (21, 9, [5], 5, [], 0),
  (21, 25, [], 0, [0], 1), (21, 24, [], 0, [1], 2), (21, 22, [], 0, [2], 3), (21, 21, [], 0, [3], 4),
  (21, 20, [], 0, [4], 7), (22, 19, [4], 4, [], 0), (22, 21, [], 0, [0, 1], 8), (22, 20, [], 0, [2], 3),
  (22, 17, [], 0, [3], 4), (23, 18, [], 0, [0], 1)]
end Yaep.VS.Data

open Yaep.VS
def runCollect (s : State) (acc : List (Option Nat)) : List Op → Except Err (State × List (Option Nat))
  | [] => .ok (s, acc.reverse)
  | .find c y :: rest => match find s c y with
    | .error e => .error e
    | .ok (s1, r) => runCollect s1 (r :: acc) rest
  | op :: rest => match step s op with
    | .error e => .error e
    | .ok s1 => runCollect s1 acc rest

def classify (ps : List Ptr) : List Nat :=
  let rec go (seen : List Ptr) : List Ptr → List Nat
    | [] => []
    | p :: rest => if p == .null then 0 :: go seen rest else
        match seen.findIdx? (· == p) with
        | some i => (i + 1) :: go seen rest
        | none => (seen.length + 1) :: go (seen ++ [p]) rest
  go [] ps

def check (width : Nat) (ops : List Op) (finds : List (Option Nat)) (stats : List Nat)
    (dump : List (Nat × Nat × List Int × Nat × List Int × Nat)) : String :=
  match runCollect (init width) [] ops with
  | .error e => s!"ERROR {repr e}"
  | .ok (s, fs) =>
    let okFinds := fs == finds
    let okStats := [s.nPairs, s.nVectLen, s.nT, s.nTLen, s.nR, s.nRLen] == stats
    let n := s.triples.length
    let okN := n == dump.length
    let reads := (List.range n).map fun i => (s.read i .tr, s.read i .re)
    let okReads := reads == dump.map fun d => (some d.2.2.1, some d.2.2.2.2.1)
    let okKeys := (s.triples.map fun T => (T.core, T.symb)) == dump.map fun d => (d.1, d.2.1)
    let clT := classify (s.triples.map (·.tr.els))
    let clR := classify (s.triples.map (·.re.els))
    let okClT := clT == dump.map (·.2.2.2.1)
    let okClR := clR == dump.map (·.2.2.2.2.2)
    let okPerm := s.triples.all fun T => (T.tr.els matches .null | .perm _) && (T.re.els matches .null | .perm _)
    s!"ops={ops.length} triples={n} rows={s.rows.length} heap={s.heap.length} finds={okFinds} stats={okStats} ntriples={okN} reads={okReads} keys={okKeys} classesT={okClT} classesR={okClR} noScratch={okPerm} stats={[s.nPairs, s.nVectLen, s.nT, s.nTLen, s.nR, s.nRLen]}"

open Yaep.VS.Data in
#eval check width_a ops_a finds_a stats_a dump_a
open Yaep.VS.Data in
#eval check width_b ops_b finds_b stats_b dump_b
open Yaep.VS.Data in
#eval check width_c ops_c finds_c stats_c dump_c
open Yaep.VS.Data in
#eval check width_d ops_d finds_d stats_d dump_d
