import Yaep.Props.MakeParseSound
open Yaep

def lcg (s : Nat) : Nat := (s * 6364136223846793005 + 1442695040888963407) % 18446744073709551616

structure Rng where
  s : Nat

def Rng.next (r : Rng) (n : Nat) : Nat × Rng :=
  let s := lcg r.s
  ((s / 8589934592) % (max n 1), ⟨s⟩)

abbrev G := StateM Rng

def rnd (n : Nat) : G Nat := fun r => r.next n

def ntNames : List String := ["S", "A", "B", "C", "D"]
def tNames : List String := ["a", "b", "c"]

def shuffleF : Nat → List Nat → G (List Nat)
  | 0, _ => pure []
  | _, [] => pure []
  | f + 1, l => do
    let i ← rnd l.length
    let x := l.getD i 0
    let rest ← shuffleF f (l.eraseIdx i)
    pure (x :: rest)

def shuffle (l : List Nat) : G (List Nat) := shuffleF l.length l

def genRule (idx nNt nT : Nat) (forceLhs : Option Nat) (anodeBias : Nat) : G RawRule := do
  let lhs ← match forceLhs with
    | some k => pure k
    | none => rnd nNt
  let len ← rnd 4
  let mut rhs : List String := []
  for _ in [0:len] do
    let k ← rnd (nNt + nT + 1)
    if k < nNt then rhs := rhs ++ [ntNames.getD k "S"]
    else rhs := rhs ++ [tNames.getD ((k - nNt) % nT) "a"]
  let an ← rnd 10
  if an < anodeBias then
    -- abstract node, translation = random sub-permutation with a possible NIL
    let perm ← shuffle (List.range len)
    let k ← rnd (len + 1)
    let tr := perm.take k
    let withNil ← rnd 4
    let tr := if withNil == 0 then tr ++ [NIL_TRANSL] else tr
    pure ⟨ntNames.getD lhs "S", rhs, some s!"r{idx}", 0, some tr⟩
  else
    let tr ← rnd (len + 1)
    if tr < len then pure ⟨ntNames.getD lhs "S", rhs, none, 0, some [tr]⟩
    else pure ⟨ntNames.getD lhs "S", rhs, none, 0, none⟩

def genGrammar : G RawGrammar := do
  let nNt := 1 + (← rnd 4)
  let nT := 1 + (← rnd 2)
  let nR := 2 + (← rnd 7)
  let bias ← rnd 11
  let mut rules : List RawRule := []
  for i in [0:nR] do
    let r ← genRule i nNt nT (if i == 0 then some 0 else none) bias
    rules := rules ++ [r]
  pure ⟨(List.range nT).map fun k => (tNames.getD k "a", 97 + (k : Int)), rules, false⟩

def strSet (l : List String) : List String := l.foldl (fun acc s => if acc.contains s then acc else acc ++ [s]) []

/-- all words over `nT` terminals of length `n` -/
def words (nT : Nat) : Nat → List (List Nat)
  | 0 => [[]]
  | n + 1 => (words nT n).flatMap fun w => (List.range nT).map fun a => a :: w

structure Stats where
  grammars : Nat := 0
  inputs : Nat := 0
  ambiguous : Nat := 0      -- ≥ 2 translations
  eventFree : Nat := 0
  eventFreeAmb : Nat := 0
  eventFreeMulti : Nat := 0   -- event-free, ≥ 2 denoted
  incompleteEv : Nat := 0
  bad : Nat := 0
deriving Repr

def showRaw (raw : RawGrammar) : String :=
  String.intercalate " ; " (raw.rules.map fun r =>
    s!"{r.lhs} : {String.intercalate " " r.rhs} # {r.anode.getD "-"} {match r.transl with | some l => toString l | none => "none"}")

def testOne (raw : RawGrammar) (g : Grammar) (w : List Nat) (la : Nat) (st : Stats) : IO Stats := do
  let pl := BS.buildPLC g la w
  if pl.1.isSome then return st
  let toks := w ++ [g.eofT]
  let nd := countDerivationsP g toks 300
  if nd > 300 then return st
  let sets := plSets g la w
  let c := MP.mkCtx g sets (plTokNums w) false
  match MP.makeParse g sets (plTokNums w) false (MP.defaultFuel c) with
  | .ok res =>
    let ds := derivationsP g toks
    let spec := strSet (ds.map fun d => (translate g d).str)
    let impl := strSet (((denoteTab res.tab).getD res.root []).map Tree.str)
    let missing := spec.filter (!impl.contains ·)
    let spurious := impl.filter (!spec.contains ·)
    let ev := res.reuse != 0 || res.origins != 0
    let mut st := { st with inputs := st.inputs + 1 }
    if spec.length ≥ 2 then st := { st with ambiguous := st.ambiguous + 1 }
    if !ev then
      st := { st with eventFree := st.eventFree + 1 }
      if spec.length ≥ 2 then st := { st with eventFreeAmb := st.eventFreeAmb + 1 }
      if impl.length ≥ 2 then st := { st with eventFreeMulti := st.eventFreeMulti + 1 }
    if !spurious.isEmpty then
      IO.println s!"SPURIOUS la={la} w={w} {showRaw raw} spurious={spurious}"
    if !missing.isEmpty then
      if ev then st := { st with incompleteEv := st.incompleteEv + 1 }
      else
        IO.println s!"COUNTEREXAMPLE la={la} w={w} {showRaw raw}\n   missing={missing} impl={impl} amb={res.amb}"
        IO.println s!"   raw={repr raw}"
    return st
  | o =>
    IO.println s!"BAD outcome la={la} w={w} {showRaw raw} {repr o}"
    return { st with bad := st.bad + 1 }

def main (args : List String) : IO Unit := do
  let seed := (args.getD 0 "1").toNat!
  let n := (args.getD 1 "100").toNat!
  let maxLen := (args.getD 2 "5").toNat!
  let mut rng : Rng := ⟨seed⟩
  let mut st : Stats := {}
  for _ in [0:n] do
    let (raw, rng') := genGrammar rng
    rng := rng'
    match readGrammar raw with
    | .error _ => pure ()
    | .ok g =>
      st := { st with grammars := st.grammars + 1 }
      let nT := raw.terms.length
      for len in [0:maxLen+1] do
        for w in words nT len do
          for la in [0, 1] do
            st ← testOne raw g w la st
  IO.println (repr st)
