import Yaep.Props.RecoveredCost
import Yaep.Props.MakeParseComplete
open Yaep

def showOut (o : MP.Outcome) : String :=
  match o with
  | .ok r => s!"ok amb={r.amb} reuse={r.reuse} origins={r.origins} root={r.root} heap={r.heapSize} trees={((denoteTab r.tab).getD r.root []).map Tree.str}"
  | .noParse => "noParse" | .outOfFuel => "oof" | .undefinedBehaviour => "ub" | .cyclic => "cyc"

-- CostEx after recovery
#eval showOut (MP.makeParse CostEx.g (RP.sets (parseWithRecovery CostEx.g 1 1 [1, 0, 0] 100).pl) (RP.tokNums (parseWithRecovery CostEx.g 1 1 [1, 0, 0] 100).pl) false 200)

-- CPEx with costs
def gc : Grammar :=
  { CPEx.g with rules := [
      { lhs := 1, rhs := [.n 0, .t 2], transLen := 1, order := [some 0, none] },
      { lhs := 0, rhs := [.n 2, .n 3], anode := some "s", cost := 1, transLen := 2, order := [some 0, some 1] },
      { lhs := 2, rhs := [.t 0], anode := some "x", cost := 1, order := [none] },
      { lhs := 2, rhs := [.t 0, .t 0], anode := some "y", cost := 2, order := [none, none] },
      { lhs := 3, rhs := [.t 0, .t 0], anode := some "w", cost := 3, order := [none, none] },
      { lhs := 3, rhs := [.t 0], anode := some "z", cost := 0, order := [none] },
      { lhs := 1, rhs := [.t 1, .t 2], order := [none, none] } ] }
#eval showOut (MP.makeParse gc (plSets gc 1 CPEx.w) (plTokNums CPEx.w) false 100)

-- recovery example: S : A B # s(0 1) | error B # e 5 (1) ; A : 'a' # x 1 | 'a' 'a' # y 2 ; B : 'a' 'a' # w 3 | 'a' # z ; plus terminal b as garbage
-- terminals: a 0, b 1, error 2, $eof 3 ; nts S 0, $S 1, A 2, B 3
def gr : Grammar :=
  { rules := [
      { lhs := 1, rhs := [.n 0, .t 3], transLen := 1, order := [some 0, none] },
      { lhs := 0, rhs := [.n 2, .n 3], anode := some "s", cost := 1, transLen := 2, order := [some 0, some 1] },
      { lhs := 0, rhs := [.t 2, .n 2, .n 3], anode := some "e", cost := 5, transLen := 2, order := [none, some 0, some 1] },
      { lhs := 2, rhs := [.t 0], anode := some "x", cost := 1, order := [none] },
      { lhs := 2, rhs := [.t 0, .t 0], anode := some "y", cost := 2, order := [none, none] },
      { lhs := 3, rhs := [.t 0, .t 0], anode := some "w", cost := 3, order := [none, none] },
      { lhs := 3, rhs := [.t 0], anode := some "z", cost := 0, order := [none] },
      { lhs := 1, rhs := [.t 2, .t 3], order := [none, none] } ],
    termNames := ["a", "b", "error", "$eof"], termCodes := [97, 98, -2, -1],
    ntNames := ["S", "$S", "A", "B"], errT := 2, eofT := 3, axiomN := 1, startN := 0 }
#eval (parseWithRecovery gr 1 1 [1, 0, 0, 0] 100).ok
#eval (parseWithRecovery gr 1 1 [1, 0, 0, 0] 100).calls
#eval RP.pairs (parseWithRecovery gr 1 1 [1, 0, 0, 0] 100).pl
#eval showOut (MP.makeParse gr (RP.sets (parseWithRecovery gr 1 1 [1, 0, 0, 0] 100).pl) (RP.tokNums (parseWithRecovery gr 1 1 [1, 0, 0, 0] 100).pl) false 200)

-- c06 examples
#eval (parseWithRecovery c06Grammar 1 2 [3, 3] 200).calls
#eval RP.pairs (parseWithRecovery c06Grammar 1 2 [3, 3] 200).pl
#eval (parseWithRecovery c06Grammar 1 3 [3, 2, 2, 3] 200).calls
#eval RP.pairs (parseWithRecovery c06Grammar 1 3 [3, 2, 2, 3] 200).pl
#eval (parseWithRecovery c06Grammar 1 1 [2, 2, 2, 3] 200).calls
#eval RP.pairs (parseWithRecovery c06Grammar 1 1 [2, 2, 2, 3] 200).pl

def pruned (g : Grammar) (S : Array (Array Item)) (P : Array Int) (fuel : Nat) (one : Bool) :=
  (MP.makeParseSt (MP.mkCtx g S P false) fuel).map fun s =>
    (s.result, s.heap.size, (denote (PC.unfoldC (PC.findMinimalTranslation s.heap.size (PC.ofHeap s.heap) (s.result.getD 0) one true id s.nilUsed s.errUsed).heap s.heap.size
      (PC.findMinimalTranslation s.heap.size (PC.ofHeap s.heap) (s.result.getD 0) one true id s.nilUsed s.errUsed).root)).map Tree.str)
#eval pruned gc (plSets gc 1 CPEx.w) (plTokNums CPEx.w) 100 false
#eval pruned gc (plSets gc 1 CPEx.w) (plTokNums CPEx.w) 100 true
#eval (derivationsP gc (CPEx.w ++ [gc.eofT])).map fun d => ((translate gc d).str, (translate gc d).totalCost)
#eval pruned gr (RP.sets (parseWithRecovery gr 1 1 [1, 0, 0, 0] 100).pl) (RP.tokNums (parseWithRecovery gr 1 1 [1, 0, 0, 0] 100).pl) 200 false
#eval (derivationsP gr (RP.word (parseWithRecovery gr 1 1 [1, 0, 0, 0] 100).pl)).map fun d => ((translate gr d).str, (translate gr d).totalCost)
#eval RP.word (parseWithRecovery gr 1 1 [1, 0, 0, 0] 100).pl
#eval RP.tokNums (parseWithRecovery gr 1 1 [1, 0, 0, 0] 100).pl
#eval (MP.makeParseSt (MP.mkCtx gc (plSets gc 1 CPEx.w) (plTokNums CPEx.w) false) 100).map fun s => (s.heap.toList.map PC.ofMNode, s.result, s.nilUsed, s.errUsed)
def gr2 : Grammar := { gr with rules := gr.rules.set 6 { lhs := 3, rhs := [.t 0], anode := some "z", transLen := 1, order := [some 0] } }
#eval (MP.makeParseSt (MP.mkCtx gr2 (RP.sets (parseWithRecovery gr2 1 1 [1, 0, 0, 0] 100).pl) (RP.tokNums (parseWithRecovery gr2 1 1 [1, 0, 0, 0] 100).pl) false) 200).map fun s => (s.heap.toList.map PC.ofMNode, s.result, s.nilUsed, s.errUsed)
