import Yaep.Props.RecoveredParse
open Yaep

def mkG (rules : List Rule) (nts : List String) : Grammar :=
  { rules := [ { lhs := 0, rhs := [.n 1, .t 1] } ] ++ rules ++ [{ lhs := 0, rhs := [.t 0, .t 1] }],
    termNames := ["error", "$eof", "a", "b", "c"], termCodes := [-1, -2, 97, 98, 99],
    ntNames := ["$S", "S"] ++ nts, errT := 0, eofT := 1, axiomN := 0, startN := 1 }

def gs : List (String × Grammar) := [
  ("stmts", mkG [{ lhs := 1, rhs := [.n 1, .n 2] }, { lhs := 1, rhs := [.n 2] },
                 { lhs := 2, rhs := [.t 2, .t 3] }, { lhs := 2, rhs := [.t 0, .t 3] }] ["stmt"]),
  ("stmts-erralone", mkG [{ lhs := 1, rhs := [.n 1, .n 2] }, { lhs := 1, rhs := [.n 2] },
                 { lhs := 2, rhs := [.t 2, .t 3] }, { lhs := 2, rhs := [.t 0] }] ["stmt"]),
  ("c07", mkG [{ lhs := 1, rhs := [.n 2, .t 0] }, { lhs := 2, rhs := [.t 0, .t 2] }] ["A"]),
  ("nest", mkG [{ lhs := 1, rhs := [.t 2, .n 1, .t 3] }, { lhs := 1, rhs := [.t 0] }, { lhs := 1, rhs := [.t 4] }] []),
  ("items", mkG [{ lhs := 1, rhs := [.n 1, .n 2] }, { lhs := 1, rhs := [] },
                 { lhs := 2, rhs := [.t 2] }, { lhs := 2, rhs := [.t 0, .t 3] }, { lhs := 2, rhs := [.t 4, .t 0, .t 4] }] ["item"]),
  ("twoerr", mkG [{ lhs := 1, rhs := [.t 2, .t 0, .t 3, .t 0, .t 4] }, ⟨1, [.t 2, .t 3, .t 4],  none, 0, 0, []⟩] []),
  ("errerr", mkG [{ lhs := 1, rhs := [.t 2, .t 0, .t 0, .t 4] }, ⟨1, [.t 2, .t 3, .t 4],  none, 0, 0, []⟩] [])
]

def allWords : Nat → List (List Nat)
  | 0 => [[]]
  | n + 1 => (allWords n) ++ ((allWords n).filter (·.length == n)).flatMap fun w => [2,3,4].map (· :: w)

def expected (full : List Nat) (e a b : Nat) : List (Nat × Option Nat) :=
  ((List.range a).map fun k => (full.getD k 0, some k)) ++ [(0, none)] ++
  ((List.range (full.length - b)).map fun d => (full.getD (b + d) 0, some (b + d)))

def main : IO Unit := do
  let mut tot := 0
  let mut single := 0
  let mut bad := 0
  for (nm, g) in gs do
    for w in allWords 6 do
      for la in [0, 1] do
        for rm in [1, 2, 3] do
          let r := parseWithRecovery g la rm w 20000
          tot := tot + 1
          if r.ok && r.calls.length == 1 then
            single := single + 1
            let (e, a, b) := r.calls.head!
            let ps := RP.pairs r.pl
            if ps != expected (w ++ [1]) e a b then
              bad := bad + 1
              if bad < 40 then
                IO.println s!"{nm} w={w} la={la} rm={rm} call={(e,a,b)} pairs={ps}"
  IO.println s!"tot={tot} single={single} bad={bad}"
