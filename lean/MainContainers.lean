import Yaep.Driver.Containers
/-!
# `containers_model`: the C19 judge as a filter.
stdin: output of `harness/ch_c` or `harness/ch_cxx`; stdout: verdict lines.
`--cxx-model` judges against the model of `hashtab.cpp` (`cxx = true`) instead of the
reference model; it is only used to explain the C++ findings.
-/
open Yaep.Driver.Containers

partial def loop (cxx : Bool) (h : IO.FS.Stream) (acc : Array String) : IO Unit := do
  let line ← h.getLine
  if line.isEmpty then
    if acc.size > 0 then
      for v in judgeWith cxx acc.toList do IO.println v
    return ()
  let l := line.trimAscii.toString
  if l.startsWith "case " then
    if acc.size > 0 then
      for v in judgeWith cxx acc.toList do IO.println v
    loop cxx h #[l]
  else if l == "end" then
    for v in judgeWith cxx (acc.push l).toList do IO.println v
    (← IO.getStdout).flush
    loop cxx h #[]
  else if acc.size > 0 then
    loop cxx h (acc.push l)
  else
    loop cxx h acc

def main (args : List String) : IO Unit := do
  loop (args.contains "--cxx-model") (← IO.getStdin) #[]
