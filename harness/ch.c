/* ch.c -- container harness for property C19 (hash table, object stack, variable length
   object of yaep).  ONE source for both flavours:

     C   : gcc  ... ch.c hashtab.c   objstack.c   vlobject.c   allocate.c
     C++ : g++  -DCH_CXX ... ch.c hashtab.cpp objstack.cpp vlobject.cpp allocate.c(as C)

   stdin : cases (see README in the task / tools/gen_containers.py)
   stdout: every input line echoed, observation lines start with "o ".

   One forked child per case, 10 s alarm.  The child echoes and executes all lines but the
   final `end`; the parent prints "o crash <reason>" when the child did not exit with 0
   and then the `end` line, so that the stream stays well formed for the judge.  */

#include <stdio.h>
#include <stdlib.h>
#include <string.h>
#include <unistd.h>
#include <signal.h>
#include <sys/types.h>
#include <sys/wait.h>

#include "allocate.h"
#include "hashtab.h"
#include "objstack.h"
#include "vlobject.h"

/* ------------------------------------------------------------------ flavour mapping --- */
/* The C++ mapping is the one of yaep.cpp (macros -> member functions of `hash_table', `os',
   `vlo'); the C flavour uses the macros / functions of the headers directly.  */
#ifdef CH_CXX
#define FLAVOUR "cxx"
typedef hash_table *H_T;
typedef os *S_T;
typedef vlo *V_T;
#define H_CREATE(a, size, hf, ef) (new hash_table ((a), (size), (hf), (ef)))
#define H_FIND(t, el, res) ((t)->find_entry ((el), (res)))
#define H_REMOVE(t, el) ((t)->remove_element_from_entry (el))
#define H_EMPTY(t) ((t)->empty ())
#define H_SIZE(t) ((t)->size ())
#define H_ELEMS(t) ((t)->elements_number ())
#define H_DELETE(t) delete (t)
#define S_CREATE(o, a, len) ((o) = new os ((a), (len)))
#define S_DELETE(o) delete (o)
#define S_EMPTY(o) ((o)->empty ())
#define S_BEGIN(o) ((o)->top_begin ())
#define S_LENGTH(o) ((o)->top_length ())
#define S_ADD_MEMORY(o, p, n) ((o)->top_add_memory ((p), (n)))
#define S_ADD_BYTE(o, b) ((o)->top_add_byte (b))
#define S_FINISH(o) ((o)->top_finish ())
#define S_EXPAND(o, n) ((o)->top_expand (n))
#define S_SHORTEN(o, n) ((o)->top_shorten (n))
#define S_NULLIFY(o) ((o)->top_nullify ())
#define V_CREATE(v, a, len) ((v) = new vlo ((a), (len)))
#define V_DELETE(v) delete (v)
#define V_LENGTH(v) ((v)->length ())
#define V_BEGIN(v) ((v)->begin ())
#define V_ADD_MEMORY(v, p, n) ((v)->add_memory ((p), (n)))
#define V_EXPAND(v, n) ((v)->expand (n))
#define V_SHORTEN(v, n) ((v)->shorten (n))
#define V_NULLIFY(v) ((v)->nullify ())
#define V_TAILOR(v) ((v)->tailor ())
#else
#define FLAVOUR "c"
typedef hash_table_t H_T;
typedef os_t S_T;
typedef vlo_t V_T;
#define H_CREATE(a, size, hf, ef) create_hash_table ((a), (size), (hf), (ef))
#define H_FIND(t, el, res) find_hash_table_entry ((t), (el), (res))
#define H_REMOVE(t, el) remove_element_from_hash_table_entry ((t), (el))
#define H_EMPTY(t) empty_hash_table (t)
#define H_SIZE(t) hash_table_size (t)
#define H_ELEMS(t) hash_table_elements_number (t)
#define H_DELETE(t) delete_hash_table (t)
#define S_CREATE(o, a, len) OS_CREATE (o, a, len)
#define S_DELETE(o) OS_DELETE (o)
#define S_EMPTY(o) OS_EMPTY (o)
#define S_BEGIN(o) OS_TOP_BEGIN (o)
#define S_LENGTH(o) OS_TOP_LENGTH (o)
#define S_ADD_MEMORY(o, p, n) OS_TOP_ADD_MEMORY (o, p, n)
#define S_ADD_BYTE(o, b) OS_TOP_ADD_BYTE (o, b)
#define S_FINISH(o) OS_TOP_FINISH (o)
#define S_EXPAND(o, n) OS_TOP_EXPAND (o, n)
#define S_SHORTEN(o, n) OS_TOP_SHORTEN (o, n)
#define S_NULLIFY(o) OS_TOP_NULLIFY (o)
#define V_CREATE(v, a, len) VLO_CREATE (v, a, len)
#define V_DELETE(v) VLO_DELETE (v)
#define V_LENGTH(v) VLO_LENGTH (v)
#define V_BEGIN(v) VLO_BEGIN (v)
#define V_ADD_MEMORY(v, p, n) VLO_ADD_MEMORY (v, p, n)
#define V_EXPAND(v, n) VLO_EXPAND (v, n)
#define V_SHORTEN(v, n) VLO_SHORTEN (v, n)
#define V_NULLIFY(v) VLO_NULLIFY (v)
#define V_TAILOR(v) VLO_TAILOR (v)
#endif

/* ------------------------------------------------------------------------- helpers --- */
#define MAXLINE (1 << 17)
#define MAXOBJ 4096

static YaepAllocator *alloc;
static unsigned long modulus = 1;

static unsigned
hashf (hash_table_entry_t el)
{
  return (unsigned) ((size_t) el % modulus);
}

static int
eqf (hash_table_entry_t a, hash_table_entry_t b)
{
  return a == b;
}

static int
hexval (int c)
{
  if (c >= '0' && c <= '9') return c - '0';
  if (c >= 'a' && c <= 'f') return c - 'a' + 10;
  if (c >= 'A' && c <= 'F') return c - 'A' + 10;
  return -1;
}

/* decode hex string ("-" or "" = empty) into buf, return length */
static size_t
unhex (const char *s, unsigned char *buf)
{
  size_t n = 0;
  if (s == NULL || s[0] == '-') return 0;
  while (hexval (s[0]) >= 0 && hexval (s[1]) >= 0)
    {
      buf[n++] = (unsigned char) (hexval (s[0]) * 16 + hexval (s[1]));
      s += 2;
    }
  return n;
}

static void
puthex (const unsigned char *p, size_t n)
{
  static const char d[] = "0123456789abcdef";
  size_t i;
  if (n == 0) { putchar ('-'); return; }
  for (i = 0; i < n; i++) { putchar (d[p[i] >> 4]); putchar (d[p[i] & 15]); }
}

struct fin { const unsigned char *ptr; size_t len; unsigned char *copy; };

/* ---------------------------------------------------------------- one case (child) --- */
static void
run_case (char **lines, int nlines)
{
  H_T tab = NULL; int have_tab = 0;
  S_T stk; int have_stk = 0;
  V_T vl; int have_vl = 0;
  static struct fin fins[MAXOBJ]; int nfin = 0;
  static unsigned char buf[MAXLINE];
  static char work[MAXLINE];
  int li;

  memset (&stk, 0, sizeof stk); memset (&vl, 0, sizeof vl);
  for (li = 0; li < nlines; li++)
    {
      char *w[4]; int nw = 0; char *tok;
      puts (lines[li]);
      fflush (stdout);          /* so that a crash is attributed to the op that caused it */
      strcpy (work, lines[li]);
      for (tok = strtok (work, " \t\r\n"); tok != NULL && nw < 4; tok = strtok (NULL, " \t\r\n"))
        w[nw++] = tok;
      if (nw < 2) { fflush (stdout); continue; }
      if (strcmp (w[0], "h") == 0)
        {
          const char *c = w[1];
          unsigned long v = nw > 2 ? strtoul (w[2], NULL, 10) : 0;
          hash_table_entry_t el = (hash_table_entry_t) (size_t) v;
          if (strcmp (c, "create") == 0)
            {
              modulus = nw > 3 ? strtoul (w[3], NULL, 10) : 1;
              if (modulus == 0) modulus = 1;
              tab = H_CREATE (alloc, (size_t) v, hashf, eqf); have_tab = 1;
            }
          else if (!have_tab) printf ("o error no table\n");
          else if (strcmp (c, "find") == 0)
            {
              hash_table_entry_t *e = H_FIND (tab, el, 0);
              /* the idiom of yaep.c: `*entry != NULL' means "there is an element" */
              printf ("o find %d\n", *e != NULL);
            }
          else if (strcmp (c, "insert") == 0)
            {
              hash_table_entry_t *e = H_FIND (tab, el, 1);
              if (*e != NULL) printf ("o insert present\n");   /* as yaep.c: if (*entry != NULL) ... */
              else { *e = el; printf ("o insert new\n"); }     /*            else *entry = new;      */
            }
          else if (strcmp (c, "remove") == 0)
            {
              hash_table_entry_t *e = H_FIND (tab, el, 0);
              if (*e == NULL) printf ("o remove absent\n");
              else { H_REMOVE (tab, el); printf ("o remove\n"); }
            }
          else if (strcmp (c, "empty") == 0) H_EMPTY (tab);
          else if (strcmp (c, "size") == 0)
            printf ("o size %lu elems %lu\n", (unsigned long) H_SIZE (tab), (unsigned long) H_ELEMS (tab));
          else printf ("o error unknown op\n");
        }
      else if (strcmp (w[0], "s") == 0)
        {
          const char *c = w[1];
          unsigned long n = nw > 2 ? strtoul (w[2], NULL, 10) : 0;
          if (strcmp (c, "create") == 0) { S_CREATE (stk, alloc, (size_t) n); have_stk = 1; nfin = 0; }
          else if (!have_stk) printf ("o error no stack\n");
          else if (strcmp (c, "addbytes") == 0)
            { size_t len = unhex (nw > 2 ? w[2] : "-", buf); S_ADD_MEMORY (stk, buf, len); }
          else if (strcmp (c, "addbyte") == 0)
            { size_t len = unhex (nw > 2 ? w[2] : "00", buf); int b = len ? buf[0] : 0; S_ADD_BYTE (stk, b); }
          else if (strcmp (c, "expand") == 0) S_EXPAND (stk, (size_t) n);
          else if (strcmp (c, "shorten") == 0) S_SHORTEN (stk, (size_t) n);
          else if (strcmp (c, "nullify") == 0) S_NULLIFY (stk);
          else if (strcmp (c, "finish") == 0)
            {
              if (nfin < MAXOBJ)
                {
                  struct fin *f = &fins[nfin++];
                  f->ptr = (const unsigned char *) S_BEGIN (stk);
                  f->len = (size_t) S_LENGTH (stk);
                  f->copy = (unsigned char *) malloc (f->len + 1);
                  memcpy (f->copy, f->ptr, f->len);
                }
              S_FINISH (stk);
            }
          else if (strcmp (c, "empty") == 0)
            {
              int k;
              S_EMPTY (stk);
              for (k = 0; k < nfin; k++) free (fins[k].copy);
              nfin = 0;      /* OS_EMPTY destroys all objects */
            }
          else if (strcmp (c, "top") == 0)
            {
              size_t len = (size_t) S_LENGTH (stk);
              printf ("o top %lu ", (unsigned long) len);
              puthex ((const unsigned char *) S_BEGIN (stk), len); putchar ('\n');
            }
          else if (strcmp (c, "check") == 0)
            {
              int k;
              for (k = 0; k < nfin; k++)
                {
                  /* the only handle a user has for a finished object is its address: the
                     object "moved" iff the bytes are no longer there (a freed segment is
                     reported by ASan as a crash) */
                  int same = memcmp (fins[k].ptr, fins[k].copy, fins[k].len) == 0;
                  printf ("o obj %d %s ", k, same ? "same" : "moved");
                  puthex (fins[k].ptr, fins[k].len); putchar ('\n');
                }
            }
          else printf ("o error unknown op\n");
        }
      else if (strcmp (w[0], "v") == 0)
        {
          const char *c = w[1];
          unsigned long n = nw > 2 ? strtoul (w[2], NULL, 10) : 0;
          if (strcmp (c, "create") == 0) { V_CREATE (vl, alloc, (size_t) n); have_vl = 1; }
          else if (!have_vl) printf ("o error no vlo\n");
          else if (strcmp (c, "add") == 0)
            { size_t len = unhex (nw > 2 ? w[2] : "-", buf); V_ADD_MEMORY (vl, buf, len); }
          else if (strcmp (c, "expand") == 0) V_EXPAND (vl, (size_t) n);
          else if (strcmp (c, "shorten") == 0) V_SHORTEN (vl, (size_t) n);
          else if (strcmp (c, "nullify") == 0) V_NULLIFY (vl);
          else if (strcmp (c, "tailor") == 0) V_TAILOR (vl);
          else if (strcmp (c, "get") == 0)
            {
              size_t len = (size_t) V_LENGTH (vl);
              printf ("o get %lu ", (unsigned long) len);
              puthex ((const unsigned char *) V_BEGIN (vl), len); putchar ('\n');
            }
          else printf ("o error unknown op\n");
        }
      fflush (stdout);
    }
  if (have_tab) H_DELETE (tab);
  if (have_stk) S_DELETE (stk);
  if (have_vl) V_DELETE (vl);
  fflush (stdout);
}

/* -------------------------------------------------------------------------- parent --- */
int
main (void)
{
  static char line[MAXLINE];
  char **lines = NULL; int nlines = 0, cap = 0, in_case = 0;

  alloc = yaep_alloc_new (NULL, NULL, NULL, NULL);
  if (alloc == NULL) { fprintf (stderr, "no allocator\n"); return 2; }
  while (fgets (line, sizeof line, stdin) != NULL)
    {
      size_t l = strlen (line);
      while (l > 0 && (line[l - 1] == '\n' || line[l - 1] == '\r')) line[--l] = 0;
      if (strncmp (line, "case ", 5) == 0) { in_case = 1; nlines = 0; }
      if (!in_case) { if (l > 0) puts (line); continue; }
      if (strcmp (line, "end") != 0)
        {
          if (nlines == cap) { cap = cap ? 2 * cap : 64; lines = (char **) realloc (lines, cap * sizeof *lines); }
          lines[nlines] = (char *) malloc (l + 1); memcpy (lines[nlines], line, l + 1); nlines++;
          continue;
        }
      /* complete case */
      {
        pid_t pid; int status = 0, k;
        fflush (stdout);
        pid = fork ();
        if (pid == 0)
          {
            alarm (10);
            run_case (lines, nlines);
            fflush (stdout);
            _exit (0);
          }
        if (pid < 0) { printf ("o crash fork\n"); }
        else
          {
            while (waitpid (pid, &status, 0) < 0) ;
            if (WIFSIGNALED (status)) printf ("o crash signal %d\n", WTERMSIG (status));
            else if (WIFEXITED (status) && WEXITSTATUS (status) != 0)
              printf ("o crash exit %d\n", WEXITSTATUS (status));
          }
        puts ("end");
        fflush (stdout);
        for (k = 0; k < nlines; k++) free (lines[k]);
        nlines = 0; in_case = 0;
      }
    }
  return 0;
}
