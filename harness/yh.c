/* yh.c -- correspondence harness: drives the real yaep library (C build, or class yaep
   when compiled as C++ with -DYH_CXX) in-process from a case file and prints canonical
   observations.  Every input line is echoed; observation lines start with "o ".
   One forked child per case, so a crash costs one case.  See DESIGN.md appendix A.  */
#include <stdio.h>
#include <stdlib.h>
#include <string.h>
#include <limits.h>
#include <unistd.h>
#include <signal.h>
#include <sys/wait.h>
#include <sys/types.h>
#include <fcntl.h>
#include "yaep.h"

#ifdef YH_CXX
typedef yaep *G;
#define G_CREATE() (new yaep ())
#define G_FREE(g) delete (g)
#define G_ERRCODE(g) (g)->error_code ()
#define G_ERRMSG(g) (g)->error_message ()
#define G_READ(g,s,a,b) (g)->read_grammar (s, a, b)
#define G_DESCR(g,s,t) (g)->parse_grammar (s, t)
#define G_SET_LA(g,v) (g)->set_lookahead_level (v)
#define G_SET_DEBUG(g,v) (g)->set_debug_level (v)
#define G_SET_ONE(g,v) (g)->set_one_parse_flag (v)
#define G_SET_COST(g,v) (g)->set_cost_flag (v)
#define G_SET_REC(g,v) (g)->set_error_recovery_flag (v)
#define G_SET_MATCH(g,v) (g)->set_recovery_match (v)
#define G_PARSE(g,a,b,c,d,e,f) (g)->parse (a, b, c, d, e, f)
#define G_FREE_TREE(r,f,t) yaep::free_tree (r, f, t)
#else
typedef struct grammar *G;
#define G_CREATE() yaep_create_grammar ()
#define G_FREE(g) yaep_free_grammar (g)
#define G_ERRCODE(g) yaep_error_code (g)
#define G_ERRMSG(g) yaep_error_message (g)
#define G_READ(g,s,a,b) yaep_read_grammar (g, s, a, b)
#define G_DESCR(g,s,t) yaep_parse_grammar (g, s, t)
#define G_SET_LA(g,v) yaep_set_lookahead_level (g, v)
#define G_SET_DEBUG(g,v) yaep_set_debug_level (g, v)
#define G_SET_ONE(g,v) yaep_set_one_parse_flag (g, v)
#define G_SET_COST(g,v) yaep_set_cost_flag (g, v)
#define G_SET_REC(g,v) yaep_set_error_recovery_flag (g, v)
#define G_SET_MATCH(g,v) yaep_set_recovery_match (g, v)
#define G_PARSE(g,a,b,c,d,e,f) yaep_parse (g, a, b, c, d, e, f)
#define G_FREE_TREE(r,f,t) yaep_free_tree (r, f, t)
#endif

#ifdef YAEP_VERIF
extern FILE *yaep_verif_out;
extern int yaep_verif_flags;
extern const char *yaep_verif_prefix;
#ifndef YH_CXX
extern unsigned int all_searches, all_collisions;	/* hashtab.c */
#endif
extern unsigned yaep_verif_hash_mask;	/* weak-hash runs: only these bits of every hash value count */
#endif

/* ---------------------------------------------------------------- library allocator
   allocate.c is compiled with malloc/calloc/realloc/free renamed to these. */
#ifdef __cplusplus
extern "C" {
#endif
void *vh_malloc (size_t n);
void *vh_calloc (size_t a, size_t b);
void *vh_realloc (void *p, size_t n);
void vh_free (void *p);
#ifdef __cplusplus
}
#endif
static long lib_live_blocks, lib_allocs, lib_bytes_requested;
static long fail_at = -1;	/* the fail_at-th allocation from now fails (1-based); -1 = never */
static long fail_fired;
static int
should_fail (void)
{
  lib_allocs++;
  if (fail_at > 0 && --fail_at == 0)
    {
      fail_at = -1;
      fail_fired++;
      return 1;
    }
  return 0;
}
void *
vh_malloc (size_t n)
{
  void *p;
  if (should_fail ())
    return NULL;
  lib_bytes_requested += n;
  p = malloc (n);
  if (p != NULL)
    lib_live_blocks++;
  return p;
}
void *
vh_calloc (size_t a, size_t b)
{
  void *p;
  if (should_fail ())
    return NULL;
  lib_bytes_requested += a * b;
  p = calloc (a, b);
  if (p != NULL)
    lib_live_blocks++;
  return p;
}
void *
vh_realloc (void *q, size_t n)
{
  void *p;
  if (should_fail ())
    return NULL;
  lib_bytes_requested += n;
  p = realloc (q, n);
  if (q == NULL && p != NULL)
    lib_live_blocks++;
  return p;
}
void
vh_free (void *p)
{
  if (p != NULL)
    lib_live_blocks--;
  free (p);
}

/* ---------------------------------------------------------------- case data */
#define MAXG 8
#define MAXT 3000
#define MAXR 3000
#define MAXRHS 640
#define MAXTEXT 8
#define MAXH 4
#define MAXTOK 600000
#define MAXLINE (1 << 22)

struct gterm { char *name; int code; };
struct grule
{
  char *lhs; char *anode; int cost; int nrhs; char *rhs[MAXRHS + 1];
  int has_tr; int ntr; int tr[MAXRHS + 2];
};
struct gram { int strict; int nterm, nrule; struct gterm *terms; struct grule *rules; };
static struct gram grams[MAXG];
static char *texts[MAXTEXT];

/* Uninitialised stack memory that ends up in a result must show: before every definition the part
   of the stack the library is going to use is filled with a pattern (ASan does not see reads of
   uninitialised memory).  */
#define POISON 0xAB
static void __attribute__ ((noinline))
poison_stack (void)
{
  volatile unsigned char buf[24576];
  size_t i;
  for (i = 0; i < sizeof buf; i++) buf[i] = POISON;
}
static int
count_poison (const char *m)
{
  int n = 0;
  for (; *m; m++) if ((unsigned char) *m == POISON) n++;
  return n;
}
/* Number of pattern bytes in what the caller passed (names, description text): a message may
   repeat those.  */
static int input_poison;
static G handles[MAXH];
static int opn;			/* current op number */
static char prefix[64];

/* ---------------------------------------------------------------- definition callbacks
   Everything handed to the library is a fresh heap copy that is scribbled over and freed
   right after the defining call (C13: definitions are copied). */
static struct gram *cur_gram;
static int ti, ri;
#define MAXTMP 4096
static void *tmp_blocks[MAXTMP]; static size_t tmp_sizes[MAXTMP]; static int ntmp;
static void *
tmp_copy (const void *p, size_t n)
{
  void *q = malloc (n ? n : 1);
  memcpy (q, p, n);
  if (ntmp < MAXTMP) { tmp_blocks[ntmp] = q; tmp_sizes[ntmp] = n; ntmp++; }
  return q;
}
static void
tmp_release (void)
{
  int i;
  for (i = 0; i < ntmp; i++) { memset (tmp_blocks[i], 0x5a, tmp_sizes[i]); free (tmp_blocks[i]); }
  ntmp = 0;
}
static const char *
cb_read_terminal (int *code)
{
  struct gterm *t;
  if (ti >= cur_gram->nterm) return NULL;
  t = &cur_gram->terms[ti++];
  *code = t->code;
  return (const char *) tmp_copy (t->name, strlen (t->name) + 1);
}
static const char *
cb_read_rule (const char ***rhs, const char **anode, int *cost, int **transl)
{
  struct grule *r; const char **v; int i;
  if (ri >= cur_gram->nrule) return NULL;
  r = &cur_gram->rules[ri++];
  v = (const char **) tmp_copy (r->rhs, sizeof (char *) * (r->nrhs + 1));
  for (i = 0; i < r->nrhs; i++) v[i] = (const char *) tmp_copy (r->rhs[i], strlen (r->rhs[i]) + 1);
  v[r->nrhs] = NULL;
  *rhs = v;
  *anode = r->anode ? (const char *) tmp_copy (r->anode, strlen (r->anode) + 1) : NULL;
  *cost = r->cost;
  if (r->has_tr) { int *t = (int *) tmp_copy (r->tr, sizeof (int) * (r->ntr + 1)); t[r->ntr] = -1; *transl = t; }
  else *transl = NULL;
  return (const char *) tmp_copy (r->lhs, strlen (r->lhs) + 1);
}

/* ---------------------------------------------------------------- parse callbacks */
static int *ptoks; static int nptoks, tpos; static int *pattrs;
static int
cb_read_token (void **attr)
{
  if (tpos >= nptoks) { *attr = NULL; return -1; }
  *attr = &pattrs[tpos];
  return ptoks[tpos++];
}
static long
attr_index (void *a)
{
  if (a == NULL) return -1;
  if ((int *) a >= pattrs && (int *) a < pattrs + nptoks + 1) return (long) ((int *) a - pattrs);
  return -2;
}
static int nse;
static void
cb_syntax_error (int err, void *ea, int ign, void *ia, int rec, void *ra)
{
  nse++;
  printf ("%sse %d %ld %d %ld %d %ld\n", prefix, err, attr_index (ea), ign, attr_index (ia), rec, attr_index (ra));
}

/* caller-side tree memory: every block gets an id; frees are checked */
struct blk { char *p; size_t n; int live; int parse; };
static struct blk *blks; static int nblk, capblk; static int cur_parse; static int quiet_ev;
/* open-addressing index: block start address -> block number (latest block at that address) */
static int *bidx; static size_t bidx_cap;
static size_t bhash (void *p) { size_t x = (size_t) p; x ^= x >> 17; x *= 0x9E3779B97F4A7C15ull; return x ^ (x >> 29); }
static void
bidx_put (void *p, int id)
{
  size_t i;
  if ((size_t) (nblk + 1) * 2 > bidx_cap)
    {
      size_t nc = bidx_cap ? bidx_cap * 2 : 4096, k; int j;
      int *n = (int *) malloc (nc * sizeof (int));
      for (k = 0; k < nc; k++) n[k] = -1;
      for (j = 0; j < nblk; j++)
	{ size_t h = bhash (blks[j].p) & (nc - 1); while (n[h] >= 0 && blks[n[h]].p != blks[j].p) h = (h + 1) & (nc - 1); n[h] = j; }
      free (bidx); bidx = n; bidx_cap = nc;
    }
  i = bhash (p) & (bidx_cap - 1);
  while (bidx[i] >= 0 && blks[bidx[i]].p != (char *) p) i = (i + 1) & (bidx_cap - 1);
  bidx[i] = id;
}
static int
bidx_get (void *p)
{
  size_t i;
  if (bidx_cap == 0) return -1;
  i = bhash (p) & (bidx_cap - 1);
  while (bidx[i] >= 0) { if (blks[bidx[i]].p == (char *) p) return bidx[i]; i = (i + 1) & (bidx_cap - 1); }
  return -1;
}
static long ev_alloc, ev_free, ev_bad;
static void *
cb_parse_alloc (int n)
{
  char *p = (char *) malloc (n > 0 ? n : 1);
  if (nblk == capblk) { capblk = capblk ? capblk * 2 : 1024; blks = (struct blk *) realloc (blks, capblk * sizeof *blks); }
  blks[nblk].p = p; blks[nblk].n = n; blks[nblk].live = 1; blks[nblk].parse = cur_parse;
  bidx_put (p, nblk);
  if (!quiet_ev) printf ("%sev a %d %d\n", prefix, nblk, n);
  nblk++; ev_alloc++;
  return p;
}
static int
find_blk (void *p)
{
  return bidx_get (p);
}
static int last_node_blk = -1;
static int
containing_blk (void *p)
{
  int i = bidx_get (p);
  if (i >= 0 && blks[i].live) return i;
  /* children arrays live inside the block of their abstract node */
  if (last_node_blk >= 0 && blks[last_node_blk].live && (char *) p >= blks[last_node_blk].p
      && (char *) p < blks[last_node_blk].p + (blks[last_node_blk].n ? blks[last_node_blk].n : 1)) return last_node_blk;
  for (i = nblk - 1; i >= 0; i--)
    if (blks[i].live && (char *) p >= blks[i].p && (char *) p < blks[i].p + (blks[i].n ? blks[i].n : 1)) return i;
  return -1;
}
static int free_ctx_parse = -1;	/* the parse whose blocks may be released now (-1: not judged) */
static void
cb_parse_free (void *p)
{
  int i;
  if (p == NULL) { if (!quiet_ev) printf ("%sev fnull\n", prefix); return; }
  i = find_blk (p);
  ev_free++;
  if (i < 0) { printf ("%sev fbad unknown\n", prefix); ev_bad++; return; }
  if (!blks[i].live) { printf ("%sev fbad double %d\n", prefix, i); ev_bad++; return; }
  /* C13: a block handed to parse_free was returned by parse_alloc during the same yaep_parse */
  if (free_ctx_parse >= 0 && blks[i].parse != free_ctx_parse) { printf ("%sev fbad foreign %d %d\n", prefix, i, blks[i].parse); ev_bad++; }
  if (!quiet_ev) printf ("%sev f %d %d\n", prefix, i, blks[i].parse);
  blks[i].live = 0;
  free (p);
}
static int in_parse_call;
static void
cb_parse_free_in_parse (void *p)
{
  cb_parse_free (p);
}

/* ---------------------------------------------------------------- tree export
   ids in post-order (children first), so that the table is a topological order iff
   the graph is acyclic. */
struct nid { struct yaep_tree_node *n; int id; int state; };
static struct nid *nids; static int nnid, capnid, next_id;
static int *nidx; static size_t nidx_cap;
static void
nid_reset (void)
{
  size_t k;
  nnid = 0;
  for (k = 0; k < nidx_cap; k++) nidx[k] = -1;
}
static struct nid *
nid_get (struct yaep_tree_node *n)
{
  size_t h;
  if ((size_t) (nnid + 1) * 2 > nidx_cap)
    {
      size_t nc = nidx_cap ? nidx_cap * 2 : 4096, k; int t;
      free (nidx); nidx = (int *) malloc (nc * sizeof (int)); nidx_cap = nc;
      for (k = 0; k < nc; k++) nidx[k] = -1;
      for (t = 0; t < nnid; t++)
	{ h = bhash (nids[t].n) & (nc - 1); while (nidx[h] >= 0) h = (h + 1) & (nc - 1); nidx[h] = t; }
    }
  h = bhash (n) & (nidx_cap - 1);
  while (nidx[h] >= 0) { if (nids[nidx[h]].n == n) return &nids[nidx[h]]; h = (h + 1) & (nidx_cap - 1); }
  if (nnid == capnid) { capnid = capnid ? capnid * 2 : 1024; nids = (struct nid *) realloc (nids, capnid * sizeof *nids); }
  nids[nnid].n = n; nids[nnid].id = -1; nids[nnid].state = 0;
  nidx[h] = nnid;
  return &nids[nnid++];
}
static int reach_bad;
static void
check_reach (void *p, const char *what)
{
  if (blks == NULL && nblk == 0) return;
  int b = containing_blk (p);
  if (b < 0) { printf ("%sreachbad %s\n", prefix, what); reach_bad++; }
  else if (!strcmp (what, "node")) last_node_blk = b;
}
static int check_reach_p;
static int
export_node (struct yaep_tree_node *n)
{
  struct nid *e = nid_get (n);
  int idx = (int) (e - nids);
  int k, i, my;
  if (e->state == 2) return e->id;
  if (e->state == 1) { printf ("%scycle\n", prefix); return -1; }
  e->state = 1;
  if (check_reach_p) check_reach (n, "node");
  switch (n->type)
    {
    case YAEP_NIL: my = next_id++; printf ("%snode %d nil\n", prefix, my); break;
    case YAEP_ERROR: my = next_id++; printf ("%snode %d err\n", prefix, my); break;
    case YAEP_TERM:
      my = next_id++;
      printf ("%snode %d term %d %ld\n", prefix, my, n->val.term.code, attr_index (n->val.term.attr));
      break;
    case YAEP_ANODE:
      {
	int *kids;
	if (check_reach_p) { check_reach (n->val.anode.children, "children"); check_reach ((void *) n->val.anode.name, "name"); }
	for (k = 0; n->val.anode.children[k] != NULL; k++) ;
	kids = (int *) malloc (sizeof (int) * (k + 1));
	for (i = 0; i < k; i++) kids[i] = export_node (n->val.anode.children[i]);
	my = next_id++;
	printf ("%snode %d anode %s %d", prefix, my, n->val.anode.name[0] ? n->val.anode.name : "@empty", n->val.anode.cost);
	for (i = 0; i < k; i++) printf (" %d", kids[i]);
	printf ("\n");
	/* which block holds the name (one per rule in the library, shared by the nodes of the rule) */
	if (check_reach_p) printf ("%snameblk %d %d\n", prefix, my, containing_blk ((void *) n->val.anode.name));
	free (kids);
	break;
      }
    case YAEP_ALT:
      {
	struct yaep_tree_node *a; int cnt = 0; int *kids; int nested = 0;
	for (a = n; a != NULL; a = a->val.alt.next) cnt++;
	kids = (int *) malloc (sizeof (int) * (cnt + 1));
	for (a = n, i = 0; a != NULL; a = a->val.alt.next, i++)
	  {
	    if (a != n && check_reach_p) check_reach (a, "altnode");
	    if (a->type != YAEP_ALT) { printf ("%sbadalt chain type %d\n", prefix, (int) a->type); kids[i] = -1; break; }
	    if (a->val.alt.node->type == YAEP_ALT) nested++;
	    kids[i] = export_node (a->val.alt.node);
	  }
	my = next_id++;
	printf ("%snode %d alt", prefix, my);
	for (i = 0; i < cnt; i++) printf (" %d", kids[i]);
	printf ("\n");
	if (nested) printf ("%snestedalt %d\n", prefix, my);
	free (kids);
	break;
      }
    default:
      my = next_id++;
      printf ("%snode %d bad %d\n", prefix, my, (int) n->type);
    }
  e = &nids[idx];
  e->state = 2; e->id = my;
  return my;
}

/* ---------------------------------------------------------------- parse bookkeeping */
#define MAXPARSE 64
struct pres { struct yaep_tree_node *root; int freekind; int parse_id; int freed; int *attrs; int nattrs; };
static struct pres results[MAXH][MAXPARSE]; static int nres[MAXH];
static int n_termcb;
static void
cb_term (struct yaep_term *t)
{
  n_termcb++;
  if (!quiet_ev) printf ("%sev t %d %ld\n", prefix, t->code, attr_index (t->attr));
}

static int notree;		/* do not export trees (long inputs) */

static void
do_parse (int h, const char *alloc_kind, const char *free_kind, int hookflags, int *toks, int ntoks)
{
  struct yaep_tree_node *root = NULL; int amb = -1, rc, i;
  void *(*af) (int) = NULL; void (*ff) (void *) = NULL;
  if (handles[h] == NULL) { printf ("%sparse nohandle\n", prefix); return; }
  ptoks = toks; nptoks = ntoks; tpos = 0;
  pattrs = (int *) malloc (sizeof (int) * (ntoks + 2));
  for (i = 0; i < ntoks + 2; i++) pattrs[i] = i;
  cur_parse++;
  nse = 0;
  if (!strcmp (alloc_kind, "user")) af = cb_parse_alloc;
  if (!strcmp (free_kind, "user")) ff = cb_parse_free_in_parse;
#ifdef YAEP_VERIF
  yaep_verif_out = stdout; yaep_verif_flags = hookflags; yaep_verif_prefix = prefix;
#endif
  in_parse_call = 1;
  free_ctx_parse = cur_parse;
  rc = G_PARSE (handles[h], cb_read_token, cb_syntax_error, af, ff, &root, &amb);
  free_ctx_parse = -1;
  in_parse_call = 0;
#ifdef YAEP_VERIF
  yaep_verif_flags = 0;
#endif
  printf ("%sparse rc=%d amb=%d root=%s nse=%d code=%d\n", prefix, rc, amb, root ? "tree" : "null", nse, G_ERRCODE (handles[h]));
  if (rc != 0)
    { const char *m = G_ERRMSG (handles[h]); printf ("%smsg %d %s\n", prefix, (int) strlen (m), m); }
  if (rc == 0 && root != NULL && notree) printf ("%snotree 1\n", prefix);
  if (rc == 0 && root != NULL && !notree)
    {
      int rid;
      nid_reset (); next_id = 0; reach_bad = 0;
      check_reach_p = (af == cb_parse_alloc);
      rid = export_node (root);
      printf ("%sroot %d\n", prefix, rid);
    }
  if (af == cb_parse_alloc)
    {
      int live = 0;
      for (i = 0; i < nblk; i++) if (blks[i].parse == cur_parse && blks[i].live) live++;
      printf ("%smem allocs=%ld frees=%ld bad=%ld liveblocks=%d\n", prefix, ev_alloc, ev_free, ev_bad, live);
    }
  if (nres[h] < MAXPARSE)
    {
      struct pres *r = &results[h][nres[h]++];
      r->root = rc == 0 ? root : NULL; r->parse_id = cur_parse; r->freed = 0; r->attrs = pattrs; r->nattrs = ntoks;
      /* (user alloc, NULL free): the tree must not be freed with yaep_free_tree (yaep.h) */
      r->freekind = (af == cb_parse_alloc && ff != NULL) ? 1 : (af == NULL && ff == NULL ? 2 : 0);
    }
  /* attrs stay allocated: TERM nodes point into them until the case ends */
}

static void
do_freetree (int h, int slot, int walk_first)
{
  struct pres *r; int i, live = 0;
  if (slot < 0 || slot >= nres[h]) { printf ("%sfreetree noslot\n", prefix); return; }
  r = &results[h][slot];
  if (r->freed) { printf ("%sfreetree already\n", prefix); return; }
  pattrs = r->attrs; nptoks = r->nattrs;
  if (walk_first && r->root != NULL)
    {
      /* re-walk the tree (after the grammar may have been freed): touches every node */
      int rid; nid_reset (); next_id = 0; check_reach_p = (r->freekind == 1);
      rid = export_node (r->root);
      printf ("%sroot %d\n", prefix, rid);
    }
  n_termcb = 0;
  cur_parse = cur_parse;	/* frees are attributed by block */
  if (r->freekind == 1) { free_ctx_parse = r->parse_id; G_FREE_TREE (r->root, cb_parse_free, cb_term); free_ctx_parse = -1; }
  else if (r->freekind == 2) G_FREE_TREE (r->root, NULL, cb_term);
  else { printf ("%sfreetree skipped\n", prefix); return; }
  r->freed = 1;
  if (r->freekind == 1)
    for (i = 0; i < nblk; i++) if (blks[i].parse == r->parse_id && blks[i].live) live++;
  printf ("%sfreetree termcb=%d liveblocks=%d bad=%ld kind=%d\n", prefix, n_termcb, live, ev_bad, r->freekind);
}

/* ---------------------------------------------------------------- case reader */
static char *line; static char **clines; static int nclines, capclines;
static char *
xstrdup (const char *s) { char *r = (char *) malloc (strlen (s) + 1); strcpy (r, s); return r; }
static int
hexval (int c) { return c >= '0' && c <= '9' ? c - '0' : c >= 'a' && c <= 'f' ? c - 'a' + 10 : c >= 'A' && c <= 'F' ? c - 'A' + 10 : 0; }

static void
run_case (int case_timeout)
{
  int li; struct gram *g = NULL; char *save;
  alarm (case_timeout);
  for (li = 0; li < nclines; li++)
    {
      char *l = xstrdup (clines[li]);
      char *w = strtok_r (l, " \n", &save);
      if (w == NULL) { free (l); continue; }
      if (!strcmp (w, "watchdog"))
	{
	  /* a case may set its own time limit (seconds) */
	  char *t = strtok_r (NULL, " \n", &save);
	  if (t != NULL && atoi (t) > 0) alarm (atoi (t));
	}
      else if (!strcmp (w, "gram"))
	{
	  int gid = atoi (strtok_r (NULL, " \n", &save));
	  g = &grams[gid];
	  g->strict = atoi (strtok_r (NULL, " \n", &save));
	  g->nterm = g->nrule = 0;
	  g->terms = (struct gterm *) calloc (MAXT, sizeof (struct gterm));
	  g->rules = (struct grule *) calloc (MAXR, sizeof (struct grule));
	}
      else if (!strcmp (w, "term") && g && g->nterm < MAXT)
	{
	  g->terms[g->nterm].name = xstrdup (strtok_r (NULL, " \n", &save));
	  g->terms[g->nterm].code = atoi (strtok_r (NULL, " \n", &save));
	  g->nterm++;
	}
      else if (!strcmp (w, "rule") && g && g->nrule < MAXR)
	{
	  struct grule *r = &g->rules[g->nrule++]; char *a; int k, i;
	  r->lhs = xstrdup (strtok_r (NULL, " \n", &save));
	  a = strtok_r (NULL, " \n", &save);
	  r->anode = strcmp (a, "-") ? xstrdup (strcmp (a, "@empty") ? a : "") : NULL;	/* "@empty" = the empty string */
	  r->cost = atoi (strtok_r (NULL, " \n", &save));
	  k = atoi (strtok_r (NULL, " \n", &save));
	  if (k > MAXRHS) k = MAXRHS;
	  r->nrhs = k;
	  for (i = 0; i < k; i++) r->rhs[i] = xstrdup (strtok_r (NULL, " \n", &save));
	  r->rhs[k] = NULL;
	  strtok_r (NULL, " \n", &save);	/* "/" */
	  a = strtok_r (NULL, " \n", &save);
	  if (!strcmp (a, "X")) r->has_tr = 0;
	  else
	    {
	      r->has_tr = 1; r->ntr = atoi (a);
	      if (r->ntr > MAXRHS) r->ntr = MAXRHS;
	      for (i = 0; i < r->ntr; i++) { char *t = strtok_r (NULL, " \n", &save); r->tr[i] = !strcmp (t, "N") ? INT_MAX : atoi (t); }
	    }
	}
      else if (!strcmp (w, "text"))
	{
	  int tid = atoi (strtok_r (NULL, " \n", &save)); char *hx = strtok_r (NULL, " \n", &save); size_t n, i;
	  if (hx == NULL) hx = (char *) "";
	  n = strlen (hx) / 2;
	  texts[tid] = (char *) malloc (n + 1);
	  for (i = 0; i < n; i++) texts[tid][i] = (char) (hexval (hx[2 * i]) * 16 + hexval (hx[2 * i + 1]));
	  texts[tid][n] = 0;
	}
      else if (!strcmp (w, "notree")) notree = 1;
      else if (!strcmp (w, "quietev")) quiet_ev = 1;
      else if (!strcmp (w, "op"))
	{
	  char *cmd; int h;
	  opn = atoi (strtok_r (NULL, " \n", &save));
	  snprintf (prefix, sizeof prefix, "o %d ", opn);
	  cmd = strtok_r (NULL, " \n", &save);
	  h = atoi (strtok_r (NULL, " \n", &save));
	  if (h < 0 || h >= MAXH) h = 0;
	  if (!strcmp (cmd, "create"))
	    {
	      handles[h] = G_CREATE ();
	      nres[h] = 0;
	      printf ("%screate %s\n", prefix, handles[h] ? "ok" : "null");
	    }
	  else if (!strcmp (cmd, "counters"))
	    {
	      /* a long-running process: the process-wide statistics counters of the hash tables have
	         (almost) reached INT_MAX (finding D33) */
#ifndef YH_CXX
	      all_searches = all_collisions = (unsigned) atol (strtok_r (NULL, " \n", &save));
#endif
	      printf ("%scounters\n", prefix);
	    }
	  else if (!strcmp (cmd, "failat"))
	    {
	      /* the h-th library allocation from now on fails */
	      fail_at = atol (strtok_r (NULL, " \n", &save));
	      printf ("%sfailat\n", prefix);
	    }
	  else if (handles[h] == NULL && strcmp (cmd, "freetree"))
	    printf ("%snohandle\n", prefix);
	  else if (!strcmp (cmd, "def"))
	    {
	      int gid = atoi (strtok_r (NULL, " \n", &save)), rc; const char *m;
	      cur_gram = &grams[gid]; ti = ri = 0;
#ifdef YAEP_VERIF
	      yaep_verif_out = stdout; yaep_verif_flags = 1; yaep_verif_prefix = prefix;
#endif
	      poison_stack ();
	      rc = G_READ (handles[h], cur_gram->strict, cb_read_terminal, cb_read_rule);
#ifdef YAEP_VERIF
	      yaep_verif_flags = 0;
#endif
	      tmp_release ();
	      m = G_ERRMSG (handles[h]);
	      printf ("%sdef rc=%d code=%d msglen=%d poison=%d\n", prefix, rc, G_ERRCODE (handles[h]), (int) strlen (m), count_poison (m) > input_poison);
	      if (rc != 0) printf ("%smsg %d %s\n", prefix, (int) strlen (m), m);
	    }
	  else if (!strcmp (cmd, "descr"))
	    {
	      int tid = atoi (strtok_r (NULL, " \n", &save)); int strict = atoi (strtok_r (NULL, " \n", &save)), rc;
	      size_t n = strlen (texts[tid]); const char *m;
	      char *copy = (char *) malloc (n + 1);	/* exact-size copy: over-reads are visible */
	      memcpy (copy, texts[tid], n + 1);
#ifdef YAEP_VERIF
	      yaep_verif_out = stdout; yaep_verif_flags = 1; yaep_verif_prefix = prefix;
#endif
	      poison_stack ();
	      input_poison += count_poison (copy);
	      rc = G_DESCR (handles[h], strict, copy);
#ifdef YAEP_VERIF
	      yaep_verif_flags = 0;
#endif
	      memset (copy, 0x5a, n + 1); free (copy);
	      m = G_ERRMSG (handles[h]);
	      printf ("%sdef rc=%d code=%d msglen=%d poison=%d\n", prefix, rc, G_ERRCODE (handles[h]), (int) strlen (m), count_poison (m) > input_poison);
	      if (rc != 0) printf ("%smsg %d %s\n", prefix, (int) strlen (m), m);
	    }
	  else if (!strcmp (cmd, "set"))
	    {
	      char *what = strtok_r (NULL, " \n", &save); int v = atoi (strtok_r (NULL, " \n", &save)), prev = 0;
	      if (!strcmp (what, "la")) prev = G_SET_LA (handles[h], v);
	      else if (!strcmp (what, "debug")) prev = G_SET_DEBUG (handles[h], v);
	      else if (!strcmp (what, "one")) prev = G_SET_ONE (handles[h], v);
	      else if (!strcmp (what, "cost")) prev = G_SET_COST (handles[h], v);
	      else if (!strcmp (what, "rec")) prev = G_SET_REC (handles[h], v);
	      else if (!strcmp (what, "match")) prev = G_SET_MATCH (handles[h], v);
	      printf ("%sset prev=%d\n", prefix, prev);
	    }
	  else if (!strcmp (cmd, "parse"))
	    {
	      char *ak = strtok_r (NULL, " \n", &save), *fk = strtok_r (NULL, " \n", &save);
	      int hf = atoi (strtok_r (NULL, " \n", &save)); char *t; int *toks; int nt = 0, cap = 64;
	      toks = (int *) malloc (sizeof (int) * cap);
	      while ((t = strtok_r (NULL, " \n", &save)) != NULL)
		{
		  if (!strcmp (t, "rep"))
		    {
		      /* rep <count> <k> c1..ck : repeated fragment (long inputs) */
		      int cnt = atoi (strtok_r (NULL, " \n", &save)), k = atoi (strtok_r (NULL, " \n", &save)), i, j;
		      int frag[64];
		      if (k > 64) k = 64;
		      for (i = 0; i < k; i++) frag[i] = atoi (strtok_r (NULL, " \n", &save));
		      for (j = 0; j < cnt; j++)
			for (i = 0; i < k; i++)
			  { if (nt == cap) { cap *= 2; toks = (int *) realloc (toks, sizeof (int) * cap); } toks[nt++] = frag[i]; }
		      continue;
		    }
		  if (nt == cap) { cap *= 2; toks = (int *) realloc (toks, sizeof (int) * cap); }
		  toks[nt++] = atoi (t);
		}
	      do_parse (h, ak, fk, hf, toks, nt);
	    }
	  else if (!strcmp (cmd, "freetree"))
	    {
	      int slot = atoi (strtok_r (NULL, " \n", &save)); char *wf = strtok_r (NULL, " \n", &save);
	      do_freetree (h, slot, wf != NULL && atoi (wf));
	    }
	  else if (!strcmp (cmd, "free"))
	    {
	      G_FREE (handles[h]); handles[h] = NULL;
	      printf ("%sfree ok\n", prefix);
	    }
	  else if (!strcmp (cmd, "err"))
	    {
	      const char *m = G_ERRMSG (handles[h]);
	      printf ("%serr code=%d msglen=%d\n", prefix, G_ERRCODE (handles[h]), (int) strlen (m));
	    }
	  else printf ("%sbadop\n", prefix);
	  printf ("%slib allocs=%ld live=%ld fired=%ld bytes=%ld\n", prefix, lib_allocs, lib_live_blocks, fail_fired, lib_bytes_requested);
	  fflush (stdout);
	}
      free (l);
    }
  alarm (0);
  printf ("o end live=%ld allocs=%ld bytes=%ld\n", lib_live_blocks, lib_allocs, lib_bytes_requested);
  fflush (stdout);
}

int
main (int argc, char **argv)
{
  FILE *in = stdin; int timeout = 20; int nofork = 0; int i;
  const char *errdir = ".";
  for (i = 1; i < argc; i++)
    if (!strcmp (argv[i], "-t") && i + 1 < argc) timeout = atoi (argv[++i]);
    else if (!strcmp (argv[i], "-e") && i + 1 < argc) errdir = argv[++i];
    else if (!strcmp (argv[i], "-n")) nofork = 1;
    else in = fopen (argv[i], "r");
  if (in == NULL) { perror ("open"); return 2; }
#ifdef YAEP_VERIF
  if (getenv ("YH_HASH_MASK") != NULL) yaep_verif_hash_mask = (unsigned) strtoul (getenv ("YH_HASH_MASK"), NULL, 0);
#endif
  line = (char *) malloc (MAXLINE);
  while (fgets (line, MAXLINE, in) != NULL)
    {
      size_t n = strlen (line);
      if (n && line[n - 1] == '\n') line[n - 1] = 0;
      if (strncmp (line, "case ", 5) == 0) { for (i = 0; i < nclines; i++) free (clines[i]); nclines = 0; }
      if (strncmp (line, "end", 3) == 0 && (line[3] == 0 || line[3] == ' '))
	{
	  pid_t pid; int st; char errpath[512];
	  for (i = 0; i < nclines; i++) puts (clines[i]);
	  fflush (stdout);
	  if (nofork) { run_case (timeout); puts ("end"); fflush (stdout); continue; }
	  snprintf (errpath, sizeof errpath, "%s/stderr.%d", errdir, (int) getpid ());
	  pid = fork ();
	  if (pid == 0)
	    {
	      int fd = open (errpath, O_WRONLY | O_CREAT | O_TRUNC, 0644);
	      if (fd >= 0) { dup2 (fd, 2); close (fd); }
	      run_case (timeout);
	      fflush (stdout);
	      _exit (0);
	    }
	  waitpid (pid, &st, 0);
	  if (!(WIFEXITED (st) && WEXITSTATUS (st) == 0))
	    {
	      FILE *ef = fopen (errpath, "r"); char buf[400]; int cnt = 0;
	      putchar ('\n');	/* the child may have died in the middle of a line */
	      if (WIFSIGNALED (st) && WTERMSIG (st) == SIGALRM) printf ("o crash timeout\n");
	      else if (WIFSIGNALED (st)) printf ("o crash signal %d\n", WTERMSIG (st));
	      else printf ("o crash exit %d\n", WEXITSTATUS (st));
	      if (ef)
		{
		  while (cnt < 25 && fgets (buf, sizeof buf, ef)) { size_t m = strlen (buf); if (m && buf[m - 1] == '\n') buf[m - 1] = 0; if (strstr (buf, "ERROR") || strstr (buf, "SUMMARY") || strstr (buf, "runtime error") || strstr (buf, "    #") || strstr (buf, "***")) { printf ("o ! %s\n", buf); cnt++; } }
		  fclose (ef);
		}
	    }
	  unlink (errpath);
	  puts ("end");
	  fflush (stdout);
	  continue;
	}
      if (nclines == capclines) { capclines = capclines ? capclines * 2 : 256; clines = (char **) realloc (clines, capclines * sizeof (char *)); }
      clines[nclines++] = xstrdup (line);
    }
  return 0;
}
