/* D33 demo: the process-wide statistics counters of hashtab.c (all_searches, all_collisions) are ints
   that are incremented for ever: a long-running process overflows them (signed overflow, undefined
   behaviour).  Public API only; build with -fsanitize=undefined, no verification hook.  */
#include <stdio.h>
#include <stdlib.h>
#include "yaep.h"
static int ntok, pos;
static int read_token (void **attr) { *attr = NULL; if (pos >= ntok) return -1; return (pos++ % 2 == 0) ? 'x' : ','; }
static void se (int a, void *b, int c, void *d, int e, void *f) { }
static void *pa (int n) { return malloc (n); }
static void pf (void *p) { free (p); }
int main (void)
{
  struct grammar *g = yaep_create_grammar ();
  struct yaep_tree_node *root; int amb, i;
  if (yaep_parse_grammar (g, 1, "L : L ',' 'x' # l (0 2) | 'x' # 0 ;") != 0) return 2;
  ntok = 200001;
  for (i = 0; i < 20000; i++)
    {
      pos = 0;
      if (yaep_parse (g, read_token, se, pa, pf, &root, &amb) != 0) return 3;
      yaep_free_tree (root, pf, NULL);
      if (i % 500 == 0) { fprintf (stderr, "parse %d done\n", i); }
    }
  yaep_free_grammar (g);
  puts ("OK");
  return 0;
}
