"""Design-time probe (NOT verification machinery): reference Earley sets for lookahead 0/1,
compared with the sets dumped by a patched scratch copy of yaep.c.  Usage:
  DMP=<scratch>/dmp python3 ref_sets_la01.py <seed> <n-grammars>
"""
import random, subprocess, sys, itertools, os
DMP=os.environ.get('DMP','./dmp')
def gen_grammar(rnd):
    nts=['S','A','B','C'][:rnd.randint(1,4)]
    ts=["'a'","'b'","'c'"][:rnd.randint(1,3)]
    use_err = rnd.random()<0.3
    rules=[]
    for nt in nts:
        for _ in range(rnd.randint(1,3)):
            n=rnd.choice([0,1,1,2,2,3,4])
            rhs=[]
            for _ in range(n):
                r=rnd.random()
                if r<0.5: rhs.append(rnd.choice(nts))
                elif use_err and r<0.58: rhs.append('error')
                else: rhs.append(rnd.choice(ts))
            rules.append((nt,rhs))
    # dedupe identical rules
    seen=set(); out=[]
    for l,r in rules:
        k=(l,tuple(r))
        if k in seen: continue
        seen.add(k); out.append((l,r))
    txt="TERM;\n"+"\n".join("%s : %s ;"%(l," ".join(r)) for l,r in out)
    return txt, ts
def run(desc,inp,la,rec=0,strict=0):
    p=subprocess.run([DMP,desc,inp,str(la),str(rec),str(strict)],capture_output=True,text=True,timeout=20)
    rules={}; sets={}; res=None; ses=[]; gerr=None
    for line in p.stdout.splitlines():
        f=line.split()
        if not f: continue
        if f[0]=='RULE':
            rules[int(f[1])]=(f[2],f[4:])
        elif f[0]=='SET':
            sets[int(f[1])]=set(tuple(map(int,x.split(','))) for x in f[2:])
        elif f[0]=='PARSE': res=line
        elif f[0]=='SE': ses.append(tuple(map(int,f[1:])))
        elif f[0]=='GRAMMAR': gerr=line
    return rules,sets,res,ses,gerr,p.returncode,p.stderr
def analyse(rules):
    nts=set(l for l,_ in rules.values())
    syms=set(s for _,r in rules.values() for s in r)|nts
    terms=syms-nts
    nullable=set()
    ch=True
    while ch:
        ch=False
        for l,r in rules.values():
            if l not in nullable and all(s in nullable for s in r):
                nullable.add(l); ch=True
    first={n:set() for n in nts}; follow={n:set() for n in nts}
    ch=True
    while ch:
        ch=False
        for l,r in rules.values():
            cont=True
            for j,s in enumerate(r):
                if s in terms:
                    if cont and s not in first[l]: first[l].add(s); ch=True
                else:
                    if cont and not first[s]<=first[l]: first[l]|=first[s]; ch=True
                    k=j+1
                    while k<len(r):
                        t=r[k]
                        add={t} if t in terms else first[t]
                        if not add<=follow[s]: follow[s]|=add; ch=True
                        if t not in nullable: break
                        k+=1
                    if k==len(r) and not follow[l]<=follow[s]: follow[s]|=follow[l]; ch=True
                if s not in nullable: cont=False
    return nts,terms,nullable,first,follow
def ref_sets(rules,toks,la):
    nts,terms,nullable,first,follow=analyse(rules)
    def LA(r,d):
        l,rhs=rules[r]; out=set(); 
        for s in rhs[d:]:
            out |= ({s} if s in terms else first[s])
            if s not in nullable: return out
        return out|follow[l]
    def ok(r,d,nxt):
        if la==0 or nxt is None: return True
        L=LA(r,d); return nxt in L or 'error' in L
    def closure(S,j):
        work=list(S)
        while work:
            r,d,i=work.pop()
            rhs=rules[r][1]
            if d<len(rhs):
                s=rhs[d]
                if s in nts:
                    for r2,(l2,_) in rules.items():
                        if l2==s and (r2,0,j) not in S: S.add((r2,0,j)); work.append((r2,0,j))
                    if s in nullable and (r,d+1,i) not in S: S.add((r,d+1,i)); work.append((r,d+1,i))
        return S
    sets=[]
    S0=set((r,0,0) for r,(l,_) in rules.items() if l=='$S')
    sets.append(closure(S0,0))
    full=toks+['$eof']
    for j,t in enumerate(full):
        nxt=full[j+1] if j+1<len(full) else None
        prev=sets[j]
        if not any(rules[r][1][d:d+1]==[t] for r,d,i in prev): break
        start=[]; seen=set()
        for (r,d,i) in prev:
            if rules[r][1][d:d+1]==[t] and ok(r,d+1,nxt) and (r,d+1,i) not in seen:
                seen.add((r,d+1,i)); start.append((r,d+1,i))
        k=0
        while k<len(start):
            r,d,i=start[k]; k+=1
            if all(s in nullable for s in rules[r][1][d:]):
                l=rules[r][0]
                for (r2,d2,i2) in sets[i]:
                    if rules[r2][1][d2:d2+1]==[l] and ok(r2,d2+1,nxt) and (r2,d2+1,i2) not in seen:
                        seen.add((r2,d2+1,i2)); start.append((r2,d2+1,i2))
        sets.append(closure(set(start),j+1))
    return sets
if __name__=='__main__':
    seed=int(sys.argv[1]); n=int(sys.argv[2]); rnd=random.Random(seed)
    bad=0; tot=0; nsets=0; rej=0; acc=0
    for it in range(n):
        desc,ts=gen_grammar(rnd)
        for _ in range(4):
            inp="".join(rnd.choice(ts)[1] for _ in range(rnd.randint(0,6)))
            for la in (0,1):
                rules,sets,res,ses,gerr,rc,err=run(desc,inp,la)
                if gerr: rej+=1; break
                if rc!=0 or res is None: print("CRASH",repr(desc),inp,la,err[-300:]); bad+=1; continue
                tot+=1
                ref=ref_sets(rules,[ "'%s'"%c for c in inp],la)
                if 'tree' in res: acc+=1
                for j in sorted(sets):
                    nsets+=1
                    if j>=len(ref) or sets[j]!=ref[j]:
                        bad+=1; print("MISMATCH la=%d j=%d"%(la,j)); print(desc); print("input",inp); print(" impl-ref",sorted(sets[j]-(ref[j] if j<len(ref) else set()))); print(" ref-impl",sorted((ref[j] if j<len(ref) else set())-sets[j])); break
                if sets and len(ref)!=len(sets) and not bad: print("LEN mismatch",len(ref),len(sets),desc,inp,la); bad+=1
    print("runs",tot,"sets",nsets,"accepted",acc,"grammar-rejected",rej,"bad",bad)
