"""Design-time probe (NOT verification machinery): reference sets for dynamic lookahead (level 2).
  DMP=<scratch>/dmp python3 ref_sets_la2.py <seed> <n-grammars>
"""
import random,sys
from ref_sets_la01 import *
def ref_sets2(rules,toks):
    nts,terms,nullable,first,follow=analyse(rules)
    def LA(r,d,ctx):
        l,rhs=rules[r]; out=set()
        for s in rhs[d:]:
            out |= ({s} if s in terms else first[s])
            if s not in nullable: return frozenset(out)
        return frozenset(out|ctx)
    def ok(r,d,ctx,nxt):
        if nxt is None: return True
        L=LA(r,d,ctx); return nxt in L or 'error' in L
    def expand(start,j):
        # start: list of (r,d,i,ctx) ; returns list of items (r,d,i,ctx)
        items=list(start)
        # derived nonstart
        for (r,d,i,ctx) in start:
            dd=d
            while dd<len(rules[r][1]) and rules[r][1][dd] in nullable:
                dd+=1; items.append((r,dd,i,ctx))
        nstartish=len(items)
        # initial items keyed by (r,d), context computed later
        init=[]  # list of (r,d)
        def add_init(r,d):
            if (r,d) not in init: init.append((r,d))
        seen_sym=set()
        k=0
        allitems=lambda: [(x[0],x[1]) for x in items]+init
        while k<len(items)+len(init):
            r,d=(items[k][0],items[k][1]) if k<len(items) else init[k-len(items)]
            rhs=rules[r][1]
            if d<len(rhs):
                s=rhs[d]
                if s not in seen_sym:
                    seen_sym.add(s)
                    if s in nts:
                        for r2,(l2,_) in rules.items():
                            if l2==s: add_init(r2,0)
                if s in nullable and k>=len(items): add_init(r,d+1)
            k+=1
        # contexts fixpoint
        ctxs={x:frozenset() for x in init}
        changed=True
        while changed:
            changed=False
            for (r,d) in init:
                l=rules[r][0]; c=set()
                for (r2,d2,i2,c2) in items:
                    if rules[r2][1][d2:d2+1]==[l]: c|=LA(r2,d2+1,c2)
                for (r2,d2) in init:
                    if rules[r2][1][d2:d2+1]==[l]: c|=LA(r2,d2+1,ctxs[(r2,d2)])
                c=frozenset(c)
                if c!=ctxs[(r,d)]: ctxs[(r,d)]=c; changed=True
        return items+[(r,d,j,ctxs[(r,d)]) for (r,d) in init]
    sets=[]
    S0=[(r,0,0,frozenset()) for r,(l,_) in rules.items() if l=='$S']
    sets.append(expand(S0,0))
    full=toks+['$eof']
    for j,t in enumerate(full):
        nxt=full[j+1] if j+1<len(full) else None
        prev=sets[j]
        if not any(rules[r][1][d:d+1]==[t] for r,d,i,c in prev): break
        start=[]
        for (r,d,i,c) in prev:
            if rules[r][1][d:d+1]==[t] and ok(r,d+1,c,nxt) and (r,d+1,i,c) not in start: start.append((r,d+1,i,c))
        k=0
        while k<len(start):
            r,d,i,c=start[k]; k+=1
            if all(s in nullable for s in rules[r][1][d:]):
                l=rules[r][0]
                for (r2,d2,i2,c2) in sets[i]:
                    if rules[r2][1][d2:d2+1]==[l] and ok(r2,d2+1,c2,nxt) and (r2,d2+1,i2,c2) not in start: start.append((r2,d2+1,i2,c2))
        sets.append(expand(start,j+1))
    return [set((r,d,i) for r,d,i,c in s) for s in sets]
if __name__=='__main__':
    seed=int(sys.argv[1]); n=int(sys.argv[2]); rnd=random.Random(seed); tot=0; bad=0; ns=0
    for it in range(n):
        desc,ts=gen_grammar(rnd)
        for _ in range(5):
            inp="".join(rnd.choice(ts)[1] for _ in range(rnd.randint(0,7)))
            rules,sets,res,ses,gerr,rc,err=run(desc,inp,2)
            if gerr: break
            if res is None or not sets: continue
            tot+=1
            ref=ref_sets2(rules,["'%s'"%c for c in inp])
            for j in sorted(sets):
                ns+=1
                if j>=len(ref) or sets[j]!=ref[j]:
                    bad+=1; print("MISMATCH j=%d"%j); print(desc); print("input",inp); print(" impl-ref",sorted(sets[j]-(ref[j] if j<len(ref) else set()))); print(" ref-impl",sorted((ref[j] if j<len(ref) else set())-sets[j])); break
    print("runs",tot,"sets",ns,"bad",bad)
