import Yaep.Driver.Judge
import Yaep.Model.PruneC
import Yaep.Lemmas.PruneCWit
/-!
# Differential test of the model of `find_minimal_translation` against the library

A script, not part of the library (nothing imports it).  Input (stdin): the output of the
harness `yh` (C build of /repo) on a case file, i.e. the echoed case lines and the observation
lines.  For every successful parse with the cost flag set it takes the parse list the hook
dumped (`set`, `pltoks`), runs the model of `make_parse` (all parses, as the library does under
the cost flag), converts the heap, runs `findMinimalTranslation` with the one-parse flag of
the object, exports the final heap with the model of the harness's `export_node` and compares
the lines with the `node` / `root` lines the harness printed: they must be identical.  It
also compares the number of `parse_free` calls (`ev f` lines; only when the abstract-node names
of the grammar are pairwise distinct, because the model is given one name block per name) and
checks `wfAuto` on the heap `make_parse` built.

    cd lean && python3 ../tools/gen.py 1 300 C04 > /tmp/c.cases
    <harness>/yh /tmp/c.cases > /tmp/c.out
    lake env lean --run scripts/PruneDiff.lean < /tmp/c.out
-/
open Yaep Yaep.Driver Yaep.PC

structure HS where
  g : Option Grammar := none
  one : Bool := true
  cost : Bool := false

structure Stats where
  ran : Nat := 0
  same : Nat := 0
  diff : Nat := 0
  wfBad : Nat := 0
  freesOk : Nat := 0
  freesBad : Nat := 0
  freesSkipped : Nat := 0
  pruned : Nat := 0     -- cases where something was freed by the pruning
  alts : Nat := 0       -- cases with ALT in the unpruned heap
  msgs : Array String := #[]

def distinctNames (g : Grammar) : Bool :=
  let ns := g.rules.filterMap (·.anode)
  ns.eraseDups.length == ns.length

def nameId (h : Array Cell) (i : Nat) : Nat :=
  match cellAt h i with
  | .anode nm _ _ => (hash nm).toNat
  | _ => 0

def doParse (cid : String) (o : Op) (g : Grammar) (one : Bool) (st : Stats) : Stats := Id.run do
  let setLines := o.get "set"
  let implLines := ((o.get "node").map fun ws => " ".intercalate ("node" :: ws)) ++
    ((o.get "root").map fun ws => " ".intercalate ("root" :: ws))
  if setLines.isEmpty || (o.get "root").isEmpty || (o.first "pltoks").isNone then return st
  if setLines.length > 400 then return st
  let sets : Array (Array Item) := (setLines.map fun ws => ((ws.drop 2).map parseItemW).toArray).toArray
  let plToks : Array Int := (((o.first "pltoks").getD []).map toInt).toArray
  let fk := o.args.getD 1 "user"
  match MP.makeParseSt (MP.mkCtx g sets plToks false) 400000 with
  | some s =>
    if s.bad then return { st with msgs := st.msgs.push s!"{cid} op {o.n}: make_parse model UB" }
    match s.result with
    | some r =>
      let h := ofHeap s.heap
      let free := fk != "null"
      let R := findMinimalTranslation (h.size + 1) h r one free (nameId h) s.nilUsed s.errUsed
      let mut st := { st with ran := st.ran + 1 }
      if h.any (fun c => match c with | .alt .. => true | _ => false) then st := { st with alts := st.alts + 1 }
      if !R.frees.isEmpty then st := { st with pruned := st.pruned + 1 }
      if !(wfAuto h && (autoHead h).getD r r == r) then
        st := { st with wfBad := st.wfBad + 1, msgs := st.msgs.push s!"{cid} op {o.n}: heap not WfHeap" }
      if R.oof then st := { st with msgs := st.msgs.push s!"{cid} op {o.n}: out of fuel" }
      match MP.exportTable (toHeap R.heap) R.root with
      | some (tab, rt) =>
        let modelLines := MP.renderTable tab rt
        if modelLines == implLines then st := { st with same := st.same + 1 }
        else
          let k := ((modelLines.zip implLines).takeWhile fun (a, b) => a == b).length
          let msg := s!"{cid} op {o.n} one={one}: DIFF at line {k}: model=[{modelLines.getD k "<end>"}] impl=[{implLines.getD k "<end>"}]"
          st := { st with diff := st.diff + 1, msgs := st.msgs.push msg }
        -- number of parse_free calls
        let evF := ((o.get "ev").filter fun ws => ws.headD "" == "f").length
        if fk == "user" && distinctNames g then
          let exp := R.frees.length + (if R.nilUsed then 0 else 1) + (if R.errUsed then 0 else 1)
          if exp == evF then st := { st with freesOk := st.freesOk + 1 }
          else
            let msg := s!"{cid} op {o.n} one={one}: FREES model={exp} impl={evF}"
            st := { st with freesBad := st.freesBad + 1, msgs := st.msgs.push msg }
        else st := { st with freesSkipped := st.freesSkipped + 1 }
      | none => st := { st with msgs := st.msgs.push s!"{cid} op {o.n}: cyclic" }
      return st
    | none => return st
  | none => return { st with msgs := st.msgs.push s!"{cid} op {o.n}: make_parse model out of fuel" }

def processCase (c : Case) (st : Stats) : Stats := Id.run do
  let mut st := st
  let mut hs : Array HS := Array.replicate 4 {}
  for o in c.ops do
    let h := o.h
    let cur := hs.getD h {}
    match o.cmd with
    | "create" => hs := hs.setIfInBounds h {}
    | "def" =>
      let gid := toNat (o.args.getD 0 "0")
      let rc := kvInt ((o.first "def").getD []) "rc"
      match c.grams.find? (·.1 == gid) with
      | some (_, raw) =>
        match readGrammar raw with
        | .ok g => hs := hs.setIfInBounds h { cur with g := if rc == 0 then some g else none }
        | .error _ => hs := hs.setIfInBounds h { cur with g := none }
      | none => hs := hs.setIfInBounds h { cur with g := none }
    | "descr" => hs := hs.setIfInBounds h { cur with g := none }
    | "set" =>
      let what := o.args.getD 0 ""
      let v := toInt (o.args.getD 1 "0")
      if what == "one" then hs := hs.setIfInBounds h { cur with one := v != 0 }
      if what == "cost" then hs := hs.setIfInBounds h { cur with cost := v != 0 }
    | "parse" =>
      let p := (o.first "parse").getD []
      if cur.cost && kvInt p "rc" == 0 && (kv p "root") == some "tree" then
        match cur.g with
        | some g => st := doParse c.id o g cur.one st
        | none => pure ()
    | _ => pure ()
  return st

partial def loop (stdin : IO.FS.Stream) (acc : Array String) (st : Stats) : IO Stats := do
  let line ← stdin.getLine
  if line.isEmpty then return st
  let l := (line.dropEndWhile (· == '\n')).toString
  if l.startsWith "case " then loop stdin #[l] st
  else if l == "end" then
    let c := buildCase (acc.push l).toList
    loop stdin #[] (processCase c st)
  else loop stdin (acc.push l) st

def main : IO Unit := do
  let stdin ← IO.getStdin
  let st ← loop stdin #[] {}
  for m in st.msgs.toList.take 40 do IO.println m
  IO.println s!"ran={st.ran} same={st.same} diff={st.diff} wfBad={st.wfBad} freesOk={st.freesOk} freesBad={st.freesBad} freesSkipped={st.freesSkipped} withAlt={st.alts} pruned={st.pruned}"
