"""Design-time probe (NOT verification machinery): reference enumerator of all translations
of all derivations, compared with make_parse's single tree, its all-parses DAG (set of denoted
trees) and the ambiguity flag.  Needs ./dmt built from dmt.c and a scratch copy of yaep.c that
prints RULE lines with translation data and EV lines (see DESIGN.md appendix B).
  python3 ref_translations.py <seed> <n-grammars>
"""
EV=[]
import random,sys,subprocess,itertools,functools
sys.setrecursionlimit(10000)
def run(desc,inp,la,one,cost,strict=1):
    p=subprocess.run(['./dmt',desc,inp,str(la),str(one),str(cost),str(strict)],capture_output=True,text=True,timeout=30)
    rules={}; nodes={}; root=None; res=None; gerr=None; ses=[]; global EV; EV=[]
    for line in p.stdout.splitlines():
        f=line.split()
        if not f: continue
        if f[0]=='RULE':
            i=f.index(':'); rules[int(f[1])]=dict(lhs=f[2],anode=None if f[3]=='-' else f[3],cost=int(f[4]),tlen=int(f[5]),rhs=[x.rsplit('/',1)[0] for x in f[i+1:]],order=[int(x.rsplit('/',1)[1]) for x in f[i+1:]])
        elif f[0]=='N': nodes[int(f[1])]=f[2:]
        elif f[0]=='ROOT': root=int(f[1])
        elif f[0]=='PARSE': res=dict(x.split('=') for x in f[1:])
        elif f[0]=='GRAMMAR': gerr=line
        elif f[0]=='SE': ses.append(f[1:])
        elif f[0]=='EV': EV.append(f[1])
    return rules,nodes,root,res,gerr,p.returncode,p.stderr
def denote(nodes,root,cap=5000):
    memo={}
    def d(i):
        if i in memo: return memo[i]
        n=nodes[i]; k=n[0]
        if k=='nil': r=[('nil',)]
        elif k=='err': r=[('err',)]
        elif k=='term': r=[('t',int(n[1]),int(n[2]))]
        elif k=='anode':
            kids=[d(int(c)) for c in n[3:]]
            r=[('a',n[1])+tuple(c) for c in itertools.product(*kids)]
        elif k=='alt':
            r=[]
            for c in n[1:]:
                r+=d(int(c.rstrip('!')))
        else: raise Exception("bad node")
        if len(r)>cap: raise OverflowError
        memo[i]=r; return r
    return d(root)
def costs_ok(nodes):
    # returns list of violations of additive law when cost flag used (field = own + children min)
    return []
def translations(rules,toks,cap=5000):
    nts=set(r['lhs'] for r in rules.values())
    n=len(toks)
    byl={}
    for k,r in rules.items(): byl.setdefault(r['lhs'],[]).append(k)
    sys_depth=[0]
    @functools.lru_cache(maxsize=None)
    def sym(s,i,j,depth):
        # list of (translation, deriv-id) for symbol s deriving toks[i:j]
        if s not in nts:
            if j==i+1 and toks[i]==s:
                return (( ('err',) if s=='error' else ('t',code(s),i), ('L',s,i)),)
            return ()
        if depth<=0: return ()
        out=[]
        for k in byl.get(s,[]):
            for kids in seq(tuple(rules[k]['rhs']),i,j,depth-1):
                out.append((tr(k,kids),('R',k)+tuple(x[1] for x in kids)))
                if len(out)>cap: raise OverflowError
        return tuple(out)
    @functools.lru_cache(maxsize=None)
    def seq(rhs,i,j,depth):
        if not rhs: return ((),) if i==j else ()
        out=[]
        for m in range(i,j+1):
            first=sym(rhs[0],i,m,depth)
            if not first: continue
            rest=seq(rhs[1:],m,j,depth)
            for a in first:
                for b in rest:
                    out.append((a,)+b)
                    if len(out)>cap: raise OverflowError
        return tuple(out)
    def code(s): return ord(s[1]) if s.startswith("'") else -1
    def tr(k,kids):
        r=rules[k]
        if r['anode'] is not None:
            slots=[('nil',)]*r['tlen']
            for p,o in enumerate(r['order']):
                if o>=0: slots[o]=kids[p][0]
            return ('a',r['anode'])+tuple(slots)
        for p,o in enumerate(r['order']):
            if o>=0: return kids[p][0]
        return ('nil',)
    depth=(len(nts)+1)*(n+2)
    return sym('$S',0,n,depth)
def gen_grammar(rnd):
    nts=['S','A','B','C'][:rnd.randint(1,4)]; ts=["'a'","'b'","'c'"][:rnd.randint(1,3)]
    lines=[]
    names=iter("pqrstuvwxyz"*3)
    for nt in nts:
        alts=[]
        for _ in range(rnd.randint(1,3)):
            n=rnd.choice([0,1,1,2,2,3,3]); rhs=[rnd.choice(nts) if rnd.random()<0.5 else rnd.choice(ts) for _ in range(n)]
            x=rnd.random()
            if x<0.55:
                idx=list(range(n)); rnd.shuffle(idx); idx=idx[:rnd.randint(0,n)]
                sl=[str(i) for i in idx]
                for _ in range(rnd.randint(0,1)): sl.insert(rnd.randint(0,len(sl)),'-')
                tr="# %s%s %d (%s)"%(next(names),nt.lower(),rnd.randint(0,3)," ".join(sl))
            elif x<0.8 and n>0: tr="# %d"%rnd.randrange(n)
            elif x<0.9: tr="#"
            else: tr=""
            alts.append(" ".join(rhs)+" "+tr)
        lines.append("%s : %s ;"%(nt," | ".join(alts)))
    return "TERM;\n"+"\n".join(lines), ts
if __name__=='__main__':
    seed=int(sys.argv[1]); N=int(sys.argv[2]); rnd=random.Random(seed)
    st=dict(runs=0,sent=0,one_bad=0,all_missing=0,all_spurious=0,amb_unsound=0,amb_incomplete=0,nullroot=0,altalt=0,overflow=0,ambig_inputs=0,la_diff=0)
    shown=0
    for it in range(N):
        desc,ts=gen_grammar(rnd)
        for _ in range(6):
            inp="".join(rnd.choice(ts)[1] for _ in range(rnd.randint(0,6)))
            la=rnd.choice([0,1,2])
            rules,nodes,root,res,gerr,rc,err=run(desc,inp,la,1,0)
            if gerr: break
            if res is None: print("CRASH",desc,inp,err[-200:]); continue
            if res['rc']!='0': continue
            st['runs']+=1
            toks=["'%s'"%c for c in inp]+['$eof']
            try: T=translations(rules,toks)
            except OverflowError: st['overflow']+=1; continue
            trs=set(t for t,_ in T); nder=len(set(d for _,d in T))
            if not T:
                if res['root']=='1': print("ACCEPTS NON-SENTENCE",desc,inp)
                continue
            st['sent']+=1
            if nder>1: st['ambig_inputs']+=1
            if res['root']=='0':
                st['nullroot']+=1
                if shown<12: shown+=1; print("NULL ROOT for sentence",repr(desc),inp)
                continue
            one=denote(nodes,root)
            if len(one)!=1 or one[0] not in trs:
                st['one_bad']+=1
                if shown<12: shown+=1; print("ONE-PARSE tree not a translation",repr(desc),inp,one[:2])
            amb=int(res['amb'])
            if amb and nder<2: st['amb_unsound']+=1; print("AMB UNSOUND",repr(desc),inp)
            if not amb and len(trs)>=2: st['amb_incomplete']+=1; print("AMB INCOMPLETE (one-parse)",repr(desc),inp)
            rules2,nodes2,root2,res2,_,_,_=run(desc,inp,la,0,0)
            if any(x.endswith('!') for n in nodes2.values() if n[0]=='alt' for x in n[1:]): st['altalt']+=1
            try: allt=set(denote(nodes2,root2))
            except OverflowError: st['overflow']+=1; continue
            if allt-trs:
                st['all_spurious']+=1
                if shown<12: shown+=1; print("ALL-PARSES SPURIOUS",repr(desc),inp,list(allt-trs)[:2])
            evs=set(EV)
            if nder>1: st.setdefault('amb_with_ev',0); st['amb_with_ev']+= bool(evs)
            if trs-allt:
                st['all_missing']+=1; k='missing_ev_'+'+'.join(sorted(evs)) ; st[k]=st.get(k,0)+1
                if shown<12: shown+=1; print("ALL-PARSES MISSING",repr(desc),inp,"missing",len(trs-allt),"of",len(trs))
            if int(res2['amb'])==0 and len(trs)>=2: st['amb_incomplete']+=1; print("AMB INCOMPLETE (all)",repr(desc),inp)
    print(st)
