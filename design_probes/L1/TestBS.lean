import Yaep.Model.BuildSet
open Yaep Yaep.BS

def mkG (rules : List (Nat × List Sym)) (nT nN : Nat) : Grammar :=
  { rules := ({ lhs := 0, rhs := [.n 1, .t 1] } : Rule) :: rules.map (fun p => ({ lhs := p.1, rhs := p.2 } : Rule)),
    termNames := (List.range nT).map toString, termCodes := (List.range nT).map (fun i => Int.ofNat i),
    ntNames := (List.range nN).map toString, errT := 0, eofT := 1, axiomN := 0, startN := 1 }

def itemKey (it : Item) : Nat × Nat × Nat := (it.rule, it.dot, it.origin)
def ltK (a b : Nat × Nat × Nat) : Bool := a.1 < b.1 || (a.1 == b.1 && (a.2.1 < b.2.1 || (a.2.1 == b.2.1 && a.2.2 < b.2.2)))
def norm (s : List Item) : List (Nat × Nat × Nat) :=
  ((s.map itemKey).eraseDups.toArray.qsort ltK).toList

def agree (g : Grammar) (la : Nat) (w : List Nat) : Bool :=
  let a := buildPL g la w
  let c := buildPLC g la w
  a.1 == c.1 && a.2.length == c.2.2.length &&
    (List.range a.2.length).all fun j => norm (a.2.getD j []) == norm ((c.2.2.getD j default).items j)

-- all words over alphabet of length ≤ n
def words (alpha : List Nat) : Nat → List (List Nat)
  | 0 => [[]]
  | n+1 => let ws := words alpha n; ws ++ (ws.filter (·.length == n)).flatMap fun w => alpha.map fun a => w ++ [a]

def checkAll (g : Grammar) (alpha : List Nat) (n : Nat) : List (Nat × List Nat) :=
  (words alpha n).flatMap fun w => [0, 1].filterMap fun la => if agree g la w then none else some (la, w)

def g1 := mkG [(1, [.t 2, .n 1, .t 3]), (1, [])] 4 2
def g2 := mkG [(1, [.n 2, .n 3, .n 4, .t 2]), (2, []), (2, [.t 3]), (3, [.n 2, .n 2]), (4, [.n 3]), (4, [.t 4])] 5 5
def g3 := mkG [(1, [.n 1, .t 2, .n 2]), (1, [.n 2]), (2, [.t 3])] 4 3
def g4 := mkG [(1, [.t 2, .n 1]), (1, [])] 3 2
def g5 := mkG [(1, [.n 2, .n 1, .t 3]), (1, [.t 4]), (2, [])] 5 3
def g6 := mkG [(1, [.n 1, .n 1]), (1, [.t 2]), (1, [])] 3 2
-- D13: S : X; X : Y Y 'x'; Y : ε | 'y' | 'y' X     (x = 2, y = 3; S=1 X=2 Y=3)
def g7 := mkG [(1, [.n 2]), (2, [.n 3, .n 3, .t 2]), (3, []), (3, [.t 3]), (3, [.t 3, .n 2])] 4 4
-- cyclic unit rules and nullable
def g8 := mkG [(1, [.n 2]), (2, [.n 1]), (2, [.n 3, .n 2, .n 3]), (3, []), (1, [.t 2])] 3 4
-- error rule
def g9 := mkG [(1, [.n 1, .t 2]), (1, [.t 0, .t 2]), (1, [])] 3 2

#eval checkAll g1 [2,3] 5
#eval checkAll g2 [2,3,4] 4
#eval checkAll g3 [2,3] 5
#eval checkAll g4 [2] 5
#eval checkAll g5 [3,4] 5
#eval checkAll g6 [2] 5
#eval checkAll g7 [2,3] 6
#eval checkAll g8 [2] 4
#eval checkAll g9 [2,0] 4
#eval (buildPLC g7 0 [3,2,2]).1
#eval (buildPLCD13 g7 0 [3,2,2]).1
#eval (buildPLC g7 0 [3,2,2]).2.1.bad
#eval (buildPLC g7 0 [3,2,2]).2.2.map (·.core.sits)
#eval ((buildPLC g2 1 [3,2]).2.1.nCores, (buildPLC g2 1 [3,2]).2.1.nSets, (buildPLC g2 1 [3,2]).2.1.bad)
