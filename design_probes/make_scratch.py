#!/usr/bin/env python3
"""Design-time probe helper (NOT part of the verification machinery).

Copies /repo/src/yaep.c into a scratch directory and patches the copy so that it
dumps the grammar rules and, after build_pl, every Earley set of the parse list as
(rule number, dot, origin) triples.  With --fix-d13 the copy also carries the
candidate one-line repair of the initial-situation de-duplication (defect D13 in
DESIGN.md) so that the remaining semantics can be compared with the reference.
Usage: make_scratch.py <scratch-dir> [--fix-d13]
"""
import sys, os, subprocess
out = sys.argv[1]; fix = '--fix-d13' in sys.argv
os.makedirs(out, exist_ok=True)
s = open('/repo/src/yaep.c').read()
s = s.replace("  *root = make_parse (ambiguous_p);",
              "  verif_dump_pl ();\n  *root = make_parse (ambiguous_p);")
dump = r'''
static void verif_dump_pl (void)
{
  int j, i;
  for (j = 0; j <= pl_curr; j++)
    {
      struct set *set = pl[j];
      struct set_core *c = set->core;
      printf ("SET %d", j);
      for (i = 0; i < c->n_sits; i++)
        {
          int orig;
          if (i < c->n_start_sits) orig = j - set->dists[i];
          else if (i < c->n_all_dists) orig = j - set->dists[c->parent_indexes[i]];
          else orig = j;
          printf (" %d,%d,%d", c->sits[i]->rule->num, c->sits[i]->pos, orig);
        }
      printf ("\n");
    }
}
'''
s = s.replace("static struct yaep_tree_node *\nmake_parse (int *ambiguous_p)",
              dump + "\nstatic struct yaep_tree_node *\nmake_parse (int *ambiguous_p)")
s = s.replace("  grammar->undefined_p = FALSE;\n  return 0;",
  "  {struct rule*r; int k; for(r=rules_ptr->first_rule;r;r=r->next){printf(\"RULE %d %s :\",r->num,r->lhs->repr);"
  " for(k=0;k<r->rhs_len;k++)printf(\" %s\",r->rhs[k]->repr); printf(\"\\n\");} }\n  grammar->undefined_p = FALSE;\n  return 0;")
if fix:
    old = '''  for (i = new_n_start_sits; i < new_core->n_sits; i++)
    if (new_sits[i] == sit)
      return;
  /* Remember we do not store distance for non-start situations. */'''
    assert s.count(old) == 1
    s = s.replace(old, '''  for (i = new_core->n_all_dists; i < new_core->n_sits; i++)
    if (new_sits[i] == sit)
      return;
  /* Remember we do not store distance for non-start situations. */''')
open(os.path.join(out, 'yaep_p.c'), 'w').write(s)
here = os.path.dirname(os.path.abspath(__file__))
subprocess.check_call(['bison', '-o', os.path.join(out, 'sgramm.c'), '/repo/src/sgramm.y'],
                      stderr=subprocess.DEVNULL)
subprocess.check_call(['gcc', '-g', '-O1', '-DNDEBUG', '-w', '-I/repo/src', '-I' + out, '-o',
                       os.path.join(out, 'dmp'), os.path.join(here, 'dmp.c'),
                       os.path.join(out, 'yaep_p.c'), '/repo/src/allocate.c', '/repo/src/hashtab.c',
                       '/repo/src/objstack.c', '/repo/src/vlobject.c'])
print(os.path.join(out, 'dmp'))
