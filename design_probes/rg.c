/* scratch: define a grammar through the callbacks from a line-based spec on stdin, print rc */
#include <stdio.h>
#include <stdlib.h>
#include <string.h>
#include <limits.h>
#include "yaep.h"
#define MAXT 64
#define MAXR 64
static char tname[MAXT][64]; static int tcode[MAXT]; static int nt_, ti;
static char rl[MAXR][64]; static const char* rrhs[MAXR][16]; static char rbuf[MAXR][16][64]; static int rn[MAXR];
static char ran[MAXR][64]; static int rhasan[MAXR]; static int rcost[MAXR]; static int rtr[MAXR][16]; static int rhastr[MAXR]; static int nr, ri;
static const char* rt_(int*code){ if(ti>=nt_) return NULL; *code=tcode[ti]; return tname[ti++]; }
static const char* rr_(const char***rhs,const char**an,int*cost,int**tr){ if(ri>=nr) return NULL; *rhs=rrhs[ri]; *an=rhasan[ri]?ran[ri]:NULL; *cost=rcost[ri]; *tr=rhastr[ri]?rtr[ri]:NULL; return rl[ri++]; }
static int rtok(void**a){*a=NULL;return -1;}
static void se(int a,void*b,int c,void*d,int e,void*f){}
static void* pa(int n){return malloc(n);}
int main(){
  char line[1024]; int strict=1;
  while(fgets(line,sizeof line,stdin)){
    char*p=strtok(line," \n"); if(!p) continue;
    if(!strcmp(p,"strict")) strict=atoi(strtok(NULL," \n"));
    else if(!strcmp(p,"term")){ strcpy(tname[nt_],strtok(NULL," \n")); tcode[nt_]=atoi(strtok(NULL," \n")); nt_++; }
    else if(!strcmp(p,"rule")){ /* rule lhs anode|- cost k rhs... / m tr... (N = NIL, X = no transl array) */
      strcpy(rl[nr],strtok(NULL," \n")); char*an=strtok(NULL," \n"); rhasan[nr]=strcmp(an,"-")!=0; strcpy(ran[nr],an); rcost[nr]=atoi(strtok(NULL," \n"));
      int k=atoi(strtok(NULL," \n")); for(int i=0;i<k;i++){ strcpy(rbuf[nr][i],strtok(NULL," \n")); rrhs[nr][i]=rbuf[nr][i]; } rrhs[nr][k]=NULL; rn[nr]=k;
      strtok(NULL," \n"); char*m=strtok(NULL," \n"); if(!strcmp(m,"X")) rhastr[nr]=0; else { rhastr[nr]=1; int mm=atoi(m); for(int i=0;i<mm;i++){ char*t=strtok(NULL," \n"); rtr[nr][i]= !strcmp(t,"N")?INT_MAX:atoi(t);} rtr[nr][mm]=-1; }
      nr++; }
  }
  struct grammar*g=yaep_create_grammar();
  int rc=yaep_read_grammar(g,strict,rt_,rr_);
  printf("rc=%d code=%d msg=%s\n",rc,yaep_error_code(g),rc?yaep_error_message(g):"");
  struct yaep_tree_node*root;int amb; int prc=yaep_parse(g,rtok,se,pa,NULL,&root,&amb);
  printf("parse rc=%d\n",prc);
  return 0;
}
