/-! Design-time sketch (NOT yet part of the machinery): declarative Earley items with
    soundness and completeness against `Der`, checked with Lean 4.33 core only.
    `lean EarleySketch.lean` prints the axioms of the three theorems. -/
namespace P

inductive Sym where
  | t (a : Nat)
  | n (A : Nat)
deriving DecidableEq, Repr

structure Rule where
  lhs : Nat
  rhs : List Sym
deriving DecidableEq, Repr

structure Grammar where
  rules : List Rule
  start : Nat

inductive Der (g : Grammar) : List Sym → List Nat → Prop where
  | nil : Der g [] []
  | term {a ss w} : Der g ss w → Der g (Sym.t a :: ss) (a :: w)
  | nt {r ss u v} : r ∈ g.rules → Der g r.rhs u → Der g ss v → Der g (Sym.n r.lhs :: ss) (u ++ v)

structure Item where
  rule : Rule
  dot : Nat
  origin : Nat
deriving DecidableEq

inductive Earley (g : Grammar) (w : List Nat) : Nat → Item → Prop where
  | init {r} : r ∈ g.rules → r.lhs = g.start → Earley g w 0 ⟨r, 0, 0⟩
  | scan {j r d i a} : Earley g w j ⟨r, d, i⟩ → r.rhs[d]? = some (Sym.t a) → w[j]? = some a →
      Earley g w (j+1) ⟨r, d+1, i⟩
  | predict {j r d i B r'} : Earley g w j ⟨r, d, i⟩ → r.rhs[d]? = some (Sym.n B) →
      r' ∈ g.rules → r'.lhs = B → Earley g w j ⟨r', 0, j⟩
  | complete {j k r d i r'} : Earley g w j ⟨r', r'.rhs.length, k⟩ → Earley g w k ⟨r, d, i⟩ →
      r.rhs[d]? = some (Sym.n r'.lhs) → Earley g w j ⟨r, d+1, i⟩

theorem Der.append {g : Grammar} {α β u v} (h1 : Der g α u) (h2 : Der g β v) :
    Der g (α ++ β) (u ++ v) := by
  induction h1 with
  | nil => simpa using h2
  | term _ ih => exact Der.term ih
  | nt hr h1 _ _ ih2 => rw [List.cons_append, List.append_assoc]; exact Der.nt hr h1 ih2

/-- `w[i, j)` -/
def slice (w : List Nat) (i j : Nat) : List Nat := (w.drop i).take (j - i)

@[simp] theorem slice_self (w : List Nat) (i : Nat) : slice w i i = [] := by simp [slice]

theorem slice_append (w : List Nat) {i j k : Nat} (h1 : i ≤ j) (h2 : j ≤ k) :
    slice w i j ++ slice w j k = slice w i k := by
  unfold slice
  have e : w.drop j = (w.drop i).drop (j - i) := by rw [List.drop_drop]; congr 1; omega
  have e2 : k - i = (j - i) + (k - j) := by omega
  rw [e, e2, List.take_add]

theorem slice_succ (w : List Nat) {j a} (h : w[j]? = some a) : slice w j (j+1) = [a] := by
  unfold slice
  obtain ⟨hl, he⟩ := List.getElem?_eq_some_iff.mp h
  have : j + 1 - j = 1 := by omega
  rw [this, List.drop_eq_getElem_cons hl]; simp [he]

theorem take_succ_of_getElem? {α} (l : List α) {d a} (h : l[d]? = some a) :
    l.take (d+1) = l.take d ++ [a] := by
  rw [List.take_add_one, h]; rfl

theorem soundness {g w j it} (h : Earley g w j it) :
    it.rule ∈ g.rules ∧ it.origin ≤ j ∧ Der g (it.rule.rhs.take it.dot) (slice w it.origin j) := by
  induction h with
  | init hr _ => simp [Der.nil, hr]
  | scan _ hs hw ih =>
    obtain ⟨hr, hle, hd⟩ := ih
    refine ⟨hr, by simp at *; omega, ?_⟩
    simp only at *
    rw [take_succ_of_getElem? _ hs, ← slice_append w hle (Nat.le_succ _), slice_succ w hw]
    exact Der.append hd (Der.term Der.nil)
  | predict _ _ hr _ _ => simp [Der.nil, hr]
  | complete _ _ hs ih1 ih2 =>
    obtain ⟨hr1, hle1, hd1⟩ := ih1
    obtain ⟨hr2, hle2, hd2⟩ := ih2
    simp only at *
    refine ⟨hr2, by omega, ?_⟩
    rw [take_succ_of_getElem? _ hs, ← slice_append w hle2 hle1]
    refine Der.append hd2 ?_
    rw [List.take_length] at hd1
    have := Der.nt (ss := []) (v := []) hr1 hd1 Der.nil
    simpa using this

theorem drop_succ_of_drop_cons {α} {l : List α} {d x rest} (h : l.drop d = x :: rest) :
    l[d]? = some x ∧ l.drop (d+1) = rest := by
  constructor
  · have := congrArg (·[0]?) h; simpa using this
  · have : l.drop (d+1) = (l.drop d).drop 1 := by rw [List.drop_drop]; 
    rw [this, h]; rfl

theorem slice_cons {w : List Nat} {k a u m} (h : slice w k m = a :: u) :
    w[k]? = some a ∧ slice w (k+1) m = u ∧ k < m := by
  unfold slice at *
  have hm : 0 < m - k := by
    rcases Nat.eq_zero_or_pos (m - k) with h0 | h0
    · rw [h0] at h; simp at h
    · exact h0
  cases hdk : w.drop k with
  | nil => rw [hdk] at h; simp at h
  | cons x xs =>
    rw [hdk] at h
    have e : m - k = (m - (k+1)) + 1 := by omega
    rw [e, List.take_succ_cons] at h
    injection h with h1 h2
    obtain ⟨hx, hxs⟩ := drop_succ_of_drop_cons hdk
    refine ⟨by rw [hx, h1], by rw [hxs]; exact h2, by omega⟩

theorem slice_split {w : List Nat} {k m u v} (h : slice w k m = u ++ v) :
    slice w k (k + u.length) = u ∧ slice w (k + u.length) m = v := by
  induction u generalizing k with
  | nil => simpa using h
  | cons a u ih =>
    obtain ⟨ha, hrest, hlt⟩ := slice_cons (by simpa using h)
    obtain ⟨h1, h2⟩ := ih hrest
    have e : k + (a :: u).length = (k+1) + u.length := by simp; omega
    refine ⟨?_, ?_⟩
    · rw [e, ← slice_append w (Nat.le_succ k) (Nat.le_add_right _ _), slice_succ w ha, h1]; rfl
    · rw [e]; exact h2

/-- Completeness, generalised over a derivation of a segment of a right-hand side. -/
theorem completeness_aux {g : Grammar} {w : List Nat} {β u} (hd : Der g β u) :
    ∀ {r d i k rest}, Earley g w k ⟨r, d, i⟩ → r.rhs.drop d = β ++ rest →
      slice w k (k + u.length) = u →
      Earley g w (k + u.length) ⟨r, d + β.length, i⟩ := by
  induction hd with
  | nil => intro r d i k rest h _ _; simpa using h
  | @term a ss w' _ ih =>
    intro r d i k rest h hrest hs
    obtain ⟨hsym, hdrop⟩ := drop_succ_of_drop_cons (by simpa using hrest)
    obtain ⟨hw, hs', _⟩ := slice_cons (by simpa using hs)
    have h1 := Earley.scan h hsym hw
    have := @ih r (d+1) i (k+1) rest h1 hdrop (by
      have e : k + 1 + w'.length = k + (a :: w').length := by simp; omega
      rw [e]; exact hs')
    have e1 : k + 1 + w'.length = k + (a :: w').length := by simp; omega
    have e2 : d + 1 + ss.length = d + (Sym.t a :: ss).length := by simp; omega
    rw [e1, e2] at this; exact this
  | @nt r' ss u' v' hr' _ _ ih1 ih2 =>
    intro r d i k rest h hrest hs
    obtain ⟨hsym, hdrop⟩ := drop_succ_of_drop_cons (by simpa using hrest)
    have hlen : k + (u' ++ v').length = (k + u'.length) + v'.length := by simp; omega
    rw [hlen] at hs
    obtain ⟨hs1, hs2⟩ := slice_split hs
    have hp := Earley.predict h hsym hr' rfl
    have hc := @ih1 r' 0 k k [] hp (by simp) hs1
    simp only [Nat.zero_add] at hc
    have hcomp := Earley.complete hc h hsym
    have := @ih2 r (d+1) i (k + u'.length) rest hcomp hdrop hs2
    have e2 : d + 1 + ss.length = d + (Sym.n r'.lhs :: ss).length := by simp; omega
    rw [← hlen, e2] at this; exact this

/-- acceptance ⇔ derivability (for a grammar whose start rules are `r.lhs = start`). -/
theorem complete_item_of_der {g : Grammar} {w : List Nat} {r} (hr : r ∈ g.rules)
    (hs : r.lhs = g.start) (hd : Der g r.rhs w) :
    Earley g w w.length ⟨r, r.rhs.length, 0⟩ := by
  have h0 := Earley.init (w := w) hr hs
  have := completeness_aux (w := w) hd (r := r) (d := 0) (i := 0) (k := 0) (rest := []) h0 (by simp)
    (by unfold slice; simp)
  simpa using this


#print axioms soundness
#print axioms completeness_aux
#print axioms complete_item_of_der
end P
