"""Design-time probe (NOT verification machinery): faithful port of the checks of
yaep_read_grammar (order of checks, nullable/productive/reachable fixpoints, loop detection)
compared with the implementation through the callback interface (driver rg.c).
  ASAN_OPTIONS=detect_leaks=0 python3 ref_read_grammar.py <seed> <n>   (expects ./rg)
"""
import random,subprocess,sys
NIL=2**31-1
def model(terms,rules,strict):
    """faithful port of yaep_read_grammar's checks; returns error code or 0"""
    symt={}  # name -> ('t',code) | ('n',)
    codes=set()
    for name,code in terms:
        if code<0: return 6
        if name in symt: return 5
        if code in codes: return 7
        symt[name]=('t',code); codes.add(code)
    if 'error' in symt: return 4
    symt['error']=('t',-2)
    axiom=False; start=None; R=[]  # R: (lhs, rhs)
    for (lhs,anode,cost,rhs,tr) in rules:
        if lhs not in symt: symt[lhs]=('n',)
        elif symt[lhs][0]=='t': return 9
        if anode is None and tr is not None and len(tr)>=2: return 10
        if anode is not None and cost<0: return 11
        if not axiom:
            start=lhs
            if '$S' in symt: return 4
            symt['$S']=('n',)
            if '$eof' in symt: return 4
            symt['$eof']=('t',-1)
            R.append(('$S',[lhs,'$eof'])); axiom=True
        for s in rhs:
            if s not in symt: symt[s]=('n',)
        R.append((lhs,list(rhs)))
        if tr is not None:
            seen=set()
            for el in tr:
                if el>=len(rhs):
                    if el!=NIL: return 12
                elif el in seen: return 13
                else: seen.add(el)
    if not axiom: return 8
    if not any(l==start and r[:1]==['error'] for l,r in R): R.append(('$S',['error','$eof']))
    nts=[s for s,v in symt.items() if v[0]=='n']
    empty=set(); deriv=set(s for s,v in symt.items() if v[0]=='t'); access={'$S'}
    ch=True
    while ch:
        ch=False
        for l,r in R:
            if l in access:
                for s in r:
                    if s not in access: access.add(s); ch=True
            if l not in empty and all(s in empty for s in r): empty.add(l); ch=True
            if l not in deriv and all(s in deriv for s in r): deriv.add(l); ch=True
    # nonterm order = order of creation
    if strict:
        for n in nts:
            if n not in deriv: return 15
            if n not in access: return 14
    elif '$S' not in deriv: return 15
    # loops: edge X->B if rule X: a B b with others nullable
    edges={n:set() for n in nts}
    for l,r in R:
        for i,s in enumerate(r):
            if symt[s][0]=='n' and all(x in empty for j,x in enumerate(r) if j!=i): edges[l].add(s)
    # exists cycle?
    alive=set(b for l in edges for b in edges[l])
    ch=True
    while ch:
        ch=False
        for n in list(alive):
            if not (edges[n]&alive): alive.discard(n); ch=True
    if alive: return 16
    return 0
def run(terms,rules,strict):
    lines=["strict %d"%strict]+["term %s %d"%t for t in terms]
    for (lhs,anode,cost,rhs,tr) in rules:
        trs="X" if tr is None else "%d %s"%(len(tr)," ".join('N' if e==NIL else str(e) for e in tr))
        lines.append("rule %s %s %d %d %s / %s"%(lhs,anode or '-',cost,len(rhs)," ".join(rhs),trs))
    p=subprocess.run(['./rg'],input="\n".join(lines)+"\n",capture_output=True,text=True,timeout=20)
    if p.returncode!=0: return None,p.stderr[-300:],lines
    out=p.stdout.split('\n')
    return int(out[0].split()[0][3:]), out, lines
def gen(rnd):
    tnames=['a','b','c','error','$eof','$S','S','A']
    terms=[]
    for _ in range(rnd.randint(0,3)):
        nm=rnd.choice(tnames[:3]) if rnd.random()<0.85 else rnd.choice(tnames)
        code=rnd.choice([97,98,99,100,5,0]) if rnd.random()<0.9 else -rnd.randint(1,3)
        terms.append((nm,code))
    if rnd.random()<0.8:
        # make mostly valid: unique names/codes
        seen=set(); sc=set(); t2=[]
        for n,c in terms:
            if n in seen or c in sc or c<0 or n in('error','$eof','$S','S','A'): continue
            seen.add(n); sc.add(c); t2.append((n,c))
        terms=t2
    syms=['S','A','B']+[t[0] for t in terms]+(['error'] if rnd.random()<0.3 else [])+(['$S','$eof'] if rnd.random()<0.08 else [])+(['U'] if rnd.random()<0.15 else [])
    rules=[]
    for _ in range(rnd.randint(0,5)):
        lhs=rnd.choice(['S','A','B']) if rnd.random()<0.92 else rnd.choice(syms)
        rhs=[rnd.choice(syms) for _ in range(rnd.choice([0,1,1,2,2,3]))]
        x=rnd.random()
        if x<0.4: anode='n'; 
        else: anode=None
        cost=rnd.randint(0,3) if rnd.random()<0.93 else -1
        y=rnd.random()
        if y<0.2: tr=None
        else:
            k=rnd.randint(0,2) if anode is None else rnd.randint(0,3)
            tr=[]
            for _ in range(k):
                z=rnd.random()
                tr.append(NIL if z<0.15 else rnd.randint(0,max(0,len(rhs))) if z<0.25 else rnd.randint(0,max(0,len(rhs)-1)))
            if anode is None and len(tr)>1 and rnd.random()<0.8: tr=tr[:1]
        rules.append((lhs,anode,cost,rhs,tr))
    return terms,rules,rnd.randint(0,1)
if __name__=='__main__':
    seed=int(sys.argv[1]); N=int(sys.argv[2]); rnd=random.Random(seed)
    from collections import Counter
    c=Counter(); bad=0
    for i in range(N):
        terms,rules,strict=gen(rnd)
        m=model(terms,rules,strict)
        rc,out,lines=run(terms,rules,strict)
        c[m]+=1
        if rc is None: bad+=1; print("CRASH",lines,out); continue
        if rc!=m:
            bad+=1
            if bad<8: print("MISMATCH model=%d impl=%d"%(m,rc)); print("\n".join(lines)); print(out[:2])
    print("cases",N,"bad",bad,"model codes",sorted(c.items()))
