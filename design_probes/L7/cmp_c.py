#!/usr/bin/env python3
"""Compare the Lean model Yaep.AC (flags, loop_p, FIRST/FOLLOW, check_grammar code) with the real C
library (harness yh -n, debug level 4 prints FIRST/FOLLOW on stderr) and with the abstract analysis."""
import sys, os, subprocess, glob, json, random
sys.path.insert(0, '/verif/tools')
import gen

YH = sorted(glob.glob('/verif/.work/yh-c-*/yh'), key=os.path.getmtime)[-1]
NIL = gen.NIL

def run(g):
    lines = ['case X def'] + g.text(0) + ['op 1 create 0', 'op 2 set 0 debug 4', 'op 3 def 0 0', 'op 4 free 0', 'end']
    p = subprocess.run([YH, '-n'], input='\n'.join(lines) + '\n', stdout=subprocess.PIPE, stderr=subprocess.PIPE, text=True, errors='replace', cwd='/tmp')
    return p.stdout.split('\n'), p.stderr.split('\n')

def parse(out, err):
    rc = None; terms = {}; nts = {}; flags = {}
    for l in out:
        f = l.split()
        if len(f) < 3 or f[0] != 'o': continue
        if f[2] == 'def': rc = int(f[3].split('=')[1])
        elif f[2] == 'sym' and f[3] == 'T': terms[f[4]] = int(f[6])
        elif f[2] == 'sym' and f[3] == 'N':
            nts[f[4]] = int(f[5]); flags[int(f[5])] = tuple(x.split('=')[1] == '1' for x in f[6:10])
    first = {}; follow = {}; cur = None
    for l in err:
        if l.startswith('Nonterm '):
            cur = l[len('Nonterm '):].split(':  Empty=')[0]
        elif l.startswith('  First:') and cur is not None:
            first[cur] = l[len('  First:'):].split()
        elif l.startswith('  Follow:') and cur is not None:
            follow[cur] = l[len('  Follow:'):].split()
    return rc, terms, nts, flags, first, follow

def lstr(s): return json.dumps(s)
def lbool(b): return 'true' if b else 'false'

def lean_raw(g):
    ts = ', '.join('(%s, %d)' % (lstr(n), c) for n, c in g.terms)
    rs = []
    for (lhs, anode, cost, rhs, tr) in g.rules:
        rs.append('⟨%s, [%s], %s, %d, %s⟩' % (lstr(lhs), ', '.join(lstr(x) for x in rhs), 'none' if anode is None else 'some ' + lstr(anode), cost,
                  'none' if tr is None else 'some [%s]' % ', '.join(str(e) for e in tr)))
    return '⟨[%s], [%s], %s⟩' % (ts, ', '.join(rs), lbool(g.strict))

def ok_name(n): return '\\' not in n and n != '@empty'

def lean_test(g):
    out, err = run(g)
    rc, terms, nts, flags, first, follow = parse(out, err)
    if rc is None: return None
    if any(c < 0 for _, c in g.terms if False): pass
    fl = fi = fo = '[]'
    full = False
    if rc == 0 and all(ok_name(n) for n in list(terms) + list(nts)) and len(first) == len(nts):
        full = True
        inv = {v: k for k, v in nts.items()}
        fl = '[' + ', '.join('(%s, %s, %s, %s)' % tuple(lbool(b) for b in flags[i]) for i in range(len(nts))) + ']'
        fi = '[' + ', '.join('[' + ', '.join(str(x) for x in sorted(terms[t] for t in first[inv[i]])) + ']' for i in range(len(nts))) + ']'
        fo = '[' + ', '.join('[' + ', '.join(str(x) for x in sorted(terms[t] for t in follow[inv[i]])) + ']' for i in range(len(nts))) + ']'
    return '⟨%s, %d, %s, %s, %s, %s⟩' % (lean_raw(g), rc, lbool(full), fl, fi, fo), rc, full

HEADER = '''import Yaep.Model.AnalysisC
import Yaep.Spec.Defects
open Yaep Yaep.AC
structure T where
  raw : RawGrammar
  rc : Nat
  full : Bool
  flags : List (Bool × Bool × Bool × Bool)
  first : List (List Nat)
  follow : List (List Nat)
def tabRow (tab : List (Nat × Nat)) (nT A : Nat) : List Nat :=
  (List.range nT).filter fun a => tab.contains (A, a)
/-- C-style model = abstract analysis -/
def agree (g : Grammar) : Bool :=
  let fl := emptyAccessDerives g
  let ff := firstFollowC g
  let lp := loopC g
  ((List.range g.nN).all fun A =>
    fl.empty (.n A) == g.nullable.contains A && fl.deriv (.n A) == g.productive.contains A &&
    fl.access (.n A) == g.reachable.contains A && lp A == g.loopSet.contains A &&
    maskList g.nT (ff.first A) == tabRow g.firstTab g.nT A &&
    maskList g.nT (ff.follow A) == tabRow g.followTab g.nT A) &&
  checkGrammarC g true == checkGrammar g true && checkGrammarC g false == checkGrammar g false &&
  (doWhile (eadPass g) (eadFuel g) (eadInit g)).isSome &&
  (doWhile (ffPass g fl.empty) (ffFuel g) ffInit).isSome &&
  (doWhile (loopPass g fl.empty) (loopFuel g) (loopInit g fl.empty)).isSome
/-- 0 = ok, 1 = structural code differs, 2 = check code differs, 3 = flags differ, 4 = first, 5 = follow, 6 = abstract differs -/
def T.check (t : T) : Nat :=
  match buildGrammar t.raw with
  | .error c => if c == t.rc then 0 else 1
  | .ok g =>
    if !agree g then 6
    else if checkGrammarC g t.raw.strict != t.rc then 2
    else if !t.full then 0
    else if flagRows g != t.flags then 3
    else if (List.range g.nN).map (fun A => maskList g.nT ((firstFollowC g).first A)) != t.first then 4
    else if (List.range g.nN).map (fun A => maskList g.nT ((firstFollowC g).follow A)) != t.follow then 5
    else 0
'''

def main():
    seed0 = int(sys.argv[1]); nseeds = int(sys.argv[2]); count = int(sys.argv[3]); outp = sys.argv[4]
    tests = []; stats = {}
    for seed in range(seed0, seed0 + nseeds):
        r = random.Random(seed)
        for i in range(count):
            z = r.random()
            if z < 0.2: g = gen.gen_chain_def(r)
            elif z < 0.4: g = gen.gen_loop_def(r)
            elif z < 0.5: g = gen.gen_access_def(r)
            elif z < 0.65: g = gen.gen_def_grammar(r)
            else: g = gen.gen_grammar(r, err_prob=0.2)
            if r.random() < 0.3: g = gen.Grammar(g.terms, g.rules, not g.strict)
            t = lean_test(g)
            if t is None: continue
            tests.append(t[0]); k = (t[1], t[2]); stats[k] = stats.get(k, 0) + 1
    print('tests:', len(tests), stats, file=sys.stderr)
    with open(outp, 'w') as f:
        f.write(HEADER)
        f.write('set_option maxRecDepth 100000\n')
        chunks = [tests[i:i+8] for i in range(0, len(tests), 8)]
        for i, ch in enumerate(chunks):
            f.write('def tests%d : List T := [\n' % i)
            f.write(',\n'.join(ch))
            f.write(']\n')
        f.write('def tests : List T := ' + ' ++ '.join('tests%d' % i for i in range(len(chunks))) + '\n')
        f.write('#eval (tests.length, (tests.map T.check).filter (· != 0) |>.length)\n')
        f.write('#eval ((tests.filter (fun t => t.check != 0)).take 3).map fun t => (t.check, repr t.raw)\n')
main()
