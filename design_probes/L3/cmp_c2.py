#!/usr/bin/env python3
"""Compare the Lean model BuildSet2 (order of situations, lookahead sets, counters) with the real C library, level 2."""
import sys, os, subprocess, glob, re
sys.path.insert(0, '/verif/tools')
import gen

YH = sorted(glob.glob('/verif/.work/yh-c-*/yh'), key=os.path.getmtime)[-1]

def run_cases(lines):
    p = subprocess.run([YH], input='\n'.join(lines) + '\n', stdout=subprocess.PIPE, stderr=subprocess.STDOUT, text=True)
    return p.stdout.split('\n')

def parse_out(out):
    tests = []
    cur = None
    for l in out:
        f = l.split()
        if not f: continue
        if f[0] == 'case':
            cur = dict(terms={}, codes={}, nts={}, rules=[], ops={}, sets={}, las={}, cnt={})
        elif f[0] == 'op' and cur is not None:
            cur['ops'][f[1]] = f[2:]
        elif f[0] == 'o' and cur is not None and len(f) > 2:
            n = f[1]; k = f[2]
            if k == 'sym' and f[3] == 'T':
                cur['terms'][f[4]] = int(f[6]); cur['codes'][int(f[5])] = int(f[6])
            elif k == 'sym' and f[3] == 'N':
                cur['nts'][f[4]] = int(f[5])
            elif k == 'grule':
                rl = int(f[8]); cur['rules'].append((f[4], f[9:9+rl]))
            elif k == 'set' and len(f) >= 5 and re.fullmatch(r'\d+', f[3]) and not f[3+1].startswith('prev'):
                items = [tuple(int(x) for x in it.split(',')) for it in f[5:]]
                cur['sets'].setdefault(n, []).append(items)
            elif k == 'la' and len(f) >= 4 and re.fullmatch(r'\d+', f[3]):
                ent = []
                for it in f[4:]:
                    a, b = it.split('=')
                    ent.append((tuple(int(x) for x in a.split(',')), [int(x) for x in b.split('.') if x != '']))
                cur['las'].setdefault(n, []).append(ent)
            elif k == 'cnt':
                cur['cnt'][n] = dict(x.split('=') for x in f[3:])
            elif k == 'parse':
                op = cur['ops'].get(n)
                la = 1; rec = 1
                for m in sorted(cur['ops'], key=int):
                    if int(m) >= int(n): break
                    o = cur['ops'][m]
                    if o[0] == 'set' and o[2] == 'la': la = max(0, min(2, int(o[3])))
                    if o[0] == 'set' and o[2] == 'rec': rec = int(o[3])
                if op and op[0] == 'parse' and la == 2 and rec == 0 and n in cur['sets'] and n in cur['las'] and cur['rules']:
                    toks = [int(x) for x in op[5:]]
                    if all(t in cur['codes'] for t in toks):
                        tests.append(dict(g=cur, toks=[cur['codes'][t] for t in toks], sets=cur['sets'][n],
                                          las=cur['las'][n], cnt=cur['cnt'].get(n)))
    return tests

def lean_sym(g, s):
    if s in g['terms']: return '.t %d' % g['terms'][s]
    return '.n %d' % g['nts'][s]

def lean_test(t):
    g = t['g']
    rules = ', '.join('(%d, [%s])' % (g['nts'][l], ', '.join(lean_sym(g, s) for s in r)) for l, r in g['rules'])
    sets = ', '.join('[' + ', '.join('(%d,%d,%d)' % it for it in s) + ']' for s in t['sets'])
    las = ', '.join('[' + ', '.join('(%d,%d,%d,[%s])' % (it[0][0], it[0][1], it[0][2], ','.join(map(str, it[1]))) for it in s) + ']' for s in t['las'])
    cnt = t['cnt'] or {}
    return '⟨[%s], %d, %d, %d, %d, %d, %d, [%s], [%s], [%s], %s, %s, %s⟩' % (
        rules, len(g['terms']), len(g['nts']), g['terms']['error'], g['terms']['$eof'], g['nts']['$S'],
        g['nts'][g['rules'][0][1][0]], ', '.join(map(str, t['toks'])), sets, las,
        cnt.get('cores', '0'), cnt.get('dists', '0'), cnt.get('sets', '0'))

HEADER = '''import Yaep.Model.BuildSet2
open Yaep Yaep.BS2
structure T where
  rules : List (Nat × List Sym)
  nT : Nat
  nN : Nat
  errT : Nat
  eofT : Nat
  axiomN : Nat
  startN : Nat
  toks : List Nat
  sets : List (List (Nat × Nat × Nat))
  las : List (List (Nat × Nat × Nat × List Nat))
  cores : Nat
  dists : Nat
  nsets : Nat
def T.g (t : T) : Grammar :=
  { rules := t.rules.map (fun p => ({ lhs := p.1, rhs := p.2 } : Rule)),
    termNames := (List.range t.nT).map toString, termCodes := (List.range t.nT).map Int.ofNat,
    ntNames := (List.range t.nN).map toString, errT := t.errT, eofT := t.eofT, axiomN := t.axiomN, startN := t.startN }
def T.check (t : T) : Bool :=
  let r := buildPLC2 t.g t.toks
  let mine := (List.range r.2.2.length).map fun j => ((r.2.2.getD j default).items j).map fun it => (it.rule, it.dot, it.origin)
  let las := (List.range r.2.2.length).map fun j => (r.2.2.getD j default).las t.g t.g.analysis j
  mine == t.sets && las == t.las && r.2.1.nCores == t.cores && r.2.1.nDists == t.dists && r.2.1.nSets == t.nsets && !r.2.1.bad
set_option maxRecDepth 100000
'''

def main():
    seed0 = int(sys.argv[1]); nseeds = int(sys.argv[2]); count = int(sys.argv[3])
    outp = sys.argv[4] if len(sys.argv) > 4 else '/tmp/lv-L3/scratch/CmpC2.lean'
    tests = []
    for seed in range(seed0, seed0 + nseeds):
        for focus in ('C01', 'C02', 'C03', 'C09'):
            cases = gen.gen_parse_cases(seed, count, focus)
            for c in cases:
                out = run_cases(c)
                tests += parse_out(out)
    print('tests:', len(tests), file=sys.stderr)
    with open(outp, 'w') as f:
        f.write(HEADER)
        chunks = [tests[i:i+8] for i in range(0, len(tests), 8)]
        for i, ch in enumerate(chunks):
            f.write('def tests%d : List T := [\n' % i)
            f.write(',\n'.join(lean_test(t) for t in ch))
            f.write(']\n')
        f.write('def tests : List T := ' + ' ++ '.join('tests%d' % i for i in range(len(chunks))) + '\n')
        f.write('#eval (tests.length, (tests.filter (fun t => !t.check)).length)\n')
        f.write('#eval ((tests.filter (fun t => !t.check)).take 2).map fun t => (t.rules, t.toks, t.sets, t.las, (buildPLC2 t.g t.toks).2.2.map (·.core.sits), (List.range (buildPLC2 t.g t.toks).2.2.length).map (fun j => ((buildPLC2 t.g t.toks).2.2.getD j default).las t.g t.g.analysis j), (buildPLC2 t.g t.toks).2.1.nCores, (buildPLC2 t.g t.toks).2.1.nDists, (buildPLC2 t.g t.toks).2.1.nSets, t.cores, t.dists, t.nsets)\n')
main()
