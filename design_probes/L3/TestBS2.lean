import Yaep.Model.BuildSet2
open Yaep Yaep.BS2

def mkG (rules : List (Nat × List Sym)) (nT nN : Nat) : Grammar :=
  { rules := ({ lhs := 0, rhs := [.n 1, .t 1] } : Rule) :: rules.map (fun p => ({ lhs := p.1, rhs := p.2 } : Rule)),
    termNames := (List.range nT).map toString, termCodes := (List.range nT).map (fun i => Int.ofNat i),
    ntNames := (List.range nN).map toString, errT := 0, eofT := 1, axiomN := 0, startN := 1 }

abbrev K := Nat × Nat × Nat × List Nat
def itemKey (it : Item2) : K := (it.rule, it.dot, it.origin, it.ctx)
def ltL : List Nat → List Nat → Bool
  | [], [] => false
  | [], _ => true
  | _, [] => false
  | a :: l, b :: m => a < b || (a == b && ltL l m)
def ltK (a b : K) : Bool := a.1 < b.1 || (a.1 == b.1 && (a.2.1 < b.2.1 || (a.2.1 == b.2.1 && (a.2.2.1 < b.2.2.1 || (a.2.2.1 == b.2.2.1 && ltL a.2.2.2 b.2.2.2)))))
def norm (s : List Item2) : List K :=
  ((s.map itemKey).eraseDups.toArray.qsort ltK).toList

def agree (g : Grammar) (w : List Nat) : Bool :=
  let a := buildPL2 g w
  let c := buildPLC2 g w
  a.1 == c.1 && a.2.length == c.2.2.length &&
    (List.range a.2.length).all fun j => norm (a.2.getD j []) == norm ((c.2.2.getD j default).items j)

def words (alpha : List Nat) : Nat → List (List Nat)
  | 0 => [[]]
  | n+1 => let ws := words alpha n; ws ++ (ws.filter (·.length == n)).flatMap fun w => alpha.map fun a => w ++ [a]

def checkAll (g : Grammar) (alpha : List Nat) (n : Nat) : List (List Nat) :=
  (words alpha n).filter fun w => !agree g w

def g1 := mkG [(1, [.t 2, .n 1, .t 3]), (1, [])] 4 2
def g2 := mkG [(1, [.n 2, .n 3, .n 4, .t 2]), (2, []), (2, [.t 3]), (3, [.n 2, .n 2]), (4, [.n 3]), (4, [.t 4])] 5 5
def g3 := mkG [(1, [.n 1, .t 2, .n 2]), (1, [.n 2]), (2, [.t 3])] 4 3
def g4 := mkG [(1, [.t 2, .n 1]), (1, [])] 3 2
def g5 := mkG [(1, [.n 2, .n 1, .t 3]), (1, [.t 4]), (2, [])] 5 3
def g6 := mkG [(1, [.n 1, .n 1]), (1, [.t 2]), (1, [])] 3 2
def g7 := mkG [(1, [.n 2]), (2, [.n 3, .n 3, .t 2]), (3, []), (3, [.t 3]), (3, [.t 3, .n 2])] 4 4
def g8 := mkG [(1, [.n 2]), (2, [.n 1]), (2, [.n 3, .n 2, .n 3]), (3, []), (1, [.t 2])] 3 4
def g9 := mkG [(1, [.n 1, .t 2]), (1, [.t 0, .t 2]), (1, [])] 3 2
-- c09: S : A a | b A c ; A : d
def g10 := mkG [(1, [.n 2, .t 2]), (1, [.t 3, .n 2, .t 4]), (2, [.t 5])] 6 3
-- unit chain in two right contexts: S : A x | y A z ; A : B ; B : C ; C : c
def g11 := mkG [(1, [.n 2, .t 2]), (1, [.t 3, .n 2, .t 4]), (2, [.n 3]), (3, [.n 4]), (4, [.t 5])] 6 5
-- expression grammar
def g12 := mkG [(1, [.n 1, .t 2, .n 2]), (1, [.n 2]), (2, [.n 2, .t 3, .n 3]), (2, [.n 3]), (3, [.t 4]), (3, [.t 5, .n 1, .t 6])] 7 4

#eval checkAll g1 [2,3] 5
#eval checkAll g2 [2,3,4] 4
#eval checkAll g3 [2,3] 5
#eval checkAll g4 [2] 5
#eval checkAll g5 [3,4] 5
#eval checkAll g6 [2] 5
#eval checkAll g7 [2,3] 6
#eval checkAll g8 [2] 4
#eval checkAll g9 [2,0] 4
#eval checkAll g10 [2,3,4,5] 4
#eval checkAll g11 [2,3,4,5] 4
#eval checkAll g12 [2,3,4,5,6] 4
#eval (buildPLC2 g11 [3,5,4]).1
#eval (buildPLC2Last g11 [3,5,4]).1
#eval (buildPLC2 g11 [3,5,4]).2.2.map (·.core.sits)
#eval ((buildPLC2 g11 [3,5,4]).2.1.nCores, (buildPLC2 g11 [3,5,4]).2.1.nSets, (buildPLC2 g11 [3,5,4]).2.1.bad)
