#include <stdio.h>
#include <stdlib.h>
#include <string.h>
#include "yaep.h"
static const char *input; static int pos; static int attrs[256];
static int rt(void **attr){ if(!input[pos]) return -1; *attr=&attrs[pos]; return (unsigned char)input[pos++]; }
static void se(int e,void*ea,int s,void*sa,int r,void*ra){ printf("SE %d %d %d\n",e,s,r);}
static void *pa(int n){ return malloc(n);}
#define MAXN 200000
static struct yaep_tree_node* seen[MAXN]; static int nseen;
static int idof(struct yaep_tree_node*n){ for(int i=0;i<nseen;i++) if(seen[i]==n) return i; seen[nseen]=n; return nseen++; }
static void ex(struct yaep_tree_node*n){
  for(int i=0;i<nseen;i++) if(seen[i]==n) return;
  int id=idof(n);
  switch(n->type){
  case YAEP_NIL: printf("N %d nil\n",id);break;
  case YAEP_ERROR: printf("N %d err\n",id);break;
  case YAEP_TERM: printf("N %d term %d %ld\n",id,n->val.term.code,n->val.term.attr?(long)((int*)n->val.term.attr-attrs):-1);break;
  case YAEP_ANODE:{ int k=0; while(n->val.anode.children[k])k++; for(int i=0;i<k;i++) ex(n->val.anode.children[i]);
     printf("N %d anode %s %d",id,n->val.anode.name,n->val.anode.cost); for(int i=0;i<k;i++) printf(" %d",idof(n->val.anode.children[i])); printf("\n"); break;}
  case YAEP_ALT:{ for(struct yaep_tree_node*a=n;a;a=a->val.alt.next){ ex(a->val.alt.node);} printf("N %d alt",id); for(struct yaep_tree_node*a=n;a;a=a->val.alt.next) printf(" %d%s",idof(a->val.alt.node), a->val.alt.node->type==YAEP_ALT?"!":""); printf("\n"); break;}
  default: printf("N %d bad %d\n",id,n->type);
  }
}
int main(int argc,char**argv){
  const char*d=argv[1]; input=argv[2]; int la=atoi(argv[3]),one=atoi(argv[4]),cost=atoi(argv[5]),strict=atoi(argv[6]);
  struct grammar*g=yaep_create_grammar();
  int rc=yaep_parse_grammar(g,strict,d);
  if(rc){printf("GRAMMAR rc=%d msg=%s\n",rc,yaep_error_message(g));return 0;}
  yaep_set_lookahead_level(g,la);yaep_set_one_parse_flag(g,one);yaep_set_cost_flag(g,cost);yaep_set_error_recovery_flag(g,0);
  struct yaep_tree_node*root;int amb;
  rc=yaep_parse(g,rt,se,pa,NULL,&root,&amb);
  printf("PARSE rc=%d amb=%d root=%d\n",rc,amb,root?1:0);
  if(!rc&&root){ ex(root); printf("ROOT %d\n",idof(root)); }
  return 0;
}
