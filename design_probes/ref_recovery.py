"""Design-time probe (NOT verification machinery): step-for-step port of error_recovery()/build_pl()
over reference sets; argument 4 (any value) switches on the candidate repairs for D7 and D16.
  python3 ref_recovery.py <seed> <n-grammars> <scratch>/dmp [fixed]
"""
import random,sys,subprocess
from ref_sets_la01 import analyse, gen_grammar
import ref_sets_la01 as ref
class Ctx: pass
def mk(rules,la):
    nts,terms,nullable,first,follow=analyse(rules)
    def LA(r,d):
        l,rhs=rules[r]; out=set()
        for s in rhs[d:]:
            out |= ({s} if s in terms else first[s])
            if s not in nullable: return out
        return out|follow[l]
    def ok(r,d,nxt):
        if la==0 or nxt is None: return True
        L=LA(r,d); return nxt in L or 'error' in L
    def closure(S,j):
        work=list(S)
        while work:
            r,d,i=work.pop(); rhs=rules[r][1]
            if d<len(rhs):
                s=rhs[d]
                if s in nts:
                    for r2,(l2,_) in rules.items():
                        if l2==s and (r2,0,j) not in S: S.add((r2,0,j)); work.append((r2,0,j))
                    if s in nullable and (r,d+1,i) not in S: S.add((r,d+1,i)); work.append((r,d+1,i))
        return S
    def has(S,t): return any(rules[r][1][d:d+1]==[t] for r,d,i in S[0])
    def goto(pl,t,nxt):
        j=len(pl)-1; prev=pl[j][0]
        start=[]; seen=set()
        for (r,d,i) in prev:
            if rules[r][1][d:d+1]==[t] and ok(r,d+1,nxt) and (r,d+1,i) not in seen: seen.add((r,d+1,i)); start.append((r,d+1,i))
        k=0
        while k<len(start):
            r,d,i=start[k]; k+=1
            if all(s in nullable for s in rules[r][1][d:]):
                l=rules[r][0]
                for (r2,d2,i2) in pl[i][0]:
                    if rules[r2][1][d2:d2+1]==[l] and ok(r2,d2+1,nxt) and (r2,d2+1,i2) not in seen: seen.add((r2,d2+1,i2)); start.append((r2,d2+1,i2))
        return (frozenset(closure(set(start),j+1)),t)
    S0=set((r,0,0) for r,(l,_) in rules.items() if l=='$S')
    return (frozenset(closure(S0,0)),None),has,goto
def parse(rules,toks,la,match,fix7=False):
    s0,has,goto=mk(rules,la)
    full=toks+['$eof']; n=len(full)
    pl=[s0]; tok=0; ses=[]
    def find_error(plist,start):
        cost=0; cur=start
        while cur>=0:
            if has(plist[cur],'error'): break
            elif plist[cur][1]!='error': cost+=1
            cur-=1
        assert cur>=0
        return cur,cost
    while tok<n:
        t=full[tok]; nxt=full[tok+1] if tok+1<n else None
        if la==0: nxt_used=None
        if not has(pl[-1],t):
            # error recovery
            start_tok=tok; orig=list(pl); start_pl=len(pl)-1
            bf,bc=find_error(orig,start_pl); btf=bc
            stack=[(bf,[],tok,bc)]
            best_cost=2*n; best=None; rstart=rstop=-1
            while stack:
                last,tail,stok,back=stack.pop()
                cpl=orig[:last+1]+list(tail); ctok=stok; cost=back
                if bf>0:
                    b2,c2=find_error(cpl,bf-1)
                    if fix7 and cpl[bf][1]!='error': c2+=1
                    if best_cost>=btf+c2:
                        bf=b2; btf+=c2
                        stack.append((bf,[],start_tok,btf))
                if best_cost>=cost+1:
                    if ctok+1<n: stack.append((last,list(tail),ctok+1,cost+1))
                new=goto(cpl,'error',None); cpl.append(new)
                while ctok<n:
                    if has(new,full[ctok]): break
                    cost+=1; ctok+=1
                    if cost>=best_cost: break
                if cost>=best_cost: continue
                if ctok>=n: continue
                nx=full[ctok+1] if ctok+1<n else None
                new=goto(cpl,full[ctok],nx); cpl.append(new)
                nm=0
                while True:
                    nm+=1
                    if nm>=match: break
                    ctok+=1
                    if ctok>=n: break
                    if has(new,'error'): stack.append((last,cpl[last+1:],ctok,cost))
                    if not has(new,full[ctok]): break
                    nx=full[ctok+1] if ctok+1<n else None
                    new=goto(cpl,full[ctok],nx); cpl.append(new)
                if nm>=match or ctok>=n:
                    if best_cost>cost:
                        best_cost=cost
                        if ctok==n: ctok-=1
                        best=(last,cpl[last+1:],ctok)
                        rstart=(start_tok-sum(1 for s_ in orig[last+1:start_pl+1] if s_[1]!='error')) if fix7 else start_tok-back; rstop=rstart+cost
            last,tail,btok=best
            pl=orig[:last+1]+list(tail); 
            ses.append((start_tok,rstart,rstop))
            tok=btok+1
            continue
        pl.append(goto(pl,t,nxt if la else None))
        tok+=1
    return ses,pl
def run(desc,inp,la,match,dmp):
    p=subprocess.run([dmp,desc,inp,str(la),'1','0',str(match)],capture_output=True,text=True,timeout=20)
    rules={}; sets={}; res=None; ses=[]; gerr=None
    for line in p.stdout.splitlines():
        f=line.split()
        if not f: continue
        if f[0]=='RULE': rules[int(f[1])]=(f[2],f[4:])
        elif f[0]=='SET': sets[int(f[1])]=set(tuple(map(int,x.split(','))) for x in f[2:])
        elif f[0]=='PARSE': res=line
        elif f[0]=='SE': ses.append(tuple(map(int,f[1:])))
        elif f[0]=='GRAMMAR': gerr=line
    return rules,sets,res,ses,gerr,p.returncode,p.stderr
def gen_err_grammar(rnd):
    nts=['S','A','B'][:rnd.randint(1,3)]; ts=["'a'","'b'","'c'"][:rnd.randint(2,3)]
    rules=[]
    for nt in nts:
        for _ in range(rnd.randint(1,3)):
            n=rnd.choice([1,1,2,2,3,3,4]); rhs=[]
            for k in range(n):
                x=rnd.random()
                if x<0.4: rhs.append(rnd.choice(nts))
                elif x<0.55: rhs.append('error')
                else: rhs.append(rnd.choice(ts))
            if rnd.random()<0.08: rhs=[]
            rules.append((nt,rhs))
    seen=set(); out=[]
    for l,r in rules:
        if (l,tuple(r)) in seen: continue
        seen.add((l,tuple(r))); out.append((l,r))
    return "TERM;\n"+"\n".join("%s : %s ;"%(l," ".join(r)) for l,r in out), ts
if __name__=='__main__':
    seed=int(sys.argv[1]); n=int(sys.argv[2]); dmp=sys.argv[3]; fix7=len(sys.argv)>4
    rnd=random.Random(seed); tot=0; bad=0; nerr=0; multi=0; cntbad=0
    for it in range(n):
        desc,ts=gen_err_grammar(rnd)
        used=[t for t in ts if t in desc]
        if any(l.startswith('S : error') for l in desc.splitlines()): continue
        if not used: continue
        for _ in range(5):
            inp="".join(rnd.choice(used)[1] for _ in range(rnd.randint(0,9)))
            la=rnd.choice([0,1]); match=rnd.choice([1,2,3,3])
            rules,sets,res,ses,gerr,rc,err=run(desc,inp,la,match,dmp)
            if gerr: break
            if res is None: print("CRASH",desc,inp,la,match,err[-300:]); bad+=1; continue
            tot+=1
            mses,mpl=parse(rules,["'%s'"%c for c in inp],la,match,fix7)
            nerr+=len(ses); multi+= len(ses)>1
            msets={j:set(s[0]) for j,s in enumerate(mpl)}
            if mses!=ses or msets!=sets:
                bad+=1; print("MISMATCH la=%d match=%d"%(la,match)); print(desc); print("input",inp); print(" impl",ses); print(" model",mses); print(" sets equal",msets==sets)
            # property: reported count == tokens replaced
            nerrsets=sum(1 for s in mpl if s[1]=='error'); kept=sum(1 for s in mpl if s[1] not in (None,'error'))
            dropped=len(inp)+1-kept
            if sum(b-a for _,a,b in mses)!=dropped: cntbad+=1
    print("runs",tot,"errors",nerr,"multi-error-runs",multi,"bad",bad,"count-property-violations(model)",cntbad)
