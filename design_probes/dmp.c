#include <stdio.h>
#include <stdlib.h>
#include <string.h>
#include "yaep.h"
static const char *input; static int pos;
static int rt(void **attr){ *attr=NULL; if(!input[pos]) return -1; return (unsigned char)input[pos++]; }
static void se(int e,void*ea,int s,void*sa,int r,void*ra){ printf("SE %d %d %d\n",e,s,r);}
static void *pa(int n){ return malloc(n);}
int main(int argc,char**argv){
  const char*d=argv[1]; input=argv[2]; int la=atoi(argv[3]),rec=atoi(argv[4]),strict=atoi(argv[5]); int match=argc>6?atoi(argv[6]):3;
  struct grammar*g=yaep_create_grammar();
  int rc=yaep_parse_grammar(g,strict,d);
  if(rc){printf("GRAMMAR rc=%d msg=%s\n",rc,yaep_error_message(g));return 0;}
  yaep_set_lookahead_level(g,la);yaep_set_one_parse_flag(g,1);yaep_set_error_recovery_flag(g,rec); yaep_set_recovery_match(g,match);
  struct yaep_tree_node*root;int amb;
  rc=yaep_parse(g,rt,se,pa,NULL,&root,&amb);
  printf("PARSE rc=%d root=%s amb=%d\n",rc,root?"tree":"NULL",amb);
  return 0;
}
