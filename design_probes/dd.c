#include <stdio.h>
#include <stdlib.h>
#include <string.h>
#include "yaep.h"
int main(int argc,char**argv){
  static char buf[1<<16]; size_t n=fread(buf,1,sizeof buf-1,stdin); buf[n]=0;
  /* exact-size heap copy so that ASan sees reads past the terminator */
  char*t=malloc(strlen(buf)+1); strcpy(t,buf);
  struct grammar*g=yaep_create_grammar();
  int rc=yaep_parse_grammar(g,atoi(argv[1]),t);
  printf("rc=%d msg=%s\n",rc,rc?yaep_error_message(g):"");
  return 0; }
