"""Design-time probe (NOT verification machinery): port of the description lexer (yylex), a
recursive-descent equivalent of the sgramm.y grammar and of set_sgrammar, compared with
yaep_parse_grammar on generated and mutated texts (driver dd.c, scratch yaep.c printing
TERMINAL/RULE lines).  ASAN_OPTIONS=detect_leaks=0 python3 ref_description.py <seed> <n>
"""
import random,subprocess,sys
from ref_read_grammar import model, NIL
class SynErr(Exception): pass
class OtherErr(Exception):
    def __init__(s,code): s.code=code
def lex(text):
    """port of yylex: yields (tok, val); text is bytes-like str without NUL"""
    s=text+'\0'; i=0; toks=[]
    def isal(c): return ('a'<=c<='z') or ('A'<=c<='Z')
    def isdg(c): return '0'<=c<='9'
    while True:
        c=s[i]; i+=1
        if c=='\0': toks.append(('EOF',None)); return toks
        if c in '\n\t ': continue
        if c=='/':
            c=s[i]; i+=1
            if c!='*': raise SynErr()
            while True:
                c=s[i]; i+=1
                if c=='\0': raise SynErr()
                if c=='*':
                    c=s[i]; i+=1
                    if c=='/': break
                    i-=1
            continue
        if c in '=#|;-()': toks.append((c,None)); continue
        if c=="'":
            ch=s[i]; i+=1
            if ch=='\0': raise SynErr()   # (the C code reads one byte past the terminator here)
            q=s[i]; i+=1
            if q!="'": raise SynErr()
            toks.append(('CHAR',"'"+ch+"'")); continue
        if isal(c) or c=='_':
            j=i
            while isal(s[j]) or isdg(s[j]) or s[j]=='_': j+=1
            ident=c+s[i:j]; i=j
            if ident=='TERM': toks.append(('TERM',None)); continue
            while True:
                c=s[i]; i+=1
                if c=='\0': break
                if c not in '\n\t ': break
            if c!=':': i-=1
            toks.append(('SEM_IDENT' if c==':' else 'IDENT',ident)); continue
        if isdg(c):
            j=i
            while isdg(s[j]): j+=1
            toks.append(('NUMBER',int(c+s[i:j]))); i=j; continue
        raise SynErr()
def parse(toks):
    p=[0]; sterms=[]; srules=[]
    def peek(): return toks[p[0]][0]
    def nxt(): t=toks[p[0]]; p[0]+=1; return t
    def opt_sem():
        if peek()==';': nxt()
    def terms():
        nxt()  # TERM
        while peek()=='IDENT':
            name=nxt()[1]; code=-1
            if peek()=='=':
                nxt()
                if peek()!='NUMBER': raise SynErr()
                code=nxt()[1]
            sterms.append([name,code,len(sterms)])
    def alt(lhs):
        rhs=[]
        while peek() in ('IDENT','CHAR'):
            k,v=nxt()
            if k=='CHAR': sterms.append([v,ord(v[1]) if ord(v[1])<128 else ord(v[1])-256,len(sterms)])
            rhs.append(v)
        anode=None; cost=0; tr=[]
        if peek()=='#':
            nxt()
            if peek()=='NUMBER': tr=[nxt()[1]]
            elif peek()=='-': nxt(); tr=[NIL]
            elif peek()=='IDENT':
                anode=nxt()[1]; cost=1
                if peek()=='NUMBER': cost=nxt()[1]
                if peek()=='(':
                    nxt()
                    while peek() in ('NUMBER','-'):
                        k,v=nxt(); tr.append(v if k=='NUMBER' else NIL)
                    if peek()!=')': raise SynErr()
                    nxt()
        srules.append((lhs,anode,cost,rhs,tr))
    def rule():
        lhs=nxt()[1]
        alt(lhs)
        while peek()=='|': nxt(); alt(lhs)
        opt_sem()
    first=True
    while True:
        if peek()=='TERM': terms(); opt_sem()
        elif peek()=='SEM_IDENT': rule()
        elif peek()=='EOF' and not first: break
        else: raise SynErr()
        first=False
    return sterms,srules
def set_sgrammar(sterms, first_code):
    # dedupe (only deterministic for consistent redeclarations), assign codes
    byname={}
    for name,code,num in sterms:
        if name not in byname: byname[name]=[name,code,num]
        else:
            e=byname[name]
            if code!=-1 and e[1]!=-1 and e[1]!=code: raise OtherErr(7)
            if e[1]==-1 and code!=-1: raise ValueError("mixed")   # nondeterministic in C; generator avoids
            if e[1]!=-1 and code==-1: raise ValueError("mixed")
            e[2]=min(e[2],num)
    arr=sorted(byname.values(),key=lambda e:e[2])
    c=first_code; out=[]
    for name,code,num in arr:
        if code<0: code=c; c+=1
        out.append((name,code))
    return out
def describe(text, strict, first_code=0):
    try:
        toks=lex(text); sterms,srules=parse(toks)
    except SynErr: return 3,None
    try: terms=set_sgrammar(sterms,first_code)
    except OtherErr as e: return e.code,None
    rc=model(terms,[(l,a,c,r,t) for l,a,c,r,t in srules],strict)
    return rc,(terms,srules)
def run(text,strict):
    p=subprocess.run(['./dd',str(strict)],input=text.encode('latin1'),capture_output=True,timeout=20)
    out=p.stdout.decode('latin1')
    if p.returncode!=0: return None,p.stderr.decode('latin1')[-400:],None
    terms=[];rules=[];rc=None
    for line in out.splitlines():
        f=line.split(' ')
        if f[0]=='TERMINAL': terms.append((f[1],int(f[2])))
        elif f[0]=='RULE':
            i=f.index(':'); rules.append((f[2],None if f[3]=='-' else f[3],int(f[4]),int(f[5]),[x.rsplit('/',1)[0] for x in f[i+1:] if x],[int(x.rsplit('/',1)[1]) for x in f[i+1:] if x]))
        elif f[0].startswith('rc='): rc=int(f[0][3:])
    return rc,terms,rules
WS=[' ','  ','\n','\t',' \n ','/* c */',' /* x\ny **/ ','']
def render(rnd,ast):
    def w(): return rnd.choice(WS) if rnd.random()<0.5 else ' '
    out=[]
    for item in ast:
        if item[0]=='terms':
            out.append(w()+'TERM'+' ')
            for name,code in item[1]:
                out.append(w()+name+' ')
                if code is not None: out.append(w()+'='+w()+str(code)+' ')
            if rnd.random()<0.6: out.append(w()+';')
        else:
            _,lhs,alts=item
            out.append(w()+lhs+rnd.choice(['',' ','\n','\t '])+':')
            for k,(rhs,tr) in enumerate(alts):
                if k: out.append(w()+'|')
                for s_ in rhs: out.append(w()+s_+' ')
                out.append(w()+tr)
            if rnd.random()<0.7: out.append(w()+';')
    return "".join(out)+w()
def gen_ast(rnd):
    ids=['A','B','S','num','x_1']; chars=["'a'","'b'","'+'","'('"]
    ast=[]; declared={}
    for _ in range(rnd.randint(1,4)):
        if rnd.random()<0.35:
            ts=[]
            for _ in range(rnd.randint(0,3)):
                n=rnd.choice(['NUM','ID','K'])
                if n not in declared: declared[n]=rnd.choice([None,None,300,7])
                ts.append((n,declared[n]))
            ast.append(('terms',ts))
        else:
            alts=[]
            for _ in range(rnd.randint(1,3)):
                rhs=[rnd.choice(ids+chars+list(declared)) for _ in range(rnd.choice([0,1,2,2,3]))]
                x=rnd.random()
                if x<0.2: tr=''
                elif x<0.3: tr='#'
                elif x<0.5: tr='# %d'%rnd.randint(0,max(0,len(rhs)-1))
                elif x<0.58: tr='# -'
                else:
                    sl=[str(rnd.randint(0,max(0,len(rhs)-1))) if rnd.random()<0.8 else '-' for _ in range(rnd.randint(0,3))]
                    tr='# nd%s%s'%(rnd.choice(['',' 2',' 0']), rnd.choice(['',' (%s)'%" ".join(sl)]) if not sl else ' (%s)'%" ".join(sl))
                alts.append((rhs,tr))
            ast.append(('rule',rnd.choice(['S','A','B']),alts))
    return ast
def mutate(rnd,t):
    if not t: return t
    k=rnd.randrange(len(t)); op=rnd.random()
    ch=rnd.choice(list(":;|#-()='/*? \n0aT")+[chr(200)])
    if op<0.4: return t[:k]+t[k+1:]
    if op<0.7: return t[:k]+ch+t[k:]
    return t[:k]+ch+t[k+1:]
if __name__=='__main__':
    seed=int(sys.argv[1]); N=int(sys.argv[2]); rnd=random.Random(seed)
    from collections import Counter
    c=Counter(); bad=0; crashes=0
    for it in range(N):
        ast=gen_ast(rnd); text=render(rnd,ast)
        if rnd.random()<0.5:
            for _ in range(rnd.randint(1,3)): text=mutate(rnd,text)
        strict=rnd.randint(0,1)
        try: mrc,mg=describe(text,strict)
        except ValueError: continue
        rc,terms,rules=run(text,strict)
        c[mrc]+=1
        if rc is None:
            crashes+=1
            if crashes<4: print("CRASH",repr(text),terms[-200:])
            continue
        ok = rc==mrc
        if ok and rc==0:
            mterms,mrules=mg
            iterms=[t for t in terms if t[0] not in('error','$eof')]
            ok = iterms==mterms and len(rules)==len(mrules)+1+(0 if any(r[0]==mrules[0][0] and r[4][:1]==['error'] for r in rules[1:]) else 1)
            if ok:
                for (l,a,cst,tl,rhs,order),(ml,ma,mc,mrhs,mtr) in zip(rules[1:],mrules):
                    if (l,a,rhs)!=(ml,ma,mrhs) or cst!=(mc if ma else 0) or tl!=len(mtr): ok=False
        if not ok:
            bad+=1
            if bad<6: print("MISMATCH model rc",mrc,"impl rc",rc); print(repr(text)); print(terms, mg[0] if mg else None)
    print("cases",N,"bad",bad,"crashes",crashes,"model rc",sorted(c.items()))
